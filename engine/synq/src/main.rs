// synq: dumps the syn AST of every function of a Rust source file as JSON (expressions, statements, patterns),
// for the sibling-normal-form (C16) and merge-shape (C07) rules.  usage: synq <file.rs> [<file.rs> ...]
use proc_macro2::Span;
use quote::ToTokens;
use serde_json::{json, Value};
use syn::spanned::Spanned;
use syn::*;

fn ln(sp: Span) -> usize {
    sp.start().line
}

fn toks<T: ToTokens>(t: &T) -> String {
    t.to_token_stream().to_string()
}

fn path_s(p: &Path) -> String {
    let mut s = String::new();
    for (i, seg) in p.segments.iter().enumerate() {
        if i > 0 {
            s.push_str("::");
        }
        s.push_str(&seg.ident.to_string());
    }
    s
}

fn pat(p: &Pat) -> Value {
    match p {
        Pat::Ident(i) => json!({"k":"PIdent","n":i.ident.to_string(),"ref":i.by_ref.is_some(),"mut":i.mutability.is_some(),
                                 "sub": i.subpat.as_ref().map(|(_, s)| pat(s))}),
        Pat::Lit(l) => json!({"k":"PLit","v":lit(&l.lit)}),
        Pat::Or(o) => json!({"k":"POr","cases":o.cases.iter().map(pat).collect::<Vec<_>>()}),
        Pat::Path(pp) => json!({"k":"PPath","p":path_s(&pp.path)}),
        Pat::Reference(r) => json!({"k":"PRef","mut":r.mutability.is_some(),"p":pat(&r.pat)}),
        Pat::Struct(s) => json!({"k":"PStruct","p":path_s(&s.path),"rest":s.rest.is_some(),
            "fields": s.fields.iter().map(|f| json!({"n": toks(&f.member), "p": pat(&f.pat)})).collect::<Vec<_>>()}),
        Pat::Tuple(t) => json!({"k":"PTuple","elems":t.elems.iter().map(pat).collect::<Vec<_>>()}),
        Pat::TupleStruct(t) => json!({"k":"PTupleStruct","p":path_s(&t.path),"elems":t.elems.iter().map(pat).collect::<Vec<_>>()}),
        Pat::Wild(_) => json!({"k":"PWild"}),
        Pat::Rest(_) => json!({"k":"PRest"}),
        Pat::Slice(s) => json!({"k":"PSlice","elems":s.elems.iter().map(pat).collect::<Vec<_>>()}),
        Pat::Range(r) => json!({"k":"PRange","t":toks(r)}),
        Pat::Type(t) => json!({"k":"PType","p":pat(&t.pat),"ty":toks(&t.ty)}),
        Pat::Paren(p) => pat(&p.pat),
        other => json!({"k":"POther","t":toks(other)}),
    }
}

fn lit(l: &Lit) -> Value {
    match l {
        Lit::Str(s) => json!({"t":"str","v":s.value()}),
        Lit::ByteStr(s) => json!({"t":"bytes","v":String::from_utf8_lossy(&s.value()).to_string(),"len":s.value().len()}),
        Lit::Int(i) => json!({"t":"int","v":i.base10_digits(),"suffix":i.suffix()}),
        Lit::Bool(b) => json!({"t":"bool","v":b.value}),
        Lit::Char(c) => json!({"t":"char","v":c.value().to_string()}),
        Lit::Byte(b) => json!({"t":"byte","v":b.value()}),
        Lit::Float(f) => json!({"t":"float","v":f.base10_digits()}),
        other => json!({"t":"other","v":toks(other)}),
    }
}

fn block(b: &Block) -> Value {
    json!({"k":"Block","ln":ln(b.span()),"stmts": b.stmts.iter().map(stmt).collect::<Vec<_>>()})
}

fn stmt(s: &Stmt) -> Value {
    match s {
        Stmt::Local(l) => json!({"k":"Let","ln":ln(l.span()),"pat":pat(&l.pat),
            "init": l.init.as_ref().map(|i| expr(&i.expr)),
            "else": l.init.as_ref().and_then(|i| i.diverge.as_ref().map(|(_, e)| expr(e)))}),
        Stmt::Expr(e, semi) => json!({"k":"Expr","semi":semi.is_some(),"e":expr(e)}),
        Stmt::Macro(m) => json!({"k":"Expr","semi":m.semi_token.is_some(),"e":json!({"k":"Macro","ln":ln(m.span()),"name":path_s(&m.mac.path),"tokens":m.mac.tokens.to_string()})}),
        Stmt::Item(i) => json!({"k":"Item","t": match i { Item::Const(c) => json!({"const": c.ident.to_string(), "v": expr(&c.expr), "ty": toks(&c.ty)}), _ => json!(null) }}),
    }
}

fn exprs<'a, I: Iterator<Item = &'a Expr>>(it: I) -> Vec<Value> {
    it.map(expr).collect()
}

fn expr(e: &Expr) -> Value {
    let l = ln(e.span());
    match e {
        Expr::Array(a) => json!({"k":"Array","ln":l,"elems":exprs(a.elems.iter())}),
        Expr::Assign(a) => json!({"k":"Assign","ln":l,"l":expr(&a.left),"r":expr(&a.right)}),
        Expr::Binary(b) => json!({"k":"Binary","ln":l,"op":toks(&b.op),"l":expr(&b.left),"r":expr(&b.right)}),
        Expr::Block(b) => block(&b.block),
        Expr::Break(b) => json!({"k":"Break","ln":l,"e":b.expr.as_ref().map(|x| expr(x))}),
        Expr::Call(c) => json!({"k":"Call","ln":l,"f":expr(&c.func),"args":exprs(c.args.iter())}),
        Expr::Cast(c) => json!({"k":"Cast","ln":l,"e":expr(&c.expr),"ty":toks(&c.ty)}),
        Expr::Closure(c) => json!({"k":"Closure","ln":l,"params":c.inputs.iter().map(pat).collect::<Vec<_>>(),"body":expr(&c.body),"move":c.capture.is_some()}),
        Expr::Continue(_) => json!({"k":"Continue","ln":l}),
        Expr::Field(f) => json!({"k":"Field","ln":l,"e":expr(&f.base),"f":toks(&f.member)}),
        Expr::ForLoop(f) => json!({"k":"For","ln":l,"pat":pat(&f.pat),"iter":expr(&f.expr),"body":block(&f.body)}),
        Expr::If(i) => json!({"k":"If","ln":l,"c":expr(&i.cond),"then":block(&i.then_branch),"else":i.else_branch.as_ref().map(|(_, e)| expr(e))}),
        Expr::Index(i) => json!({"k":"Index","ln":l,"e":expr(&i.expr),"i":expr(&i.index)}),
        Expr::Let(x) => json!({"k":"LetCond","ln":l,"pat":pat(&x.pat),"e":expr(&x.expr)}),
        Expr::Lit(x) => json!({"k":"Lit","ln":l,"v":lit(&x.lit)}),
        Expr::Loop(x) => json!({"k":"Loop","ln":l,"body":block(&x.body)}),
        Expr::Macro(m) => json!({"k":"Macro","ln":l,"name":path_s(&m.mac.path),"tokens":m.mac.tokens.to_string()}),
        Expr::Match(m) => json!({"k":"Match","ln":l,"e":expr(&m.expr),"arms": m.arms.iter().map(|a| json!({
            "ln": ln(a.span()), "pat": pat(&a.pat), "guard": a.guard.as_ref().map(|(_, g)| expr(g)), "body": expr(&a.body)})).collect::<Vec<_>>()}),
        Expr::MethodCall(m) => json!({"k":"MethodCall","ln":l,"recv":expr(&m.receiver),"m":m.method.to_string(),
            "turbofish": m.turbofish.as_ref().map(|t| toks(t)), "args":exprs(m.args.iter())}),
        Expr::Paren(p) => expr(&p.expr),
        Expr::Group(g) => expr(&g.expr),
        Expr::Path(p) => json!({"k":"Path","ln":l,"p":path_s(&p.path)}),
        Expr::Range(r) => json!({"k":"Range","ln":l,"from":r.start.as_ref().map(|x| expr(x)),"to":r.end.as_ref().map(|x| expr(x)),"lim":toks(&r.limits)}),
        Expr::Reference(r) => json!({"k":"Ref","ln":l,"mut":r.mutability.is_some(),"e":expr(&r.expr)}),
        Expr::Return(r) => json!({"k":"Return","ln":l,"e":r.expr.as_ref().map(|x| expr(x))}),
        Expr::Struct(s) => json!({"k":"Struct","ln":l,"p":path_s(&s.path),"rest":s.rest.as_ref().map(|x| expr(x)),
            "fields": s.fields.iter().map(|f| json!({"n": toks(&f.member), "e": expr(&f.expr)})).collect::<Vec<_>>()}),
        Expr::Try(t) => json!({"k":"Try","ln":l,"e":expr(&t.expr)}),
        Expr::Tuple(t) => json!({"k":"Tuple","ln":l,"elems":exprs(t.elems.iter())}),
        Expr::Unary(u) => json!({"k":"Unary","ln":l,"op":toks(&u.op),"e":expr(&u.expr)}),
        Expr::Unsafe(u) => block(&u.block),
        Expr::While(w) => json!({"k":"While","ln":l,"c":expr(&w.cond),"body":block(&w.body)}),
        Expr::Async(a) => json!({"k":"Async","ln":l,"body":block(&a.block)}),
        Expr::Await(a) => json!({"k":"Await","ln":l,"e":expr(&a.base)}),
        Expr::Repeat(r) => json!({"k":"Repeat","ln":l,"e":expr(&r.expr),"n":expr(&r.len)}),
        other => json!({"k":"Other","ln":l,"t":toks(other)}),
    }
}

fn has_cfg_test(attrs: &[Attribute]) -> bool {
    attrs.iter().any(|a| a.path().is_ident("cfg") && a.meta.to_token_stream().to_string().contains("test"))
}

fn cfg_of(attrs: &[Attribute]) -> Vec<String> {
    attrs.iter().filter(|a| a.path().is_ident("cfg")).map(|a| a.meta.to_token_stream().to_string()).collect()
}

fn do_fn(out: &mut Vec<Value>, file: &str, owner: &str, trait_: &str, attrs: &[Attribute], sig: &Signature, body: &Block) {
    let params: Vec<Value> = sig.inputs.iter().map(|a| match a {
        FnArg::Receiver(r) => json!({"n":"self","ty": toks(r)}),
        FnArg::Typed(t) => json!({"n": toks(&t.pat), "ty": toks(&t.ty)}),
    }).collect();
    out.push(json!({"file":file,"owner":owner,"trait":trait_,"name":sig.ident.to_string(),"ln":ln(sig.span()),"cfg":cfg_of(attrs),
        "params":params,"ret": match &sig.output { ReturnType::Default => String::new(), ReturnType::Type(_, t) => toks(t) },
        "body": block(body)}));
}

fn do_items(out: &mut Vec<Value>, consts: &mut Vec<Value>, file: &str, items: &[Item]) {
    for it in items {
        match it {
            Item::Fn(f) => {
                if has_cfg_test(&f.attrs) { continue; }
                do_fn(out, file, "", "", &f.attrs, &f.sig, &f.block);
            }
            Item::Impl(i) => {
                if has_cfg_test(&i.attrs) { continue; }
                let owner = toks(&i.self_ty);
                let tr = i.trait_.as_ref().map(|(_, p, _)| path_s(p)).unwrap_or_default();
                for ii in &i.items {
                    if let ImplItem::Fn(f) = ii {
                        if has_cfg_test(&f.attrs) { continue; }
                        do_fn(out, file, &owner, &tr, &f.attrs, &f.sig, &f.block);
                    }
                }
            }
            Item::Mod(m) => {
                if has_cfg_test(&m.attrs) { continue; }
                if let Some((_, items)) = &m.content {
                    do_items(out, consts, file, items);
                }
            }
            Item::Const(c) => {
                consts.push(json!({"file":file,"name":c.ident.to_string(),"ty":toks(&c.ty),"v":expr(&c.expr),"ln":ln(c.span())}));
            }
            _ => {}
        }
    }
}

fn main() {
    let args: Vec<String> = std::env::args().skip(1).collect();
    let mut fns = Vec::new();
    let mut consts = Vec::new();
    let mut root = String::new();
    let mut files = Vec::new();
    let mut i = 0;
    while i < args.len() {
        if args[i] == "--root" {
            root = args[i + 1].clone();
            i += 2;
        } else {
            files.push(args[i].clone());
            i += 1;
        }
    }
    for f in &files {
        let path = if root.is_empty() { f.clone() } else { format!("{}/{}", root, f) };
        let src = match std::fs::read_to_string(&path) {
            Ok(s) => s,
            Err(e) => {
                eprintln!("synq: cannot read {}: {}", path, e);
                std::process::exit(2);
            }
        };
        let ast = match syn::parse_file(&src) {
            Ok(a) => a,
            Err(e) => {
                eprintln!("synq: cannot parse {}: {}", path, e);
                std::process::exit(3);
            }
        };
        do_items(&mut fns, &mut consts, f, &ast.items);
    }
    println!("{}", json!({"fns": fns, "consts": consts}));
}
