// mirfacts: rustc_private driver that dumps pre-borrowck MIR facts (resolved callees, CFG,
// places with field names, constants, spans + macro/desugaring provenance, ADT tables) as JSON.
// Injected with RUSTC_WORKSPACE_WRAPPER under `cargo +nightly check`.  Zero cargo dependencies.
#![feature(rustc_private)]
#![allow(clippy::all)]

extern crate rustc_abi;
extern crate rustc_driver;
extern crate rustc_hir;
extern crate rustc_interface;
extern crate rustc_middle;
extern crate rustc_span;

use rustc_driver::{Callbacks, Compilation};
use rustc_hir::def::DefKind;
use rustc_hir::def_id::{DefId, LocalDefId, LOCAL_CRATE};
use rustc_interface::interface::Compiler;
use rustc_middle::mir::*;
use rustc_middle::ty::print::{with_no_trimmed_paths, with_no_visible_paths};
use rustc_middle::ty::{self, Ty, TyCtxt};
use rustc_span::{ExpnKind, Span};
use std::fmt::Write as _;

fn esc(s: &str, out: &mut String) {
    out.push('"');
    for c in s.chars() {
        match c {
            '"' => out.push_str("\\\""),
            '\\' => out.push_str("\\\\"),
            '\n' => out.push_str("\\n"),
            '\r' => out.push_str("\\r"),
            '\t' => out.push_str("\\t"),
            c if (c as u32) < 0x20 => {
                let _ = write!(out, "\\u{:04x}", c as u32);
            }
            c => out.push(c),
        }
    }
    out.push('"');
}

struct Cx<'tcx> {
    tcx: TyCtxt<'tcx>,
    out: String,
    owner: Option<LocalDefId>,
    promoted_consts: Vec<String>,
}

impl<'tcx> Cx<'tcx> {
    fn ty_s(&self, t: Ty<'tcx>) -> String {
        with_no_trimmed_paths!(format!("{}", t))
    }
    fn path(&self, d: DefId) -> String {
        with_no_trimmed_paths!(self.tcx.def_path_str(d))
    }
    fn key(&mut self, k: &str) {
        esc(k, &mut self.out);
        self.out.push(':');
    }
    fn kv_s(&mut self, k: &str, v: &str) {
        self.key(k);
        esc(v, &mut self.out);
    }
    fn span_info(&mut self, sp: Span) {
        // line of the outermost call site + expansion chain
        let tcx = self.tcx;
        let root = sp.source_callsite();
        let sm = tcx.sess.source_map();
        let lo = sm.lookup_char_pos(root.lo());
        let _ = write!(self.out, "\"ln\":{}", lo.line);
        if sp.from_expansion() {
            let mut chain = String::new();
            for ed in sp.macro_backtrace() {
                let s = match ed.kind {
                    ExpnKind::Macro(_, name) => format!("m:{}", name),
                    ExpnKind::Desugaring(d) => format!("d:{:?}", d),
                    ExpnKind::AstPass(p) => format!("a:{:?}", p),
                    ExpnKind::Root => "root".to_string(),
                };
                if !chain.is_empty() {
                    chain.push('>');
                }
                chain.push_str(&s);
            }
            if chain.is_empty() {
                // desugarings are not part of macro_backtrace in some versions
                let ed = sp.ctxt().outer_expn_data();
                chain = match ed.kind {
                    ExpnKind::Macro(_, name) => format!("m:{}", name),
                    ExpnKind::Desugaring(d) => format!("d:{:?}", d),
                    ExpnKind::AstPass(p) => format!("a:{:?}", p),
                    ExpnKind::Root => "root".to_string(),
                };
            }
            self.out.push(',');
            self.kv_s("x", &chain);
        }
    }

    fn place(&mut self, body: &Body<'tcx>, p: &Place<'tcx>) {
        let tcx = self.tcx;
        let _ = write!(self.out, "{{\"l\":{}", p.local.as_u32());
        if !p.projection.is_empty() {
            self.out.push_str(",\"p\":[");
            let mut pty = rustc_middle::mir::PlaceTy::from_ty(body.local_decls[p.local].ty);
            let mut first = true;
            for elem in p.projection.iter() {
                if !first {
                    self.out.push(',');
                }
                first = false;
                match elem {
                    ProjectionElem::Deref => self.out.push_str("\"*\""),
                    ProjectionElem::Field(f, fty) => {
                        // name + owner
                        let mut name = format!("{}", f.as_u32());
                        let mut owner = String::new();
                        match pty.ty.kind() {
                            ty::Adt(adt, _) => {
                                let vidx = pty.variant_index.unwrap_or(rustc_abi::FIRST_VARIANT);
                                if (vidx.as_usize()) < adt.variants().len() {
                                    let v = adt.variant(vidx);
                                    if f.as_usize() < v.fields.len() {
                                        name = v.fields[f].name.to_string();
                                    }
                                    owner = self.path(adt.did());
                                    if adt.is_enum() {
                                        owner.push_str("::");
                                        owner.push_str(v.name.as_str());
                                    }
                                }
                            }
                            ty::Closure(d, _) | ty::Coroutine(d, _) | ty::CoroutineClosure(d, _) => {
                                owner = format!("{{upvars}}{}", self.path(*d));
                            }
                            ty::Tuple(_) => owner = "(tuple)".to_string(),
                            _ => {}
                        }
                        self.out.push_str("{\"f\":");
                        esc(&name, &mut self.out);
                        self.out.push_str(",\"o\":");
                        esc(&owner, &mut self.out);
                        self.out.push_str(",\"t\":");
                        let s = self.ty_s(fty);
                        esc(&s, &mut self.out);
                        self.out.push('}');
                    }
                    ProjectionElem::Index(l) => {
                        let _ = write!(self.out, "{{\"ix\":{}}}", l.as_u32());
                    }
                    ProjectionElem::ConstantIndex { offset, from_end, .. } => {
                        let _ = write!(self.out, "{{\"cix\":{},\"fe\":{}}}", offset, from_end);
                    }
                    ProjectionElem::Subslice { from, to, from_end } => {
                        let _ = write!(self.out, "{{\"sub\":[{},{}],\"fe\":{}}}", from, to, from_end);
                    }
                    ProjectionElem::Downcast(name, vi) => {
                        let n = name.map(|s| s.to_string()).unwrap_or_else(|| format!("{}", vi.as_u32()));
                        self.out.push_str("{\"dc\":");
                        esc(&n, &mut self.out);
                        self.out.push('}');
                    }
                    ProjectionElem::OpaqueCast(_) => self.out.push_str("\"opq\""),
                    ProjectionElem::UnwrapUnsafeBinder(_) => self.out.push_str("\"ub\""),
                }
                pty = pty.projection_ty(tcx, elem);
            }
            self.out.push(']');
        }
        self.out.push('}');
    }

    fn operand(&mut self, body: &Body<'tcx>, o: &Operand<'tcx>) {
        match o {
            Operand::Copy(p) => {
                self.out.push_str("{\"cp\":");
                self.place(body, p);
                self.out.push('}');
            }
            Operand::Move(p) => {
                self.out.push_str("{\"mv\":");
                self.place(body, p);
                self.out.push('}');
            }
            Operand::Constant(c) => {
                self.out.push_str("{\"c\":");
                let s = with_no_trimmed_paths!(format!("{}", c.const_));
                esc(&s, &mut self.out);
                self.out.push_str(",\"t\":");
                let t = self.ty_s(c.const_.ty());
                esc(&t, &mut self.out);
                // evaluated value of named integer constants (e.g. `HEADER_LEN`)
                if c.const_.ty().is_integral() || c.const_.ty().is_bool() {
                    if matches!(c.const_, Const::Unevaluated(..)) {
                        if let Some(owner) = self.owner {
                            let env = ty::TypingEnv::post_analysis(self.tcx, owner.to_def_id());
                            let r = std::panic::catch_unwind(std::panic::AssertUnwindSafe(|| {
                                c.const_.try_eval_scalar_int(self.tcx, env)
                            }));
                            if let Ok(Some(si)) = r {
                                let bits = si.to_bits_unchecked();
                                let _ = write!(self.out, ",\"v\":\"{}\"", bits);
                            }
                        }
                    }
                }
                // value behind a promoted constant (e.g. `&"Incomplete"`): first literal of the promoted body
                if let Const::Unevaluated(uv, _) = c.const_ {
                    if let Some(pi) = uv.promoted {
                        if let Some(v) = self.promoted_consts.get(pi.as_usize()) {
                            self.out.push_str(",\"pv\":");
                            let v = v.clone();
                            esc(&v, &mut self.out);
                        }
                    }
                }
                // address of a `static` item: name it, and say whether it can change at run time (static mut / interior mutability)
                if let Some(d) = c.check_static_ptr(self.tcx) {
                    self.out.push_str(",\"static\":");
                    let p = self.path(d);
                    esc(&p, &mut self.out);
                    let sty = self.tcx.type_of(d).instantiate_identity().skip_norm_wip();
                    let env = ty::TypingEnv::fully_monomorphized();
                    let frozen = !self.tcx.is_mutable_static(d) && sty.is_freeze(self.tcx, env);
                    let _ = write!(self.out, ",\"sfrozen\":{}", frozen);
                }
                if let ty::FnDef(d, _) = c.const_.ty().kind() {
                    self.out.push_str(",\"fn\":");
                    let p = self.path(*d);
                    esc(&p, &mut self.out);
                }
                self.out.push('}');
            }
            #[allow(unreachable_patterns)]
            _ => self.out.push_str("{\"c\":\"?\"}"),
        }
    }

    fn rvalue(&mut self, body: &Body<'tcx>, rv: &Rvalue<'tcx>) {
        match rv {
            Rvalue::Use(o, ..) => {
                self.out.push_str("{\"k\":\"use\",\"a\":");
                self.operand(body, o);
                self.out.push('}');
            }
            Rvalue::Repeat(o, n) => {
                self.out.push_str("{\"k\":\"repeat\",\"a\":");
                self.operand(body, o);
                self.out.push_str(",\"n\":");
                let s = format!("{}", n);
                esc(&s, &mut self.out);
                self.out.push('}');
            }
            Rvalue::Ref(_, bk, p) => {
                let m = matches!(bk, BorrowKind::Mut { .. });
                let _ = write!(self.out, "{{\"k\":\"ref\",\"mut\":{},\"fake\":{},\"pl\":", m, matches!(bk, BorrowKind::Fake(_)));
                self.place(body, p);
                self.out.push('}');
            }
            Rvalue::ThreadLocalRef(d) => {
                self.out.push_str("{\"k\":\"tls\",\"def\":");
                let p = self.path(*d);
                esc(&p, &mut self.out);
                self.out.push('}');
            }
            Rvalue::RawPtr(k, p) => {
                let _ = write!(self.out, "{{\"k\":\"rawptr\",\"kind\":\"{:?}\",\"pl\":", k);
                self.place(body, p);
                self.out.push('}');
            }
            Rvalue::Cast(ck, o, t) => {
                let _ = write!(self.out, "{{\"k\":\"cast\",\"ck\":");
                let s = format!("{:?}", ck);
                esc(&s, &mut self.out);
                self.out.push_str(",\"a\":");
                self.operand(body, o);
                self.out.push_str(",\"from\":");
                let ft = self.ty_s(o.ty(&body.local_decls, self.tcx));
                esc(&ft, &mut self.out);
                self.out.push_str(",\"to\":");
                let tt = self.ty_s(*t);
                esc(&tt, &mut self.out);
                self.out.push('}');
            }
            Rvalue::BinaryOp(op, ab) => {
                let _ = write!(self.out, "{{\"k\":\"bin\",\"op\":\"{:?}\",\"a\":", op);
                self.operand(body, &ab.0);
                self.out.push_str(",\"b\":");
                self.operand(body, &ab.1);
                self.out.push_str(",\"ta\":");
                let ft = self.ty_s(ab.0.ty(&body.local_decls, self.tcx));
                esc(&ft, &mut self.out);
                self.out.push('}');
            }
            Rvalue::UnaryOp(op, o) => {
                let _ = write!(self.out, "{{\"k\":\"un\",\"op\":\"{:?}\",\"a\":", op);
                self.operand(body, o);
                self.out.push('}');
            }
            Rvalue::Discriminant(p) => {
                self.out.push_str("{\"k\":\"discr\",\"pl\":");
                self.place(body, p);
                self.out.push_str(",\"t\":");
                let t = self.ty_s(p.ty(&body.local_decls, self.tcx).ty);
                esc(&t, &mut self.out);
                self.out.push('}');
            }
            Rvalue::Aggregate(kind, ops) => {
                self.out.push_str("{\"k\":\"agg\",\"ak\":");
                let (ak, name) = match &**kind {
                    AggregateKind::Array(_) => ("array", String::new()),
                    AggregateKind::Tuple => ("tuple", String::new()),
                    AggregateKind::Adt(d, vi, _, _, _) => {
                        let adt = self.tcx.adt_def(*d);
                        let mut n = self.path(*d);
                        if adt.is_enum() {
                            n.push_str("::");
                            n.push_str(adt.variant(*vi).name.as_str());
                        }
                        ("adt", n)
                    }
                    AggregateKind::Closure(d, _) => ("closure", self.path(*d)),
                    AggregateKind::Coroutine(d, _) => ("coroutine", self.path(*d)),
                    AggregateKind::CoroutineClosure(d, _) => ("coroutine_closure", self.path(*d)),
                    AggregateKind::RawPtr(..) => ("rawptr", String::new()),
                };
                esc(ak, &mut self.out);
                self.out.push_str(",\"n\":");
                esc(&name, &mut self.out);
                // field names for struct aggregates
                if let AggregateKind::Adt(d, vi, _, _, _) = &**kind {
                    let adt = self.tcx.adt_def(*d);
                    let v = adt.variant(*vi);
                    self.out.push_str(",\"fs\":[");
                    for (i, f) in v.fields.iter().enumerate() {
                        if i > 0 {
                            self.out.push(',');
                        }
                        esc(f.name.as_str(), &mut self.out);
                    }
                    self.out.push(']');
                }
                self.out.push_str(",\"ops\":[");
                for (i, o) in ops.iter().enumerate() {
                    if i > 0 {
                        self.out.push(',');
                    }
                    self.operand(body, o);
                }
                self.out.push_str("]}");
            }
            Rvalue::CopyForDeref(p) => {
                self.out.push_str("{\"k\":\"use\",\"a\":{\"cp\":");
                self.place(body, p);
                self.out.push_str("}}");
            }
            Rvalue::WrapUnsafeBinder(o, _) => {
                self.out.push_str("{\"k\":\"use\",\"a\":");
                self.operand(body, o);
                self.out.push('}');
            }
        }
    }

    fn callee(&mut self, owner: LocalDefId, body: &Body<'tcx>, func: &Operand<'tcx>) {
        let tcx = self.tcx;
        if let Some((def_id, args)) = func.const_fn_def() {
            let p = self.path(def_id);
            self.kv_s("fn", &p);
            self.out.push(',');
            let full = with_no_trimmed_paths!(tcx.def_path_str_with_args(def_id, args));
            self.kv_s("fnargs", &full);
            if !def_id.is_local() && tcx.crate_name(def_id.krate).as_str() == "redis_sim" {
                // true definition path (not the re-export a bin sees): joins bin call sites to lib bodies
                self.out.push(',');
                let x = with_no_visible_paths!(with_no_trimmed_paths!(tcx.def_path_str(def_id)));
                self.kv_s("xfn", &x);
            }
            // self type (first generic arg) for trait methods
            if let Some(tr) = tcx.trait_of_assoc(def_id) {
                self.out.push(',');
                let tp = self.path(tr);
                self.kv_s("trait", &tp);
                if args.len() > 0 {
                    if let Some(t) = args[0].as_type() {
                        self.out.push(',');
                        let s = self.ty_s(t);
                        self.kv_s("selfty", &s);
                    }
                }
            }
            // resolve
            let env = ty::TypingEnv::post_analysis(tcx, owner.to_def_id());
            let args_e = tcx.erase_and_anonymize_regions(args);
            let resolved = std::panic::catch_unwind(std::panic::AssertUnwindSafe(|| {
                ty::Instance::try_resolve(tcx, env, def_id, args_e)
            }));
            if let Ok(Ok(Some(inst))) = resolved {
                let rd = inst.def_id();
                if rd != def_id {
                    self.out.push(',');
                    let rp = self.path(rd);
                    self.kv_s("res", &rp);
                }
            }
        } else {
            self.out.push_str("\"fnop\":");
            self.operand(body, func);
            self.out.push(',');
            let t = self.ty_s(func.ty(&body.local_decls, tcx));
            self.kv_s("fnty", &t);
        }
    }

    fn body(&mut self, def: LocalDefId, body: &Body<'tcx>) {
        let tcx = self.tcx;
        self.owner = Some(def);
        let did = def.to_def_id();
        self.out.push('{');
        let p = self.path(did);
        self.kv_s("def", &p);
        self.out.push(',');
        let kind = match tcx.def_kind(did) {
            DefKind::Fn => "fn",
            DefKind::AssocFn => "method",
            DefKind::Closure => {
                if tcx.is_coroutine(did) {
                    "coroutine"
                } else {
                    "closure"
                }
            }
            _ => "other",
        };
        self.kv_s("kind", kind);
        // parent (for closures)
        if matches!(tcx.def_kind(did), DefKind::Closure) {
            self.out.push(',');
            let par = self.path(tcx.parent(did));
            self.kv_s("parent", &par);
        }
        if matches!(tcx.def_kind(did), DefKind::Fn | DefKind::AssocFn) {
            self.out.push(',');
            let v = tcx.visibility(did);
            self.kv_s("vis", if v.is_public() { "pub" } else { "restricted" });
            if tcx.asyncness(did).is_async() {
                self.out.push_str(",\"async\":true");
            }
        }
        if matches!(tcx.def_kind(did), DefKind::AssocFn) {
            // impl self type and implemented trait item
            let parent = tcx.parent(did);
            if matches!(tcx.def_kind(parent), DefKind::Impl { .. }) {
                self.out.push(',');
                let st = self.ty_s(tcx.type_of(parent).instantiate_identity().skip_norm_wip());
                self.kv_s("impl_self", &st);
                if let Some(ti) = tcx.associated_item(did).trait_item_def_id() {
                    self.out.push(',');
                    let tp = self.path(ti);
                    self.kv_s("implements", &tp);
                }
            }
        }
        // file + lines
        let sm = tcx.sess.source_map();
        let sp = body.span;
        let lo = sm.lookup_char_pos(sp.lo());
        let hi = sm.lookup_char_pos(sp.hi());
        self.out.push(',');
        let fname = format!("{}", lo.file.name.prefer_local_unconditionally());
        self.kv_s("file", &fname);
        let _ = write!(self.out, ",\"lo\":{},\"hi\":{},\"argc\":{}", lo.line, hi.line, body.arg_count);
        // locals
        self.out.push_str(",\"locals\":[");
        for (i, ld) in body.local_decls.iter().enumerate() {
            if i > 0 {
                self.out.push(',');
            }
            let s = self.ty_s(ld.ty);
            esc(&s, &mut self.out);
        }
        self.out.push(']');
        // debug names
        self.out.push_str(",\"names\":[");
        let mut first = true;
        for vdi in body.var_debug_info.iter() {
            if let VarDebugInfoContents::Place(pl) = &vdi.value {
                if !first {
                    self.out.push(',');
                }
                first = false;
                self.out.push_str("{\"n\":");
                esc(vdi.name.as_str(), &mut self.out);
                self.out.push_str(",\"pl\":");
                self.place(body, pl);
                self.out.push('}');
            }
        }
        self.out.push(']');
        // blocks
        self.out.push_str(",\"blocks\":[");
        for (bi, bb) in body.basic_blocks.iter().enumerate() {
            if bi > 0 {
                self.out.push(',');
            }
            let _ = write!(self.out, "{{\"cleanup\":{},\"st\":[", bb.is_cleanup);
            let mut firsts = true;
            for st in bb.statements.iter() {
                match &st.kind {
                    StatementKind::Assign(b) => {
                        if !firsts {
                            self.out.push(',');
                        }
                        firsts = false;
                        self.out.push_str("{\"lhs\":");
                        self.place(body, &b.0);
                        self.out.push_str(",\"rv\":");
                        self.rvalue(body, &b.1);
                        self.out.push(',');
                        self.span_info(st.source_info.span);
                        self.out.push('}');
                    }
                    StatementKind::SetDiscriminant { place, variant_index } => {
                        if !firsts {
                            self.out.push(',');
                        }
                        firsts = false;
                        self.out.push_str("{\"lhs\":");
                        self.place(body, place);
                        let _ = write!(self.out, ",\"rv\":{{\"k\":\"setdiscr\",\"v\":{}}},", variant_index.as_u32());
                        self.span_info(st.source_info.span);
                        self.out.push('}');
                    }
                    _ => {}
                }
            }
            self.out.push_str("],\"t\":");
            let term = bb.terminator();
            self.out.push('{');
            match &term.kind {
                TerminatorKind::Goto { target } => {
                    let _ = write!(self.out, "\"k\":\"goto\",\"to\":{}", target.as_u32());
                }
                TerminatorKind::SwitchInt { discr, targets } => {
                    self.out.push_str("\"k\":\"switch\",\"d\":");
                    self.operand(body, discr);
                    self.out.push_str(",\"dt\":");
                    let t = self.ty_s(discr.ty(&body.local_decls, tcx));
                    esc(&t, &mut self.out);
                    self.out.push_str(",\"cases\":[");
                    let mut f = true;
                    for (v, t) in targets.iter() {
                        if !f {
                            self.out.push(',');
                        }
                        f = false;
                        let _ = write!(self.out, "[\"{}\",{}]", v, t.as_u32());
                    }
                    let _ = write!(self.out, "],\"else\":{}", targets.otherwise().as_u32());
                }
                TerminatorKind::UnwindResume => self.out.push_str("\"k\":\"resume\""),
                TerminatorKind::UnwindTerminate(_) => self.out.push_str("\"k\":\"terminate\""),
                TerminatorKind::Return => self.out.push_str("\"k\":\"return\""),
                TerminatorKind::Unreachable => self.out.push_str("\"k\":\"unreachable\""),
                TerminatorKind::Drop { place, target, unwind, .. } => {
                    self.out.push_str("\"k\":\"drop\",\"pl\":");
                    self.place(body, place);
                    let _ = write!(self.out, ",\"to\":{}", target.as_u32());
                    if let UnwindAction::Cleanup(u) = unwind {
                        let _ = write!(self.out, ",\"uw\":{}", u.as_u32());
                    }
                }
                TerminatorKind::Call { func, args, destination, target, unwind, .. } => {
                    self.out.push_str("\"k\":\"call\",");
                    self.callee(def, body, func);
                    self.out.push_str(",\"args\":[");
                    for (i, a) in args.iter().enumerate() {
                        if i > 0 {
                            self.out.push(',');
                        }
                        self.operand(body, &a.node);
                    }
                    self.out.push_str("],\"dest\":");
                    self.place(body, destination);
                    if let Some(t) = target {
                        let _ = write!(self.out, ",\"to\":{}", t.as_u32());
                    }
                    if let UnwindAction::Cleanup(u) = unwind {
                        let _ = write!(self.out, ",\"uw\":{}", u.as_u32());
                    }
                }
                TerminatorKind::TailCall { func, args, .. } => {
                    self.out.push_str("\"k\":\"tailcall\",");
                    self.callee(def, body, func);
                    self.out.push_str(",\"args\":[");
                    for (i, a) in args.iter().enumerate() {
                        if i > 0 {
                            self.out.push(',');
                        }
                        self.operand(body, &a.node);
                    }
                    self.out.push(']');
                }
                TerminatorKind::Assert { cond, expected, msg, target, unwind } => {
                    self.out.push_str("\"k\":\"assert\",\"cond\":");
                    self.operand(body, cond);
                    let mk = match &**msg {
                        AssertKind::BoundsCheck { .. } => "bounds".to_string(),
                        AssertKind::Overflow(op, ..) => format!("overflow:{:?}", op),
                        AssertKind::OverflowNeg(_) => "overflow:Neg".to_string(),
                        AssertKind::DivisionByZero(_) => "divzero".to_string(),
                        AssertKind::RemainderByZero(_) => "remzero".to_string(),
                        _ => "other".to_string(),
                    };
                    let _ = write!(self.out, ",\"exp\":{},\"msg\":\"{}\",\"to\":{}", expected, mk, target.as_u32());
                    if let AssertKind::BoundsCheck { len, index } = &**msg {
                        self.out.push_str(",\"len\":");
                        self.operand(body, len);
                        self.out.push_str(",\"index\":");
                        self.operand(body, index);
                    }
                    if let UnwindAction::Cleanup(u) = unwind {
                        let _ = write!(self.out, ",\"uw\":{}", u.as_u32());
                    }
                }
                TerminatorKind::Yield { value, resume, drop, .. } => {
                    self.out.push_str("\"k\":\"yield\",\"v\":");
                    self.operand(body, value);
                    let _ = write!(self.out, ",\"to\":{}", resume.as_u32());
                    if let Some(d) = drop {
                        let _ = write!(self.out, ",\"drop\":{}", d.as_u32());
                    }
                }
                TerminatorKind::CoroutineDrop => self.out.push_str("\"k\":\"codrop\""),
                TerminatorKind::FalseEdge { real_target, imaginary_target } => {
                    let _ = write!(
                        self.out,
                        "\"k\":\"falseedge\",\"to\":{},\"imag\":{}",
                        real_target.as_u32(),
                        imaginary_target.as_u32()
                    );
                }
                TerminatorKind::FalseUnwind { real_target, unwind } => {
                    let _ = write!(self.out, "\"k\":\"falseunwind\",\"to\":{}", real_target.as_u32());
                    if let UnwindAction::Cleanup(u) = unwind {
                        let _ = write!(self.out, ",\"uw\":{}", u.as_u32());
                    }
                }
                TerminatorKind::InlineAsm { .. } => self.out.push_str("\"k\":\"asm\""),
            }
            self.out.push(',');
            self.span_info(term.source_info.span);
            self.out.push_str("}}");
        }
        self.out.push_str("]}");
    }

    fn adts(&mut self) {
        let tcx = self.tcx;
        self.out.push_str("\"adts\":[");
        let mut first = true;
        for id in tcx.hir_free_items() {
            let did = id.owner_id.to_def_id();
            let dk = tcx.def_kind(did);
            if !matches!(dk, DefKind::Struct | DefKind::Enum | DefKind::Union) {
                continue;
            }
            let adt = tcx.adt_def(did);
            if !first {
                self.out.push(',');
            }
            first = false;
            self.out.push('{');
            let p = self.path(did);
            self.kv_s("def", &p);
            self.out.push(',');
            self.kv_s("kind", if adt.is_enum() { "enum" } else { "struct" });
            self.out.push_str(",\"variants\":[");
            for (vi, v) in adt.variants().iter().enumerate() {
                if vi > 0 {
                    self.out.push(',');
                }
                self.out.push_str("{\"n\":");
                esc(v.name.as_str(), &mut self.out);
                self.out.push_str(",\"fields\":[");
                for (fi, f) in v.fields.iter().enumerate() {
                    if fi > 0 {
                        self.out.push(',');
                    }
                    self.out.push_str("{\"n\":");
                    esc(f.name.as_str(), &mut self.out);
                    self.out.push_str(",\"t\":");
                    let t = self.ty_s(tcx.type_of(f.did).instantiate_identity().skip_norm_wip());
                    esc(&t, &mut self.out);
                    let _ = write!(self.out, ",\"pub\":{}}}", f.vis.is_public());
                }
                self.out.push_str("]}");
            }
            self.out.push_str("]}");
        }
        self.out.push(']');
    }
}

struct Cb;

impl Callbacks for Cb {
    fn after_expansion<'tcx>(&mut self, _c: &Compiler, tcx: TyCtxt<'tcx>) -> Compilation {
        let out_dir = match std::env::var("MIRFACTS_OUT") {
            Ok(d) => d,
            Err(_) => return Compilation::Continue,
        };
        let crate_name = tcx.crate_name(LOCAL_CRATE).to_string();
        if crate_name.starts_with("build_script") {
            return Compilation::Continue;
        }
        let mut cx = Cx { tcx, out: String::with_capacity(64 << 20), owner: None, promoted_consts: Vec::new() };
        cx.out.push('{');
        cx.kv_s("crate", &crate_name);
        cx.out.push(',');
        let ct = format!("{:?}", tcx.crate_types());
        cx.kv_s("crate_types", &ct);
        cx.out.push(',');
        cx.adts();
        cx.out.push_str(",\"fns\":[");
        let mut n = 0usize;
        for def in tcx.hir_body_owners() {
            let did = def.to_def_id();
            if !matches!(tcx.def_kind(did), DefKind::Fn | DefKind::AssocFn | DefKind::Closure) {
                continue;
            }
            let (body_steal, promoted_steal) = tcx.mir_promoted(def);
            let body = body_steal.borrow();
            {
                let promoted = promoted_steal.borrow();
                cx.promoted_consts.clear();
                for pb in promoted.iter() {
                    let mut found = String::new();
                    'outer: for bb in pb.basic_blocks.iter() {
                        for st in bb.statements.iter() {
                            if let StatementKind::Assign(b) = &st.kind {
                                if let Rvalue::Use(Operand::Constant(k), ..) = &b.1 {
                                    found = with_no_trimmed_paths!(format!("{}", k.const_));
                                    break 'outer;
                                }
                                // `&ErrorKind::NotFound`: a field-less enum variant built in the promoted body
                                if let Rvalue::Aggregate(ak, fields) = &b.1 {
                                    if let AggregateKind::Adt(adt_did, vidx, ..) = &**ak {
                                        if fields.is_empty() {
                                            let adt = tcx.adt_def(*adt_did);
                                            found = format!(
                                                "{}::{}",
                                                with_no_trimmed_paths!(tcx.def_path_str(*adt_did)),
                                                adt.variant(*vidx).name
                                            );
                                            break 'outer;
                                        }
                                    }
                                }
                            }
                        }
                    }
                    cx.promoted_consts.push(found);
                }
            }
            if n > 0 {
                cx.out.push(',');
            }
            n += 1;
            cx.body(def, &body);
        }
        cx.out.push_str("]}");
        let is_test = tcx.sess.opts.test;
        let kind = if ct.contains("Executable") { "bin" } else { "lib" };
        let fname = format!(
            "{}/{}-{}{}.json",
            out_dir,
            crate_name,
            kind,
            if is_test { "-test" } else { "" }
        );
        let tmp = format!("{}.tmp{}", fname, std::process::id());
        std::fs::write(&tmp, cx.out.as_bytes()).expect("mirfacts: cannot write facts");
        std::fs::rename(&tmp, &fname).expect("mirfacts: cannot rename facts");
        Compilation::Continue
    }
}

fn main() {
    let mut args: Vec<String> = std::env::args().collect();
    // RUSTC_WORKSPACE_WRAPPER passes the real rustc path as argv[1]
    if args.len() > 1 && (args[1].ends_with("rustc") || args[1].contains("/rustc")) {
        args.remove(1);
    }
    rustc_driver::run_compiler(&args, &mut Cb);
}
