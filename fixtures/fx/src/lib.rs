//! Positive/negative examples for the generic analyses of /verif/rules (hash-order rule H, error
//! propagation, awaited-Ok dominance, must-pass-through, resolved reachability of forbidden effects).
//! `bad_*` functions must be reported by the named analysis on every run, `ok_*` twins must be silent.
//! Compiled by the same mirfacts driver as the repository; never executed.
#![allow(dead_code, unused_variables, clippy::all)]
use std::collections::hash_map::DefaultHasher;
use std::collections::{HashMap, HashSet};
use std::hash::{Hash, Hasher};

// ---------------------------------------------------------------- rule H
pub fn bad_h_push_loop(m: &HashMap<u32, u32>) -> Vec<u32> {
    let mut v = Vec::new();
    for (k, _) in m.iter() {
        v.push(*k);
    }
    v
}

pub fn ok_h_sorted(m: &HashMap<u32, u32>) -> Vec<u32> {
    let mut v: Vec<u32> = m.keys().copied().collect();
    v.sort_unstable();
    v
}

pub fn ok_h_to_set(m: &HashMap<u32, u32>) -> HashSet<u32> {
    m.keys().copied().collect()
}

pub fn bad_h_pick_first(m: &HashMap<u32, u32>) -> Option<u32> {
    m.keys().next().copied()
}

pub fn ok_h_count(m: &HashMap<u32, u32>) -> usize {
    m.values().filter(|v| **v > 3).count()
}

pub fn bad_h_returned(m: &HashMap<u32, u32>) -> Vec<u32> {
    m.keys().copied().collect()
}

pub fn bad_h_hash_fold(m: &HashMap<u32, u32>) -> u64 {
    let mut h = DefaultHasher::new();
    for (k, v) in m.iter() {
        k.hash(&mut h);
        v.hash(&mut h);
    }
    h.finish()
}

pub fn ok_h_caller_sorts(m: &HashMap<u32, u32>) -> Vec<u32> {
    let mut v = bad_h_returned(m);
    v.sort();
    v
}

pub fn bad_h_caller_uses_order(m: &HashMap<u32, u32>) -> u32 {
    let v = bad_h_returned(m);
    v[0]
}

// ---------------------------------------------------------------- error propagation
fn fallible(x: u32) -> Result<u32, String> {
    if x > 10 {
        Err("big".to_string())
    } else {
        Ok(x)
    }
}

pub fn ok_e_question(x: u32) -> Result<u32, String> {
    let v = fallible(x)?;
    Ok(v + 1)
}

pub fn ok_e_map_err(x: u32) -> Result<u32, std::io::Error> {
    let v = fallible(x).map_err(|e| std::io::Error::new(std::io::ErrorKind::Other, e))?;
    Ok(v + 1)
}

pub fn ok_e_match_return(x: u32) -> Result<u32, String> {
    let v = match fallible(x) {
        Ok(v) => v,
        Err(e) => return Err(e),
    };
    Ok(v + 1)
}

pub fn bad_e_swallow(x: u32) -> Result<u32, String> {
    let v = match fallible(x) {
        Ok(v) => v,
        Err(_) => 0,
    };
    Ok(v + 1)
}

pub fn bad_e_discard(x: u32) -> Result<u32, String> {
    let _ = fallible(x);
    Ok(1)
}

pub fn bad_e_one_arm_swallows(x: u32, lenient: bool) -> Result<u32, String> {
    let v = match fallible(x) {
        Ok(v) => v,
        Err(e) => {
            if lenient {
                0
            } else {
                return Err(e);
            }
        }
    };
    Ok(v + 1)
}

// ---------------------------------------------------------------- awaited Ok dominance
pub struct Store;
impl Store {
    pub async fn put(&self, k: &str) -> Result<(), String> {
        if k.is_empty() {
            Err("empty".into())
        } else {
            Ok(())
        }
    }
    pub async fn save(&self) -> Result<(), String> {
        Ok(())
    }
    pub async fn delete(&self, k: &str) -> Result<(), String> {
        Ok(())
    }
}

pub async fn ok_a_put_then_save(s: &Store) -> Result<(), String> {
    s.put("a").await?;
    s.save().await?;
    Ok(())
}

pub async fn bad_a_put_unchecked_then_save(s: &Store) -> Result<(), String> {
    let _ = s.put("a").await;
    s.save().await?;
    Ok(())
}

pub async fn bad_a_save_on_both_edges(s: &Store) -> Result<(), String> {
    if s.put("a").await.is_err() {
        // keep going
    }
    s.save().await?;
    Ok(())
}

// ---------------------------------------------------------------- must-pass-through (path_avoiding)
pub struct Pool {
    free: Vec<u32>,
}
impl Pool {
    pub fn acquire(&mut self) -> u32 {
        self.free.pop().unwrap_or(0)
    }
    pub fn release(&mut self, s: u32) {
        self.free.push(s)
    }
}

pub fn ok_d_release_all_paths(p: &mut Pool, x: u32) -> u32 {
    let s = p.acquire();
    if x > 3 {
        p.release(s);
        return 1;
    }
    p.release(s);
    0
}

pub fn bad_d_release_missing_on_early_return(p: &mut Pool, x: u32) -> u32 {
    let s = p.acquire();
    if x > 3 {
        return 1;
    }
    p.release(s);
    0
}

// ---------------------------------------------------------------- reachability of forbidden effects
pub trait Clock {
    fn now(&self) -> u64;
}
pub struct Wall;
impl Clock for Wall {
    fn now(&self) -> u64 {
        std::time::SystemTime::now().duration_since(std::time::UNIX_EPOCH).map(|d| d.as_millis() as u64).unwrap_or(0)
    }
}
pub struct Virtual(pub u64);
impl Clock for Virtual {
    fn now(&self) -> u64 {
        self.0
    }
}

fn helper_wall() -> u64 {
    Wall.now()
}

pub fn bad_r_entry_reaches_wall_clock(seed: u64) -> u64 {
    let f = |x: u64| x + helper_wall();
    f(seed)
}

pub fn ok_r_entry_virtual(seed: u64) -> u64 {
    Virtual(seed).now()
}

pub fn bad_r_entry_env(seed: u64) -> u64 {
    std::env::var("X").map(|s| s.len() as u64).unwrap_or(seed)
}

// ---------------------------------------------------------------- constant-false branch pruning
pub fn ok_c_debug_only_path(v: &mut Vec<u32>) -> usize {
    if cfg!(debug_assertions) {
        v.push(1);
    }
    v.len()
}
