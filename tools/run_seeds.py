#!/usr/bin/env python3
"""Apply every seeded change under /verif/seeded/<id>/ to a scratch export of /repo's HEAD, run the property's check against it
(--repo), record which rule instances report it, and remove the scratch copy.  Usage: tools/run_seeds.py [-jN] [id ...]
Writes seeded/<id>/detected.json and prints a summary.  /repo is never touched."""
import json
import os
import sys
from concurrent.futures import ThreadPoolExecutor

sys.path.insert(0, os.path.dirname(os.path.abspath(__file__)))
from patchrun import VERIF, with_patch


def one(sid):
    d = os.path.join(VERIF, "seeded", sid)
    if not os.path.isfile(os.path.join(d, "patch.diff")):
        return None
    meta = json.load(open(os.path.join(d, "meta.json")))
    prop = meta["property"]
    reb = os.path.join(d, "patch.rebased.diff")
    patch = reb if os.path.exists(reb) else os.path.join(d, "patch.diff")
    applied, out = with_patch(patch, [prop])
    how = ("rebased" if patch.endswith("rebased.diff") else "clean") if applied else None
    res = {"seed": sid, "property": prop, "applied": how, "violations": out.get(prop, (None, []))[1], "exit": out.get(prop, (None, []))[0]}
    with open(os.path.join(d, "detected.json"), "w") as f:
        json.dump(res, f, indent=1)
    print("%-7s %-4s applied=%-5s exit=%s  %s" % (sid, prop, how, res["exit"], "; ".join(v.split(":")[0] + ":" + v.split(":")[-1][:40] for v in res["violations"][:3])), flush=True)
    return res


def main():
    args = sys.argv[1:]
    jobs = 3
    if args and args[0].startswith("-j"):
        jobs = int(args.pop(0)[2:])
    ids = args or sorted(os.listdir(os.path.join(VERIF, "seeded")))
    with ThreadPoolExecutor(jobs) as ex:
        rows = [r for r in ex.map(one, ids) if r]
    missed = [r["seed"] for r in rows if r["applied"] and r["exit"] == 0]
    noapply = [r["seed"] for r in rows if not r["applied"]]
    print("detected %d / %d applied; missed: %s; did not apply: %s" % (sum(1 for r in rows if r["applied"] and r["exit"] == 1), sum(1 for r in rows if r["applied"]), missed, noapply))
    return 0


if __name__ == "__main__":
    sys.exit(main())
