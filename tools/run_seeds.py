#!/usr/bin/env python3
"""Apply every seeded change under /verif/seeded/<id>/ to /repo (working tree only), run the property's check, record which
rule instances report it, and undo the change.  Usage: tools/run_seeds.py [id ...]
Writes seeded/<id>/detected.json and prints a summary table.  Never commits anything in /repo."""
import json
import os
import re
import subprocess
import sys

VERIF = os.path.dirname(os.path.dirname(os.path.abspath(__file__)))
REPO = "/repo"


def sh(cmd, cwd=None):
    return subprocess.run(cmd, cwd=cwd, shell=True, stdout=subprocess.PIPE, stderr=subprocess.STDOUT, text=True)


def main():
    ids = sys.argv[1:] or sorted(os.listdir(os.path.join(VERIF, "seeded")))
    if sh("git status --porcelain --untracked-files=no", REPO).stdout.strip():
        print("refusing: /repo has uncommitted changes")
        return 2
    rows = []
    for sid in ids:
        d = os.path.join(VERIF, "seeded", sid)
        if not os.path.isfile(os.path.join(d, "patch.diff")):
            continue
        meta = json.load(open(os.path.join(d, "meta.json")))
        prop = meta["property"]
        patch = os.path.join(d, "patch.rebased.diff") if os.path.exists(os.path.join(d, "patch.rebased.diff")) else os.path.join(d, "patch.diff")
        applied = sh("git apply --check %s" % patch, REPO).returncode == 0 and sh("git apply %s" % patch, REPO).returncode == 0
        how = ("rebased" if patch.endswith("rebased.diff") else "clean") if applied else None
        res = {"seed": sid, "property": prop, "applied": how, "violations": [], "exit": None}
        if applied:
            c = sh("./check %s --tier quick" % prop, VERIF)
            res["exit"] = c.returncode
            for line in c.stdout.splitlines():
                m = re.match(r"^  ((?:R|BUILD|ANCHOR|INTERNAL)[\w.\-]*:.*?): ", line)
                if m:
                    res["violations"].append(m.group(1)[:200])
            sh("git checkout -- .", REPO)
            if sh("git status --porcelain --untracked-files=no", REPO).stdout.strip():
                print("!! could not undo", sid)
                return 3
        with open(os.path.join(d, "detected.json"), "w") as f:
            json.dump(res, f, indent=1)
        rows.append(res)
        print("%-7s %-4s applied=%-5s exit=%s  %s" % (sid, prop, how, res["exit"], "; ".join(v.split(":")[0] + ":" + v.split(":")[-1][:40] for v in res["violations"][:3])))
    missed = [r["seed"] for r in rows if r["applied"] and r["exit"] == 0]
    noapply = [r["seed"] for r in rows if not r["applied"]]
    print("detected %d / %d applied; missed: %s; did not apply: %s" % (sum(1 for r in rows if r["applied"] and r["exit"] == 1), sum(1 for r in rows if r["applied"]), missed, noapply))
    return 0


if __name__ == "__main__":
    sys.exit(main())
