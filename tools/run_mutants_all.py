#!/usr/bin/env python3
"""Run the whole mutant catalogue (the self-test part of the thorough tier) for every property and store the outcome in
mutants_last.json (read by tools/gen_tables.py).  usage: tools/run_mutants_all.py [-jN]"""
import json
import os
import sys
from concurrent.futures import ThreadPoolExecutor

VERIF = os.path.dirname(os.path.dirname(os.path.abspath(__file__)))
sys.path.insert(0, VERIF)
from rules import mutants  # noqa: E402


def main():
    jobs = int(sys.argv[1][2:]) if len(sys.argv) > 1 and sys.argv[1].startswith("-j") else 3
    props = sorted({m[1] for m in mutants.M})
    with ThreadPoolExecutor(jobs) as ex:
        res = dict(zip(props, ex.map(lambda p: mutants.run_mutants(p), props)))
    json.dump(res, open(os.path.join(VERIF, "mutants_last.json"), "w"), indent=1)
    for p in props:
        r = res[p]
        print(p, "tried", r["tried"], "detected", r["detected"], "survivors", [x["id"] for x in r["survivors"]], "invalid", [x["id"] for x in r["invalid"]])


if __name__ == "__main__":
    main()
