#!/bin/bash
# usage: tools/verify_seed.sh <outdir> <seed-id> <worktree-name>
# My own confirmation of a seeded change, in a scratch worktree: build with the change, full 691-test suite with the change (demo absent),
# demo with the change (must fail), demo without the change (must pass).  Writes <outdir>/<seed-id>/verify_result.txt
out=$1; id=$2; wt=/tmp/wt/$3
d=$out/$id
export RUSTC_WRAPPER= CARGO_NET_OFFLINE=true
cd $wt || exit 2
git checkout -q -- . ; git clean -qfd -e target
r=$d/verify_result.txt
place=$(python3 -c "import json,sys; m=json.load(open('$d/meta.json')); print(m['demo']['place_at'])")
demofile=$(python3 -c "import json,sys,os; m=json.load(open('$d/meta.json')); print(os.path.basename(m['demo']['file']))")
run=$(python3 -c "import json,sys; m=json.load(open('$d/meta.json')); print(m['demo']['run'])")
echo "seed $id demo=$d/$demofile place=$place base=$(git rev-parse --short HEAD)" > $r
if ! git apply --check $d/patch.diff 2>>$r; then echo "patch_does_not_apply" >> $r; exit 1; fi
git apply $d/patch.diff
if git diff --stat | grep -qE 'tests/|_test\.rs|_tests\.rs'; then echo "note: patch touches test files" >> $r; fi
echo "build_with_patch: $(cargo build --offline --lib --bins 2>&1 | tail -1)" >> $r
echo "suite_with_patch: $(cargo nextest run --workspace --no-fail-fast --tool-config-file pb:/w/lib/nextest.toml --profile pb --test-threads 8 --offline 2>&1 | grep -E 'Summary|error' | tail -1)" >> $r
mkdir -p $(dirname $place); cp $d/$demofile $place
( eval "$run" ) > $d/demo_with.log 2>&1; echo "demo_with_patch_exit: $? $(grep -E 'test result|panicked' $d/demo_with.log | tail -1)" >> $r
git apply -R $d/patch.diff
( eval "$run" ) > $d/demo_without.log 2>&1; echo "demo_without_patch_exit: $? $(grep -E 'test result' $d/demo_without.log | tail -1)" >> $r
rm -f $place
git checkout -q -- . ; git clean -qfd -e target
echo DONE >> $r
cat $r
