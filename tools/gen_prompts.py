#!/usr/bin/env python3
"""Write the prompts for a round of independent seeding sub-agents: each gets only the text of one property (the line of
properties.jsonl) and its own scratch worktree - nothing from /verif.  usage: tools/gen_prompts.py <round-tag> <outdir>"""
import json
import os
import sys

VERIF = os.path.dirname(os.path.dirname(os.path.abspath(__file__)))
FLAV = {
    "1": "Prefer a defect that shows only through a multi-step sequence of operations, or through two cooperating sites that each look "
         "fine alone (for example: one site establishes something a second site silently relies on, and the change alters one of them).",
    "2": "Prefer a defect that shows only under a particular interleaving, a crash or injected fault at one particular point, "
         "a particular configuration value, or an unusual input / argument value / boundary case.",
}
T = """You are helping to evaluate a verification tool for the Rust project nerdsane/redis-rust (an experimental Redis-compatible server).
Your job: write ONE realistic source change that BREAKS the semantic property below while the project still compiles and its whole
existing test suite still passes, and demonstrate the breakage with a small test that fails with your change and passes without it.

Your private scratch git worktree of the repository is: {wt}   (work ONLY there; never read or write /repo or /verif).
Write your deliverables to: {out}   (create the directory).

THE PROPERTY ({pid}) - this JSON is everything you are given about it:
{prop}

What makes a good change:
- It looks like a plausible commit a maintainer could make in good faith (an optimisation, a refactor, a "hardening", a de-duplication,
  a simplification, a feature tweak) with plausible comments - not an obvious sabotage, no dead code, no test edits.
- It needs something SPECIFIC to manifest; ordinary use must not expose it at once. {flavour}
- Prefer a site other than the first one that comes to mind: helper functions, constructors, start-up / shutdown / restart paths,
  sibling implementations of the same thing, data-structure modules, error paths, configuration handling that the property relies on
  are all fair game, as long as the property as stated is genuinely violated (observable through the public API of the crate).
- Touch only files under src/. Keep it small (typically 5-40 changed lines).
- Earlier rounds of this exercise already used the ideas listed below for this property. Yours must be a DIFFERENT idea at a DIFFERENT
  site (a variation of a listed one does not count):
{used}

Hard requirements (verify each yourself, in your worktree; always prefix cargo with `RUSTC_WRAPPER= CARGO_NET_OFFLINE=true`, the
sandbox is offline and sccache is not installed):
1. `RUSTC_WRAPPER= CARGO_NET_OFFLINE=true cargo build --offline --lib --bins` succeeds with the change.
2. The full existing suite passes with the change (your demo test absent):
   `RUSTC_WRAPPER= CARGO_NET_OFFLINE=true cargo nextest run --workspace --no-fail-fast --tool-config-file pb:/w/lib/nextest.toml --profile pb --test-threads 6 --offline`
   must end with `691 tests run: 691 passed`. (Takes some minutes; other jobs share the machine. Run it once, near the end.)
3. A demonstration: a new integration test file (e.g. tests/{low}_r8_demo{k}.rs, using only the crate's public API, crate name
   `redis_sim`) or a small example, that FAILS with your change and PASSES on the unchanged tree. Run it both ways
   (use `git diff > /tmp/x.diff; git apply -R /tmp/x.diff` to get the unchanged tree; do NOT use `git stash`: the stash is shared
   between all worktrees of the repository and other agents are working in theirs). It must be deterministic.

Deliverables in {out}:
- patch.diff : `git diff` of your src/ change only, relative to the worktree's HEAD (must apply with `git apply` on a clean HEAD; the demo test is NOT in it)
- the demo test file (e.g. demo_test.rs)
- meta.json : {{"summary": "<file, function, what was changed and why it breaks the property>", "needs_to_manifest": "<the specific sequence / interleaving / fault / input needed>", "demo": {{"file": "demo_test.rs", "place_at": "tests/<name>.rs", "run": "RUSTC_WRAPPER= CARGO_NET_OFFLINE=true cargo test --offline --test <name>"}}, "ran": ["<each command you ran for requirements 1-3 and its outcome>"]}}

You need not clean the worktree when you are done. Do not commit. If an idea turns out not to satisfy all requirements
(e.g. an existing test catches it), pick another idea rather than weakening the requirements. In your final message give a 5-line summary.
"""


def used_ideas(pid, outn):
    import glob
    out = []
    for m in sorted(glob.glob(os.path.join(VERIF, "seeded", pid + "_*", "meta.json"))) + sorted(glob.glob("/tmp/wt/out%s/%s_*/meta.json" % (outn, pid))):
        try:
            d = json.load(open(m))
        except Exception:
            continue
        txt = (d.get("breaks") or d.get("summary") or "").replace("\n", " ")
        if txt:
            out.append("  * " + txt[:230])
    return "\n".join(out) if out else "  (none yet)"


def main():
    tag, outdir = sys.argv[1], sys.argv[2]
    os.makedirs(outdir, exist_ok=True)
    for line in open(os.path.join(VERIF, "properties.jsonl")):
        p = json.loads(line)
        for k in ("1", "2"):
            sid = "%s_%s" % (p["id"], k)
            txt = T.format(wt="/tmp/wt/%s_%s" % (tag, sid), out="/tmp/wt/out%s/%s" % (tag.lstrip("r"), sid), pid=p["id"],
                           prop=json.dumps(p, indent=1), used=used_ideas(p["id"], tag.lstrip("r")), flavour=FLAV[k], low=p["id"].lower(), k=k)
            open(os.path.join(outdir, sid + ".txt"), "w").write(txt)
    print("ok")


if __name__ == "__main__":
    main()
