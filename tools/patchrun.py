"""Shared helper of run_seeds.py / run_refactors.py: export /repo's HEAD into a scratch directory (outside /repo and /verif), apply one
patch there, run checks against it with --repo, remove the scratch directory.  /repo itself is never touched."""
import os
import re
import shutil
import subprocess
import sys
import tempfile

VERIF = os.path.dirname(os.path.dirname(os.path.abspath(__file__)))
REPO = os.environ.get("VERIF_REPO", "/repo")
RX = re.compile(r"^  ((?:R|BUILD|ANCHOR|INTERNAL|SELFTEST)[\w.\-]*:.*?): ", re.M)


import queue
SLOTS = queue.Queue()
for _i in range(0, 8):        # slot 0 = the shared default target directory; 1.. = private ones (cold on first use)
    SLOTS.put(_i)


def sh(cmd, cwd=None, env=None):
    return subprocess.run(cmd, cwd=cwd, shell=True, stdout=subprocess.PIPE, stderr=subprocess.STDOUT, text=True, env=env)


def with_patch(patch, props):
    """-> (applied?, {prop: (exit code, [violation keys])})"""
    scratch = tempfile.mkdtemp(prefix="verif-patch-")
    try:
        if sh("git -C %s archive HEAD | tar -x -C %s" % (REPO, scratch)).returncode != 0:
            return False, {}
        if sh("git apply --unsafe-paths --directory=%s %s" % (scratch, patch), cwd="/").returncode != 0:
            # git apply outside a repository: fall back to patch(1) semantics through `git apply` in an initialised dir
            sh("git init -q .", scratch)
            if sh("git apply %s" % patch, scratch).returncode != 0:
                return False, {}
        env = dict(os.environ, VERIF_EVIDENCE_DIR=os.path.join(scratch, "_evidence"), VERIF_REPORT_DIR=os.path.join(scratch, "_reports"))
        slot = SLOTS.get()
        if slot:
            env["VERIF_TARGET_SUFFIX"] = "-w%d" % slot
        out = {}
        for p in props:
            c = sh("%s %s %s --tier quick --repo %s --no-mutants" % (sys.executable, os.path.join(VERIF, "check"), p, scratch), VERIF, env)
            out[p] = (c.returncode, [m.group(1)[:200] for m in RX.finditer(c.stdout)])
        return True, out
    finally:
        if "slot" in dir():
            SLOTS.put(slot)
        shutil.rmtree(scratch, ignore_errors=True)
