#!/bin/bash
# usage: tools/scratch.sh <patch.diff> <name>  -> /tmp/sc/<name>: export of /repo HEAD with the patch applied (remove it yourself: rm -rf /tmp/sc/<name>)
set -e
d=/tmp/sc/$2; rm -rf $d; mkdir -p $d
git -C /repo archive HEAD | tar -x -C $d
cd $d && git init -q . && git apply $1
echo $d
