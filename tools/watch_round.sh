#!/bin/bash
# usage: tools/watch_round.sh <outdir> <tag> [minutes]   - polls <outdir> for delivered seeds (meta.json + patch.diff) and runs, once per seed,
# the first contact against the checks as they stand and then my verification (which removes the seed's worktree).
out=$1; tag=$2; mins=${3:-120}
end=$(( $(date +%s) + mins*60 ))
while [ $(date +%s) -lt $end ]; do
  for d in $out/C??_?; do
    [ -f $d/meta.json ] && [ -f $d/patch.diff ] || continue
    # deliverables untouched for 5 minutes: the author is done with the worktree (verification resets it)
    [ -z "$(find $d -maxdepth 1 -type f -mmin -5 ! -name '.seen' | head -1)" ] || continue
    id=$(basename $d)
    if [ ! -f $d/.seen ]; then
      touch $d/.seen
      ( python3 /verif/tools/first_contact.py $out -j1 $id >> $out/first_contact.log 2>&1; /verif/tools/verify_seed.sh $out $id ${tag}_$id > $d/verify.log 2>&1; /verif/tools/rmwt.sh ${tag}_$id; echo "verified $id" >> $out/verified.log ) &
    fi
  done
  sleep 45
done
