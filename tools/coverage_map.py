#!/usr/bin/env python3
"""Blind-spot map: for every property, the functions of its anchor files (from the default-configuration facts) that no rule
instance of that property names.  A function is 'named' when its short name (or, for closures, its parent's) occurs in one of the
instance keys of evidence/<Cnn>.json.  Crude on purpose: it is a reading aid for deciding where the next rule is needed, never part
of a verdict.  usage: tools/coverage_map.py [Cnn ...]"""
import json
import os
import sys

VERIF = os.path.dirname(os.path.dirname(os.path.abspath(__file__)))
sys.path.insert(0, VERIF)
from rules import facts  # noqa: E402


def main():
    want = set(a.upper() for a in sys.argv[1:])
    prog = facts.load("default", None)
    fns = list(prog.fns.values()) if hasattr(prog, "fns") else list(prog.all_fns())
    for line in open(os.path.join(VERIF, "properties.jsonl")):
        p = json.loads(line)
        if want and p["id"] not in want:
            continue
        files = set(p["anchors"].get("files", []))
        ev = json.load(open(os.path.join(VERIF, "evidence", p["id"] + ".json")))
        keys = " ".join(ev["coverage"].get("instances", []))
        rows = []
        for f in fns:
            if f.file not in files or f.crate != "lib":
                continue
            if "test" in f.id or "verify_invariants" in f.id:
                continue
            parts = [x for x in f.id.split("::") if not x.startswith("{")]
            name = parts[-1].rstrip(">")
            if f.kind in ("closure", "coroutine") and any(x.id == f.parent for x in fns if x.kind != "closure") and f.kind == "closure":
                continue
            if " as " in f.id and ("fmt" == name or name in ("clone", "eq", "default", "hash", "partial_cmp", "cmp", "serialize", "deserialize")):
                continue
            n = len(f.blocks)
            if n < 6:
                continue
            rows.append((name in keys, n, f.file, f.id))
        cov = sum(1 for r in rows if r[0])
        print("== %s: %d of %d anchor-file functions (>=6 blocks) are named by a rule instance" % (p["id"], cov, len(rows)))
        for r in sorted([r for r in rows if not r[0]], key=lambda r: -r[1])[:40]:
            print("   %4d blocks  %s  %s" % (r[1], r[2], r[3]))


if __name__ == "__main__":
    main()
