#!/bin/bash
# usage: tools/mkwt.sh <name>   -> scratch git worktree of /repo's HEAD at /tmp/wt/<name> with a warm target directory.
# The warm directory is a hard-link copy (instant) of a dependency-only template /tmp/wt/_tmpl: one real copy of /repo/target with every
# artefact of the workspace member removed (those are rebuilt after any source change anyway; dependency artefacts are never rewritten
# by cargo, so sharing their inodes between scratch worktrees is safe; /repo/target itself is never linked to).
set -e
n=$1
d=/tmp/wt/$n
mkdir -p /tmp/wt
if [ -d "$d" ]; then echo "exists $d"; exit 0; fi
if [ ! -d /tmp/wt/_tmpl ] && [ -d /repo/target ]; then
  cp -a /repo/target /tmp/wt/_tmpl.part
  T=/tmp/wt/_tmpl.part/debug
  for h in $(ls $T/.fingerprint | grep '^redis-sim-' | sed 's/^redis-sim-//'); do
    rm -rf "$T/.fingerprint/redis-sim-$h" "$T/build/redis-sim-$h"; rm -f "$T"/deps/*-$h "$T"/deps/*-$h.*
  done
  rm -rf /tmp/wt/_tmpl.part/debug/incremental; find "$T" -maxdepth 1 -type f -delete
  mv /tmp/wt/_tmpl.part /tmp/wt/_tmpl
fi
git -C /repo worktree add --detach "$d" HEAD >/dev/null 2>&1
if [ -d /tmp/wt/_tmpl ]; then cp -al /tmp/wt/_tmpl "$d/target"; fi
echo "$d"
