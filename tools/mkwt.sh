#!/bin/bash
# usage: tools/mkwt.sh <name>   -> scratch git worktree of /repo's HEAD at /tmp/wt/<name> with a warm copy of /repo/target
set -e
n=$1
d=/tmp/wt/$n
mkdir -p /tmp/wt
if [ -d "$d" ]; then echo "exists $d"; exit 0; fi
git -C /repo worktree add --detach "$d" HEAD >/dev/null 2>&1
if [ -d /repo/target ]; then cp -a --reflink=auto /repo/target "$d/target"; fi
echo "$d"
