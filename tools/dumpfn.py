#!/usr/bin/env python3
"""dev helper: pretty-print the facts of functions whose id matches a regex.
usage: tools/dumpfn.py <regex> [config]"""
import os
import re
import sys

sys.path.insert(0, os.path.dirname(os.path.dirname(os.path.abspath(__file__))))
from rules import facts  # noqa
from rules.facts import place_str, callee  # noqa


def opstr(fn, o):
    if "c" in o:
        return "const " + o["c"][:80]
    p = o.get("cp") or o.get("mv")
    return ("move " if "mv" in o else "") + pstr(fn, p)


def pstr(fn, p):
    s = "_%d" % p["l"]
    for e in p.get("p", []):
        if e == "*":
            s = "(*%s)" % s
        elif isinstance(e, dict):
            if "f" in e:
                s += "." + e["f"]
            elif "dc" in e:
                s = "(%s as %s)" % (s, e["dc"])
            elif "ix" in e:
                s += "[_%d]" % e["ix"]
            else:
                s += "[..]"
    return s


def rvstr(fn, rv):
    k = rv["k"]
    if k == "use":
        return opstr(fn, rv["a"])
    if k == "ref":
        return ("&mut " if rv["mut"] else "&") + pstr(fn, rv["pl"])
    if k == "bin":
        return "%s(%s, %s)" % (rv["op"], opstr(fn, rv["a"]), opstr(fn, rv["b"]))
    if k == "un":
        return "%s(%s)" % (rv["op"], opstr(fn, rv["a"]))
    if k == "cast":
        return "%s as %s [%s]" % (opstr(fn, rv["a"]), rv["to"], rv["ck"])
    if k == "discr":
        return "discriminant(%s)" % pstr(fn, rv["pl"])
    if k == "agg":
        return "%s{%s}" % (rv["n"] or rv["ak"], ", ".join(opstr(fn, o) for o in rv["ops"]))
    return str(rv)[:120]


def dump(fn):
    print("=" * 100)
    print(fn.id, fn.kind, fn.where(), "argc", fn.d["argc"])
    print("  names:", ", ".join("%s=%s" % (n["n"], pstr(fn, n["pl"])) for n in fn.names))
    rb = fn.reachable_blocks()
    for i, b in enumerate(fn.blocks):
        if i not in rb or b["cleanup"]:
            continue
        print(" bb%d:" % i)
        for s in b["st"]:
            x = (" {" + s["x"] + "}") if "x" in s else ""
            print("    %s = %s    // %d%s" % (pstr(fn, s["lhs"]), rvstr(fn, s["rv"]), s["ln"], x))
        t = b["t"]
        k = t["k"]
        x = (" {" + t["x"] + "}") if "x" in t else ""
        if k == "call":
            print("    %s = %s(%s) -> %s    // %d%s" % (pstr(fn, t["dest"]), t.get("fnargs") or opstr(fn, t.get("fnop", {"c": "?"})),
                                                   ", ".join(opstr(fn, a) for a in t["args"]),
                                                   "bb%s" % t.get("to", "!"), t["ln"], x), ("[res %s]" % t["res"]) if "res" in t else "")
        elif k == "switch":
            print("    switch %s [%s] %s else bb%d    // %d%s" % (opstr(fn, t["d"]), t["dt"],
                                                           " ".join("%s->bb%d" % (v, tg) for v, tg in t["cases"]), t["else"], t["ln"], x))
        elif k == "drop":
            print("    drop(%s) -> bb%d   // %d" % (pstr(fn, t["pl"]), t["to"], t["ln"]))
        elif k == "yield":
            print("    yield -> bb%d   // %d%s" % (t["to"], t["ln"], x))
        elif k == "assert":
            print("    assert(%s == %s, %s) -> bb%d  // %d" % (opstr(fn, t["cond"]), t["exp"], t["msg"], t["to"], t["ln"]))
        elif "to" in t:
            print("    %s -> bb%d   // %d" % (k, t["to"], t["ln"]))
        else:
            print("    %s   // %d" % (k, t["ln"]))


if __name__ == "__main__":
    cfg = sys.argv[2] if len(sys.argv) > 2 else "default"
    prog = facts.load(cfg)
    rx = re.compile(sys.argv[1])
    for f in sorted(prog.fns.values(), key=lambda f: f.id):
        if rx.search(f.id):
            dump(f)
