#!/usr/bin/env python3
"""First contact of freshly written seeds with the checks as they stand: tools/first_contact.py <outdir> [-jN] [id ...]
For every <outdir>/<Cnn_k>/patch.diff without a first_contact.json: apply to a scratch export of /repo's HEAD, run the property's quick
check, record exit code and reported keys in <outdir>/<id>/first_contact.json (kept with the seed when it is imported)."""
import json
import os
import re
import sys
from concurrent.futures import ThreadPoolExecutor

sys.path.insert(0, os.path.dirname(os.path.abspath(__file__)))
from patchrun import with_patch


def one(arg):
    out, sid = arg
    d = os.path.join(out, sid)
    fc = os.path.join(d, "first_contact.json")
    patch = os.path.join(d, "patch.rebased.diff")
    if not os.path.exists(patch):
        patch = os.path.join(d, "patch.diff")
    if os.path.exists(fc) or not os.path.isfile(patch):
        return
    prop = sid.split("_")[0]
    ok, res = with_patch(patch, [prop])
    rc, keys = res.get(prop, (None, []))
    json.dump({"seed": sid, "applied": ok, "exit": rc, "reported": keys}, open(fc, "w"), indent=1)
    print("%-8s applied=%s exit=%s %s" % (sid, ok, rc, "; ".join(k[:70] for k in keys[:3])), flush=True)


def main():
    args = sys.argv[1:]
    out = args.pop(0)
    jobs = 2
    if args and args[0].startswith("-j"):
        jobs = int(args.pop(0)[2:])
    ids = args or sorted(x for x in os.listdir(out) if re.match(r"C\d\d_\d+$", x))
    with ThreadPoolExecutor(jobs) as ex:
        list(ex.map(one, [(out, i) for i in ids]))


if __name__ == "__main__":
    main()
