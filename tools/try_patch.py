#!/usr/bin/env python3
"""usage: tools/try_patch.py <patch.diff> <Cnn> [<Cmm> ...]   apply the patch to a scratch export of /repo's HEAD, run the checks, print keys"""
import os
import sys
sys.path.insert(0, os.path.dirname(os.path.abspath(__file__)))
from patchrun import with_patch

ok, out = with_patch(os.path.abspath(sys.argv[1]), [p.upper() for p in sys.argv[2:]])
print("applied" if ok else "DID NOT APPLY")
for p, (rc, keys) in out.items():
    print(p, "exit", rc)
    for k in keys:
        print("   ", k)
