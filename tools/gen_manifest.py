#!/usr/bin/env python3
"""Regenerates /verif/MANIFEST.json from the table below (single source of truth for claims)."""
import json
import os

VERIF = os.path.dirname(os.path.dirname(os.path.abspath(__file__)))

NOTE = ("Trusted base: rustc nightly MIR construction and callee resolution, the mirfacts driver, the rule code and the "
        "frozen instance tables. The check decides the named structural clauses on every path of the functions in scope in "
        "every analysed feature configuration; it does not execute the program and does not decide the run-time behaviour "
        "(undecided sub-clauses are listed in the evidence under not_decided).")

CLAIMS = {
    "C09": dict(
        text="Decides structural clauses of C09 (necessary conditions, not the behaviour): R09.1 every Always-mode ack is Err(..) "
             "or dominated by the Ok edge of WalRotator::sync(); R09.5 every sync outcome consumes the pending acks; R09.2 no "
             "WalRotator.current_writer with possibly-unsynced appends is overwritten unless a poison flag forces the next sync() "
             "to fail (forward must-dataflow on the CFG); R09.3 sync reaches File::sync_all on the very file append writes, errors "
             "propagated; R09.4 write_durable returns only the received ack. Right level: these are pairing/ordering facts visible "
             "in the code shape on every path, which no test schedule can enumerate. R09.7 in ReplicatedShardedState::execute the Always policy reaches the reply only through an awaited write_durable of the shard's delta."
             ' R09.8 WalRotator::new starts from the maximum sequence over every listed name.',
        technique="MIR dominance + forward must-dataflow (clean-writer typestate) + who-may-write field scan + call-chain check",
        ref="DESIGN.md §3 C09"),
    "C12": dict(
        text="Decides structural clauses of C12: R12.1 object-before-pointer (put Ok-dominates manifest save), R12.2 "
             "pointer-before-delete, R12.3 atomic pointer swap (put temp -> rename, nothing in between, the live manifest key only "
             "used by get/exists/rename-destination), R12.4 a failed flush restores the taken buffer on every Err exit, R12.5 success "
             "reported only after the swap, R12.6 load/put/save failures are propagated (no fallback to a stale manifest). These are "
             "ordering facts on every path between object-store calls - exactly the crash/fault points tests cannot enumerate. R12.7 every iteration over the taken deltas reaches SegmentWriter::write_delta with its error propagated."
             ' R12.3 also requires every rename onto the manifest key to be dominated by the awaited Ok of a put of its source in the same function.',
        technique="MIR dominance over awaited Result edges in pre-lowering coroutine bodies, path search for buffer restore, who-may-use field scan",
        ref="DESIGN.md §3 C12"),
    "C08": dict(
        text="Decides structural clauses of C08: R08.1 every store to LamportClock.time has a monotone form (time+c, max(time,x)+c) "
             "and no node-clock field is overwritten wholesale; R08.2 stamps copied from a clock follow a ticking call, LwwRegister "
             "stamps are clock.tick(); R08.3 every insert of an externally produced value into ShardReplicaState.replicated_keys is "
             "dominated by LamportClock::update(clock, &value.timestamp) (covers remote deltas and the recovery arm); R08.4 recovery "
             "is wired (checkpoint then deltas, before accept); R08.5 every remote delta reaches the clock-advancing ingest on all "
             "paths. These are who-may-write and must-pass-through facts over all paths incl. the never-tested recovery arm."
             " R08.2 also requires the outer stamp of a value to be the tick taken for that write, and R08.1 that only the clock's owner replaces a clock wholesale."
             " R08.6 the checkpoint snapshot is the shards' replicated_keys handed over whole (no filter, every shard); R08.7 wherever persisted deltas are discarded the clock's high-water mark must be persisted another way (known finding: compaction's tombstone pass, witnessed); R08.8 a fresh delta reaches gossip only after its WAL write.",
        technique="who-may-write field scan over all MIR bodies, store-shape classification, dominance / must-pass-through, value provenance",
        ref="DESIGN.md §3 C08"),
    "C10": dict(
        text="Decides structural clauses of C10: R10.1 every WalEntry built from raw bytes is dominated by the length test and the "
             "CRC-equality edge over the very data it returns; the reader loop takes entries only from decode, stops at the first "
             "None and advances by the consumed size; R10.2 checksum coverage of decoded fields (known finding: timestamp); R10.3 "
             "per-file Err edges continue the loop, files sorted first; R10.4 every delete in truncate_before is guarded by "
             "not-the-active-file and by is_empty or max-over-all-entries <= T; R10.6 the decoder rejects only for truncation or "
             "checksum mismatch. Guards are facts about all paths; corruption offsets cannot be enumerated by tests.",
        technique="MIR guard/dominance analysis (edge-conditions dominating a site), value provenance through iterator chains, controlling-switch classification",
        ref="DESIGN.md §3 C10"),
    "C04": dict(
        text="Decides structural clauses of C04 on the pre-lowering coroutine MIR of the connection handler: R04.1 frames consumed "
             "by a batch collector reach the pipeline and its encode loop on every path unless the batch is empty; R04.2 after every "
             "consume site each path to return encodes exactly one reply, NeedMoreData consumes nothing; R04.3 discarded input is "
             "followed by an error reply; R04.4 every reply-producing site reaches write_all or the is_empty edge before the next "
             "read; R04.6 recogniser offsets equal the matched literal's length. Known findings: HEADER_LEN 14 vs 13 (x4) and the "
             "below-threshold drop (x2, keyed by whether the recogniser is live). Does not decide reply contents. R04.4 also requires that bytes handed to the socket are cleared from write_buffer before it is reused."
             ' R04.7 the decoder never rejects a frame before it is complete (a rejection that a longer prefix would withdraw breaks segmentation independence).'
             ' R04.8 from the append of freshly read bytes every path to the next read passes the decoder.',
        technique="CFG path search with exempt edges (consume=>reply pairing), dominance, constant/literal agreement from evaluated MIR constants",
        ref="DESIGN.md §3 C04"),
    "C17": dict(
        text="Decides structural clauses of C17 by an effect analysis of the CommandExecutor handlers: R17.1 every variant that "
             "Command::is_read_only can classify read-only dispatches only to handlers without a visible write site in their "
             "transitive closure; R17.2 in every handler (and inline dispatch arm) no error reply is reachable from a write site "
             "(fallible data-structure methods that validate before mutating are summarised); R17.4 ACL-denied/parse-error paths "
             "never reach state.execute. Does not decide scripts nor value-correlated error->write orders. R17.5 a write reachable after an error reply was chosen must be excluded by the value variant the error arm rules out."
             ' R17.6 execute_exec constructs no error reply of its own at or after the start of the replay.',
        technique="MIR effect analysis (write-site classification by receiver provenance, transitive writer set, CFG reachability write->error), enum dispatch tables",
        ref="DESIGN.md §3 C17"),
    "C01": dict(
        text="Decides the structural sentences of C01 (expiry visibility, map consistency, empty collections): R01.1 deadline "
             "comparisons are `deadline <= now`; R01.2 every keyed read of data is dominated by is_expired/get_value on the same "
             "key, whole-map reads filter by is_expired; R01.3 data.remove pairs with expirations.remove on all paths; R01.4 "
             "whole-value inserts update the TTL or are in the frozen keep-TTL table behind a purge; R01.5 shrinking a stored "
             "collection is followed by an emptiness test + removal; R01.6 a create-if-absent is followed on every path by an add "
             "(per loop iteration), a removal, or the wrong-type exit; R01.7 seconds/milliseconds sibling commands have equal "
             "decision skeletons. Does not decide equality of replies with Redis. R01.8 a conditional command refuses (0/nil decided by a keyspace test) before any write."
             ' R01.9 index windows (LTRIM/LRANGE/GETRANGE-style start/stop) are clamped the same way by the range reader and the trimming writer; R01.10 a client-supplied integer is negated only with checked_neg and an error on overflow.'
             ' R01.11 inside a loop that mutates a stored collection no branch is decided by an emptiness/size/membership answer obtained from that collection before the loop.',
        technique="MIR provenance/dominance pairing rules over all executor handlers, path search with exempt edges, sibling CFG-skeleton comparison",
        ref="DESIGN.md §3 C01"),
    "C03": dict(
        text="Decides structural clauses of C03: R03.1 all key->shard functions use the same Hash impl/hasher and reduce modulo the "
             "shard count (checked in every feature configuration); R03.2 each of the 13 `shards[..]` index sites derives from "
             "hash_key*(served key), a direct enumerate() of the per-shard bucket vector, a bucket-map key produced by hash_key, or "
             "the key-less constant-0 fallback; R03.3 every multi-key variant (derived from Command::get_keys) has a partitioning arm "
             "(8 known findings); R03.4 keyspace-wide commands fan out (RANDOMKEY known finding); R03.6 generic dispatch sends only "
             "timed messages with the virtual time read at entry. Does not decide reply equality. R03.1 also requires every routing function to hash the whole key (or the same transformation); R03.4 requires the fan-out on every path through a keyspace-wide arm."
             ' R03.2 also requires the per-shard bucket vector to have one slot per shard (num_shards), and R03.7 requires the script cache used by EVAL/EVALSHA to be the shared one whenever it exists.',
        technique="resolved generic-argument comparison of Hash::hash callees, index provenance analysis, enum dispatch tables derived from MIR",
        ref="DESIGN.md §3 C03"),
    "C05": dict(
        text="Decides structural clauses of C05 on the connection handler's coroutine MIR: R05.1 every executing call is behind "
             "!in_transaction or in the EXEC arm; R05.2 EXEC/DISCARD reset all four state fields on every path; R05.3 the replay loop "
             "pushes exactly one result per queued command with no early exit; R05.4 the WATCH observer must be type-total (known "
             "finding: GET collapses non-strings); R05.5 control arms exist in both states; R05.6 WATCH only appends snapshots; R05.7 "
             "queue-time parse errors always set the abort flag. Does not decide isolation against other connections. The same clauses are decided for the executor-level twin (CommandExecutor::execute queue guard, execute_exec/discard resets, replay chain, abort before replay, execute_watch append-only).",
        technique="dominance by state-test edges, path search with exempt edges per enum-dispatch arm, who-may-mutate scan of the snapshot list",
        ref="DESIGN.md §3 C05"),
    "C15": dict(
        text="Decides the totality/boundedness clauses of C15 by a taint analysis of wire-derived integers (str::parse, "
             "parse_usize_fast) in both RESP decoders and the fast-path recognisers: R15.1 signed lengths are compared with zero "
             "before a sign-losing cast; R15.2 allocations sized by a tainted value are clamped to / bounded by the input length; "
             "R15.3 no unchecked +/* on an unbounded tainted value; R15.4 slice ranges built from tainted values are dominated by a "
             "comparison against the input length; R15.5 Incomplete-sentinel discipline incl. a completeness guard that covers "
             "payload+CRLF; R15.6 decimal scratch buffers hold i64::MIN. Does not decide prefix-stability or round-trips by value. R15.7 a hand-written signed decimal parser does not negate an accumulated magnitude (i64::MIN).  Local integer-parsing helpers count as taint sources."
             ' R15.8 reply encoders never write a constant that is conditional on a prefix/substring test of the payload (payload transparency).'
             " R15.5 also requires a bulk string with a payload to be returned only behind the completeness test; R15.10 every encoder opens each RespValue variant with that variant's marker on every path.",
        technique="intra-procedural forward taint over MIR with root tracking and guard-based sanitisation (dominating comparisons)",
        ref="DESIGN.md §3 C15"),
    "C13": dict(
        text="Decides structural clauses of C13 on Compactor::compact: R13.1 the per-key fold must combine with ReplicatedValue::merge "
             "(known finding: keeps newest-by-time); R13.2 no comparison mixes wall-clock and Lamport time (known finding); R13.4 "
             "manifest read-modify-write must be re-validated before save (4 known findings incl. flush); R13.5 a failed fetch or decode "
             "never schedules a segment for removal, except a fetch that failed with ErrorKind::NotFound (both former findings are fixed); R13.6 manifest entries are dropped by membership in the id "
             "list derived from the folded segments; R13.7 tombstones are judged on the folded map only. Does not decide state equality. R13.1 also requires that the fold replaces an entry only behind `key absent` or a stamp comparison; R13.8 every folded delta is written; R13.9 the selection is an oldest-first prefix of the sorted candidates."
             ' R13.10 the tombstone TTL is the whole configured duration (as_millis/as_secs, never a sub-second component).'
             ' R13.11 (shared with C12 R12.1/R12.6) the segment a compaction registers is the object it just wrote successfully, and every manifest writer reloads first and gives up when the reload fails.',
        technique="MIR call/provenance analysis across closure captures, wall-clock vs logical-time provenance typing, path search from failure edges",
        ref="DESIGN.md §3 C13"),
    "C11": dict(
        text="Decides the completeness clauses of C11: R11.1 no scalar high-water filter on the multi-clock WAL stream "
             "(recover_entries_after(0)); recover_entries_after examines every entry and filters per entry with >=; R11.2 the segment "
             "list is manifest.segments -> [filter id > checkpoint id, only with a checkpoint] -> Vec, sorted in place - any keyed or "
             "truncating step is reported; load failures and decode errors propagate; validate precedes deltas; R11.3 the plain-insert "
             "recovery message has a single caller and deltas go through the merging ingest; R11.5 WAL deltas are appended on every "
             "path. Does not decide equality with the ground-truth merge. R11.2 also fixes the checkpoint filter to exactly `id > checkpoint id` and requires the loaded deltas of every iteration to be appended; R11.3 requires the recovered state to be handed over as received at both hops."
             ' R11.6 the WAL-file loop visits every file and the recovered state is stored on every path of the ApplyRecoveredState arm.'
             " R11.2 also requires the read of the manifest's checkpoint (get, open, validate, load) to propagate its errors.",
        technique="value-provenance chain analysis over iterator adaptors (incl. helpers), error-propagation analysis on awaited results, who-may-call",
        ref="DESIGN.md §3 C11"),
    "C06": dict(
        text="Decides the glue clauses of C06 between executor and replication state: R06.1 recorded deltas must come from the "
             "executor's post-state (3 known findings: SET x2, HSET); R06.2 the reply of a re-materialising command that can fail (decided from its handler's error sites and the "
             "options its constructor fixes) must be inspected (5 known findings: HSET/HDEL/SETEX); R06.3 remote ingest = clock update + merge when a local value exists; R06.5 after the merge, executor updates "
             "are decided from the merged value only (no stale-delta shortcut); R06.6 stamps are never ordered by .time alone. Does not "
             "decide convergence over delivery schedules. R06.3 also requires the ingest to store on every path; R06.7 every local delta reaches queue_deltas when replication is on and every iteration over a received batch forwards its delta to the owner shard."
             ' R06.8 the merge functions applied to delivered updates carry the C07 lattice certificate (shared; one known finding: type-mismatch selection is not associative, witnessed as a divergence of two replicas). R06.5 also follows conditions into combinator closures and rejects decisions taken on a pre-merge snapshot.',
        technique="MIR value provenance (post-state vs command operand), unused-result detection, branch-condition root analysis, comparison-shape scan",
        ref="DESIGN.md §3 C06"),
    "C18": dict(
        text="Decides structural clauses of C18: R18.1 per-bucket digest lists filled from a HashMap iteration are sorted (by key and "
             "value hash) before the sequential fold; R18.5 key_hash and value_hash of each digest are fed to one sequential hasher, "
             "never combined with xor/add/or; R18.2 digest coverage of ReplicatedValue fields (known finding: only stamp + LWW payload); "
             "R18.3 a sync applies A->B and B->A through apply_remote_deltas after both selections; R18.4 digest construction and "
             "selection use KeyDigest::bucket with the configured depth; R18.6 selection filters on bucket membership only. Does not "
             "decide termination under the per-round limit. R18.1 also applies rule H to every digest-computing function; R18.2 requires the digest to keep covering stamp and LWW payload; R18.3 forbids narrowing the selection before it is applied."
             ' R18.7 the per-round limit is applied after the divergent-bucket filter, never to the scan.'
             ' R18.8 a bounded selection (`take(max_keys_per_sync)` over the key map) needs a resume point or a peer-dependent filter in front of it (2 known findings with a witness: the sync never completes when the differing keys lie behind the cut).',
        technique="hash-order-leak rule (unordered iteration -> order-sensitive sink needs a sort), operator-shape scan, field-coverage set comparison, provenance of sync endpoints",
        ref="DESIGN.md §3 C18"),
    "C19": dict(
        text="Decides the determinism/canonical-form clauses of C19: R19.1 ring hashes use only DefaultHasher::new + Hash::hash on "
             "str/integers + finish; R19.2 every growth of HashRing.ring is followed by a sort on all paths, positions come from "
             "hash_virtual_node; R19.3 get_replicas_with_rf touches physical_nodes only via len/contains and returns only the walk "
             "vector built from ring entries; R19.4 n = min(rf, len), distinctness via the seen-set, loop bound; R19.5 route_selective "
             "= get_gossip_targets(key, my_replica) with a per-target address skip that continues with the next target; "
             "get_gossip_targets filters only != sender; queue_deltas emits one message per routing entry. Does not decide minimal "
             "disruption."
             ' R19.5 also requires the per-target loop to walk the whole owner list (no take/skip between get_gossip_targets and the loop).',
        technique="callee allow-list over resolved MIR calls, must-follow pairing (grow => sort), who-may-use field scan, loop-structure path analysis",
        ref="DESIGN.md §3 C19"),
    "C20": dict(
        text="Decides the forbidden-effect and hash-order clauses of C20 over everything reachable (resolved calls, closures) from "
             "the ~630 public entry points of the simulator/DST modules: R20.1 no wall clock, OS randomness, pid, env, thread, file or "
             "socket call and no production implementation of an injected interface is reachable, except five frozen exceptions with "
             "a reason and a checked side condition (e.g. should_flush not reachable, the command never constructed by a harness); "
             "R20.2 every RNG is seed_from_u64(parameter); R20.3 rule H: no HashMap/HashSet iteration feeds an unsorted Vec, a shared "
             "hasher, a first-element pick or a per-element RNG draw (8 frozen, reasoned exceptions); R20.4 the event queue is a "
             "BinaryHeap ordered by virtual time. The quick tier analyses the default and the simulation-feature configuration. Does not "
             "compare traces across processes. R20.5 fault decisions compare the RNG draw with FaultConfig::get on the current config (or the probability parameter) only."
             ' R20.6 harness-reachable code uses no run-time-mutable static and no thread-local other than the BUGGIFY context; process-keyed hashers (AHasher::default, RandomState) are forbidden as sources of values in harness-reachable code.'
             ' Conditional hash-order exceptions also require that no harness calls the excepted function directly, and a hash-ordered result accepted as unobserved is re-examined at every harness-reachable caller for a per-element seeded-RNG draw.',
        technique="call-graph reachability over resolved callees with path witnesses, dataflow from unordered iterations to order-sensitive sinks (rule H), conditional exception table",
        ref="DESIGN.md §3 C20"),
    "C02": dict(
        text="Decides the structural preconditions of C02: R02.1 a CommandExecutor is never behind Arc/Mutex/RwLock/RefCell-owned "
             "wrappers, the actor's executor field is only projected inside the actor impl, each constructed actor is moved into one "
             "tokio::spawn(run); R02.2 the actor run loops await only rx.recv(); R02.3 routing agreement (shared with C03); R02.4 a "
             "pooled response slot is released only after its reply was awaited or the send failed, and no release-on-Drop owner holds "
             "it across the await; R02.5 positional gathers use submission order. Does not decide the linearizability verdict."
             ' R02.6 an arm of ShardedActorState::execute for a command that is neither multi-key nor keyspace-wide sends at most one shard message on any path; R02.7 the batched pipelines queue every key of the batch and fill reply slots only from shard responses.',
        technique="type scan over ADT/local types, who-may-access field scan, await-site enumeration in coroutine MIR, dominance by await completion / failed-send edges",
        ref="DESIGN.md §3 C02"),
    "C14": dict(
        text="Decides the layout-agreement and coverage clauses of C14: R14.1 for SegmentHeader, SegmentFooter, CheckpointHeader, "
             "CheckpointFooter and WalEntry the writer's derived field table (offset, width, endianness) equals the reader's decoded "
             "byte ranges field by field; R14.2 size constants cover the written bytes, readers stay within them, validate() compares "
             "magic, version and checksum; R14.3 every decoded header field is fed to that header's CRC; R14.4 decode is dominated by a "
             "successful validate() at every consumer; R14.5 serde pairs use one format on one type, SDS writes/reads raw bytes in "
             "every serializer; R14.6 the WAL reader stops at the first undecodable entry. Does not decide value round-trips."
             ' R14.7 the WAL entry decoder does not reject intact entries by size.'
             ' R14.8 every derived Serialize/Deserialize of the data model writes/reads as many fields as the struct declares; R14.9 the checkpoint encoder passes the state map it was given unchanged.',
        technique="codec layout extraction from MIR (ordered writer calls vs reader constant ranges), checksum field-coverage sets, dominance by validate() Ok edges",
        engine="mirfacts+rules",
        ref="DESIGN.md §3 C14"),
    "C16": dict(
        text="Decides the sibling-agreement clauses of C16 on the syntax trees: R16.1 Command::from_resp and from_resp_zero_copy have the "
             "same (nested) command-name arms and equal per-arm normal forms under a fixed normalisation (block flattening, single-use "
             "let inlining, renaming table); R16.2 the six extract_* helper pairs are equal modulo the renaming; R16.3 every Lua "
             "translator arm exists in the RESP parser, builds the same variant, normalises keyword case at the same argument positions "
             "and knows only RESP keywords (4 known findings: missing options); R16.4 RESP->Lua conversion covers all RespValue "
             "variants. Does not decide script effect equality. R16.5 the Lua translator builds SDS operands from raw bytes."
             ' R16.1 also compares what surrounds the arm tables (how the command name is extracted and case-folded); R16.3 also requires the same command-name folding on the script path and every reject-only call of a client arm (`Self::check_x(..)?;`) to be present in the script arm.'
             ' R16.3 also requires each option keyword to assign the same option variables on the client and the script path.',
        technique="syn AST normal-form comparison of sibling implementations (engine/synq), arm-summary comparison, enum-dispatch exhaustiveness from MIR",
        engine="synq+rules",
        ref="DESIGN.md §3 C16"),
    "C07": dict(
        text="Decides C07 through a merge-shape certificate: each of the ten merge functions (LamportClock, LwwRegister, VectorClock, "
             "GCounter, PNCounter, GSet, ORSet, CrdtValue::try_merge / merge_with_timestamps, ReplicatedValue::merge) is matched "
             "exactly against the lattice idioms enumerated from the repository and turned into a term over {max, union, "
             "pointwise(max), argmax_by(total order), nested, optlift, select}; any extra statement, guard or asymmetric argument is "
             "'shape not certified' (fail closed). R07.1 symmetry, R07.2 idempotent operators, R07.3 associativity hazards (known "
             "finding: type-mismatch select by outer stamps), R07.4 lexicographic total order of stamps, R07.5 strict `other > self` "
             "everywhere and no ordering by .time alone (MIR). The certificate quantifies over all field values.",
        technique="syntax-tree pattern matching into a lattice-term language (engine/synq), algebraic properties read off the term; MIR comparison-shape scan",
        engine="synq+rules",
        ref="DESIGN.md §3 C07"),
}

PENDING_REASON = "check not built yet (build in progress; DESIGN.md §3 lists the planned structural clauses)"


# clauses added in the fifth seeded round (appended to the claim texts above)
ROUND5 = {
    "C01": "R01.9 also: the rank windows of lists and sorted sets (range/trim/range/rev_range) agree on every clamp bound they share. "
           "R01.12 the `*` arm of the glob matcher loops over every remaining offset and only tests its recursive attempts.",
    "C02": "R02.4 also covers a slot cloned out of a field of a release-on-Drop owner. R02.8 slot hand-off protocol: send stores before it "
           "wakes under one lock, poll checks and parks in one critical section and returns only the taken value, reset empties the value, "
           "only fresh or reset slots are pooled.",
    "C03": "R03.8 (= C02 R02.7) the batched pipelines queue every key and fill reply slots from that key's shard response.",
    "C04": "R04.9 a buffer returned to a buffer pool is fresh or cleared (or every pop clears). R04.10 (= C15 R15.11) constant-offset accesses "
           "into the input are covered by a dominating length test. R04.11 (= C02 R02.7) batched pipelines keep one reply per position.",
    "C05": "R05.8 the EXEC arm re-reads watched keys with the command the WATCH arm used for the snapshot.",
    "C08": "R08.1 also: no `*self = ..` / mem::replace/swap/take of a whole value that holds a node clock.",
    "C09": "R09.9 (= C10 R10.1/R10.3) the reader yields only validated entries, a damaged or unreadable file does not end recovery.",
    "C10": "R10.7 constant-offset accesses in wal.rs are covered by a dominating length test (torn file => error, not panic). R10.8 no "
           "function of wal.rs reorders WalEntry/ReplicationDelta sequences.",
    "C11": "R11.7 (= C06 R06.3 / C08 R08.5) the ingest recovery goes through stores on every path. R11.8 (= C10 R10.1/R10.3) the WAL part "
           "of recovery yields every intact entry.",
    "C13": "R13.12 (= C08 R08.2) every mutator of ReplicatedValue advances the outer stamp compaction orders by.",
    "C14": "R14.10 constant-offset accesses in the WAL/segment/checkpoint decoders are covered by a dominating length test. R14.11 no serde "
           "impl of a replication/streaming type uses serde's buffered Content form or deserialize_any.",
    "C15": "R15.11 every constant-offset access into decoder input (RESP decoders, GET/SET recognisers) is dominated by length tests that "
           "prove the slice long enough, with caller-established preconditions for private functions.",
    "C16": "R16.6 the argument vector handed to the Lua command translator is built inside the callback invocation, never captured state.",
    "C18": "R18.9 (= C06 R06.3) the ingest used by both directions of a sync merges and stores on every path. R18.10 every digest handed out "
           "is computed by StateDigest::from_state from the key map passed in; the manager keeps no digest of its own.",
    "C19": "R19.6 virtual-node positions are hashed from node id and index as two separate integer feeds.",
}



# clauses added in the sixth seeded round and the proactive pass before it (appended to the claim texts above)
ROUND6 = {
    "C01": "R01.13 the other-type edge of every keyed type test answers WRONGTYPE on every path. R01.14 a sorted-set score is replaced unless it "
           "is exactly the stored one. R01.15 the skiplist comparator orders scores by f64's partial order in argument order and ties by member "
           "bytes (no total_cmp/to_bits). R01.16 in the LMOVE handler removals depend on wherefrom and insertions on whereto.",
    "C02": "R02.9 reply futures in the request path are polled directly (no timeout/select/abortable that abandons a queued command). R02.10 no "
           "thread-local or mutable static is used under src/redis/executor, src/redis/data or the command table.",
    "C03": "R03.9 the executor's per-shard ServerConfig is touched only by the CONFIG handlers.",
    "C04": "R04.13 (= C15 R15.13) an Incomplete answer is decided by a missing terminator or an exact position, never by a product/estimate.",
    "C05": "R05.10 PartialEq of Value and of every stored type is derived or field-by-field `==` (no tolerance, no projection).",
    "C06": "R06.10 every delta a ShardReplicaState emits carries (a clone of) the very value it stores in replicated_keys (an edited copy is rejected). "
           "R06.11 (= C08 R08.2/R08.3) stamps follow the tick taken for the write; remote inserts are dominated by the clock update.",
    "C07": "R07.6 a LamportClock's replica id is written only at construction (no field store, no whole-value store through &mut).",
    "C08": "R08.10 (= C11 R11.3) recovered checkpoint and deltas are handed to the shard actors as recovered. R08.11 create_checkpoint records "
           "exactly the last_segment_id its caller passed in with the snapshot.",
    "C09": "R09.11 (= C10 R10.10) the WAL file-name recogniser accepts every name the writer can produce.",
    "C10": "R10.10 the WAL file-name recogniser rejects only a missing prefix/suffix or unparsable digits and uses the writer's prefix, suffix and radix.",
    "C11": "R11.11 (= R08.11), R11.12 (= R10.10), R11.13 (= C14 R14.13) checkpoint decoders return the decoded state untouched, R11.14 (= C12 R12.11) "
           "Manifest.next_segment_id only grows.",
    "C12": "R12.9 (= C13 R13.6) compaction unlists by membership in what it folded. R12.10 (= C13 R13.1) the per-key fold overwrites only behind "
           "`absent` or `incoming stamp > stored stamp`. R12.11 every store to Manifest.next_segment_id is an increment of the old counter or the guarded raise.",
    "C13": "R13.16 (= C12 R12.11) the segment id counter only grows. R13.14 (= C06 R06.10) deltas carry the full value. R13.15 (= C12 R12.3) a manifest save reports success only after its own put and rename succeeded.",
    "C14": "R14.13 the checkpoint decoders return the deserialised state untouched. R14.14 the segment reader and its iterator decode the record block "
           "as read/decompressed (no truncate/resize by an unchecksummed size). R14.15 no hand-written serde impl besides SDS.",
    "C15": "R15.13 an Incomplete answer is decided by a missing terminator or an exact position. R15.14 the terminator scans resume at candidate+1. "
           "R15.5 also: exactly one answer (the sentinel) on the no-terminator edge.",
    "C17": "R17.7 the shard router never builds and sends a mutating command and then sends another command whose failure it reports.",
    "C18": "R18.11 the receiving side of a sync merges every delivered delta (every iteration passes apply_remote_delta; whole batch). "
           "R18.12 (= the C07 certificate R07.0-R07.2) the merge functions are certified lattice joins.",
    "C19": "R19.7 GossipRouter constructors neither read the ring nor prune the address map. R19.8 HashRing.replication_factor is stored only by the constructor.",
}
for _pid, _extra in ROUND6.items():
    CLAIMS[_pid]["text"] = CLAIMS[_pid]["text"].rstrip() + " " + _extra



# clauses added in the seventh seeded round
ROUND7 = {
    "C02": "R02.11 (= C04 R04.9) a buffer returned to a buffer pool is fresh or cleared.",
    "C03": "R03.4 also: the shard walk of a keyspace-wide arm passes no narrowing adaptor (filter/take/skip ..).",
    "C04": "R04.3 also: a wholesale replacement or shortening of the input buffer in the read loop counts as a discard.",
    "C05": "R05.7 also: every path of the in-transaction queueing arm pushes to the queue or marks the transaction failed. R05.11 (= C16 R16.7) the executor's EXEC leaves queuing mode before it replays.",
    "C06": "R06.11 also covers R08.12 (register mutators tick on every path; a register built next to the node clock is stamped with tick()).",
    "C07": "R07.7 (= C08 R08.12) every stamped mutation takes a fresh tick.",
    "C08": "R08.12 register mutators tick on every path and with_value stamps come from tick(). R08.13 (= C13 R13.1) the compaction fold replaces an entry only for a greater stamp. R08.14 (= C07 R07.6) a clock's replica id is written only at construction.",
    "C09": "R09.12 (= C10 R10.11) the WAL reader does not branch on the content of a decoded entry. R09.13 (= C10 R10.12) a WalWriter is told the sequence its file was named with.",
    "C10": "R10.11 no branch of WalReader::entries depends on the content of a decoded entry. R10.12 a WalWriter is told the sequence its file was named with.",
    "C13": "R13.17 a key handed to ObjectStore::delete in compaction code never derives from a store listing.",
    "C14": "R14.8 also: derived Serialize writes every field unconditionally. R14.16 (= C10 R10.11).",
    "C16": "R16.7 in the executor's EXEC the store in_transaction = false dominates the replay of the queue.",
    "C17": "R17.8 writes after a reply borrowed from a sibling handler are behind a test that excludes its Error variant.",
    "C11": "R11.15 (= C10 R10.11) the WAL reader does not branch on the content of a decoded entry.",
    "C12": "R12.12 (= C13 R13.17) compaction deletes only keys of segments it folded.",
    "C20": "R20.1's exception for Compactor::new carries a checked side condition (wall-clock values in compact are only compared with Lamport times).",
}
for _pid, _extra in ROUND7.items():
    CLAIMS[_pid]["text"] = CLAIMS[_pid]["text"].rstrip() + " " + _extra



# clauses added in the eighth seeded round
ROUND8 = {
    "C01": "R01.2 also treats data.entry(k) as a keyed read.",
    "C04": "R04.10 also: a text slice by a non-constant byte offset is dominated by is_char_boundary.",
    "C05": "R05.12 the executor's watched_keys / queued_commands / in_transaction are touched only by MULTI/EXEC/DISCARD/WATCH/UNWATCH and execute()'s queueing gate.",
    "C11": "R11.16 every ManifestManager::new in the streaming layer receives the configured prefix untransformed.",
    "C12": "R12.13 (= C14 R14.17) no read-side size limit on segment records. R12.8 also: write_delta only appends to the record buffer.",
    "C13": "R13.18 (= C11 R11.2) recovery hands over every decoded delta of every listed segment.",
    "C14": "R14.17 the segment record iterator decodes with the writer's unbounded configuration. R14.12 also: write_delta is append-only.",
    "C15": "R15.15 the Array arm of every RespValue encoder recurses per element (no work list).",
    "C19": "R19.9 GossipState::drain_outbound hands over the queued messages unedited.",
    "C20": "R20.3's exception for get_keys_in_buckets requires the configured default max_keys_per_sync to be at least 1000.",
}
for _pid, _extra in ROUND8.items():
    CLAIMS[_pid]["text"] = CLAIMS[_pid]["text"].rstrip() + " " + _extra


def main():
    for _pid, _extra in ROUND5.items():
        CLAIMS[_pid]["text"] = CLAIMS[_pid]["text"].rstrip() + " " + _extra
    props = [json.loads(l) for l in open(os.path.join(VERIF, "properties.jsonl"))]
    checks = []
    na = []
    for p in props:
        pid = p["id"]
        if pid in CLAIMS:
            c = CLAIMS[pid]
            checks.append({
                "property_id": pid,
                "quick_cmd": "./check %s --tier quick" % pid,
                "thorough_cmd": "./check %s --tier thorough" % pid,
                "evidence_file": "evidence/%s.json" % pid,
                "replay_cmd_template": "./check %s --explain {path}" % pid,
                "engine": c.get("engine", "mirfacts+rules"),
                "level_claimed": {"category": "other", "text": c["text"], "design_ref": c["ref"]},
                "level_note": NOTE,
                "technique": "static analysis: " + c["technique"],
            })
        else:
            na.append({"property_id": pid, "reason": NA.get(pid, PENDING_REASON)})
    m = {
        "version": 1,
        "setup_cmd": "./setup.sh",
        "hooks": {
            "guard": "none (static analysis reads the unmodified tree; no source hooks)",
            "enable": "n/a: checks run `cargo +nightly check` of /repo with RUSTC_WORKSPACE_WRAPPER=engine/mirfacts (rustc_private driver)",
            "baseline_off_cmd": "cd /repo && RUSTC_WRAPPER= cargo nextest run --workspace --no-fail-fast --tool-config-file "
                                "pb:/w/lib/nextest.toml --profile pb --test-threads 8 --offline",
            "source_commits": [],
            "add_only": True,
        },
        "engines": [
            {"name": "mirfacts", "path": "engine/mirfacts", "kind_free_text": "rustc_private driver (nightly): pre-borrowck MIR facts, "
             "resolved callees, CFG, field-named places, ADT tables as JSON", "serves_properties": sorted(CLAIMS)},
            {"name": "synq", "path": "engine/synq", "kind_free_text": "syn-2 based AST dumper (stable toolchain): JSON syntax trees of functions "
             "for sibling normal forms and merge-shape certificates", "serves_properties": ["C07", "C16"]},
            {"name": "rules", "path": "rules", "kind_free_text": "python3 stdlib rule library: dominators, must-dataflow, provenance, "
             "call graph, per-property rule modules", "serves_properties": sorted(CLAIMS)},
        ],
        "checks": checks,
        "not_applicable": na,
        "notes": "Static-analysis family only. Known findings: known_findings.jsonl. Seeded changes: seeded/. See DESIGN.md.",
    }
    with open(os.path.join(VERIF, "MANIFEST.json"), "w") as f:
        json.dump(m, f, indent=1)
    print("claimed:", sorted(CLAIMS), "not_applicable:", [x["property_id"] for x in na])


NA = {}

if __name__ == "__main__":
    main()
