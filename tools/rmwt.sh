#!/bin/bash
# usage: tools/rmwt.sh <name>...  -> remove scratch worktrees with their build output
for n in "$@"; do git -C /repo worktree remove --force /tmp/wt/$n 2>/dev/null || rm -rf /tmp/wt/$n; done
git -C /repo worktree prune
