#!/bin/bash
# usage: tools/verify_wave.sh <outdir> <tag> <jobs> id...   (worktree name = <tag>_<id>); each worktree (with its build output) is removed
# as soon as its seed is verified - a built worktree is ~6 GB
out=$1; tag=$2; jobs=$3; shift 3
printf '%s\n' "$@" | xargs -P $jobs -I{} sh -c "/verif/tools/verify_seed.sh $out {} ${tag}_{} > $out/{}/verify.log 2>&1; /verif/tools/rmwt.sh ${tag}_{}; echo verified {}"
