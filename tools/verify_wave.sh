#!/bin/bash
# usage: tools/verify_wave.sh <outdir> <tag> <jobs> id...   (worktree name = <tag>_<id>)
out=$1; tag=$2; jobs=$3; shift 3
printf '%s\n' "$@" | xargs -P $jobs -I{} sh -c "/verif/tools/verify_seed.sh $out {} ${tag}_{} > $out/{}/verify.log 2>&1; echo verified {}"
