#!/usr/bin/env python3
"""Apply every behaviour-preserving refactoring under /verif/refactors/<id>/ to a scratch export of /repo's HEAD, run all 20 quick
checks against it (--repo), and remove the scratch copy.  These are *negative* examples: every check must stay silent (exit 0).
Writes refactors/<id>/result.json.  Usage: tools/run_refactors.py [-jN] [id ...]"""
import json
import os
import sys
from concurrent.futures import ThreadPoolExecutor

sys.path.insert(0, os.path.dirname(os.path.abspath(__file__)))
from patchrun import VERIF, with_patch

PROPS = ["C%02d" % i for i in range(1, 21)]


def one(rid):
    d = os.path.join(VERIF, "refactors", rid)
    patch = os.path.join(d, "patch.diff")
    if not os.path.isfile(patch):
        return None
    ok, out = with_patch(patch, PROPS)
    res = {"id": rid, "applied": ok, "alarms": {p: v[1] or ["exit %d" % v[0]] for p, v in out.items() if v[0] != 0}}
    json.dump(res, open(os.path.join(d, "result.json"), "w"), indent=1)
    print("%-6s applied=%s alarms=%s" % (rid, ok, res["alarms"] or "none"), flush=True)
    return res


def main():
    args = sys.argv[1:]
    jobs = 3
    if args and args[0].startswith("-j"):
        jobs = int(args.pop(0)[2:])
    ids = args or sorted(os.listdir(os.path.join(VERIF, "refactors")))
    with ThreadPoolExecutor(jobs) as ex:
        rs = [r for r in ex.map(one, ids) if r]
    print("false alarms on %d (refactoring, property) pairs; not applied: %s" % (sum(len(r["alarms"]) for r in rs), [r["id"] for r in rs if not r["applied"]]))
    return 0


if __name__ == "__main__":
    sys.exit(main())
