#!/usr/bin/env python3
"""Apply every behaviour-preserving refactoring under /verif/refactors/<id>/ to /repo (working tree only), run all 20 quick checks,
and undo it.  These are *negative* examples: every check must stay silent (exit 0).  Writes refactors/<id>/result.json.
Usage: tools/run_refactors.py [id ...]"""
import json
import os
import re
import subprocess
import sys

VERIF = os.path.dirname(os.path.dirname(os.path.abspath(__file__)))
REPO = "/repo"
PROPS = ["C%02d" % i for i in range(1, 21)]


def sh(cmd, cwd=None):
    return subprocess.run(cmd, cwd=cwd, shell=True, stdout=subprocess.PIPE, stderr=subprocess.STDOUT, text=True)


def main():
    ids = sys.argv[1:] or sorted(os.listdir(os.path.join(VERIF, "refactors")))
    if sh("git status --porcelain --untracked-files=no", REPO).stdout.strip():
        print("refusing: /repo has uncommitted changes")
        return 2
    alarms = 0
    for rid in ids:
        d = os.path.join(VERIF, "refactors", rid)
        patch = os.path.join(d, "patch.diff")
        if not os.path.isfile(patch):
            continue
        ok = sh("git apply --check %s" % patch, REPO).returncode == 0 and sh("git apply %s" % patch, REPO).returncode == 0
        res = {"id": rid, "applied": ok, "alarms": {}}
        if ok:
            for p in PROPS:
                c = sh("./check %s --tier quick" % p, VERIF)
                if c.returncode != 0:
                    res["alarms"][p] = [m.group(1)[:160] for m in re.finditer(r"^  ((?:R|BUILD|ANCHOR|INTERNAL|SELFTEST)[\w.\-]*:.*?): ", c.stdout, flags=re.M)]
            sh("git checkout -- .", REPO)
            if sh("git status --porcelain --untracked-files=no", REPO).stdout.strip():
                print("!! could not undo", rid)
                return 3
        json.dump(res, open(os.path.join(d, "result.json"), "w"), indent=1)
        alarms += len(res["alarms"])
        print("%-6s applied=%s alarms=%s" % (rid, ok, res["alarms"] or "none"))
    print("false alarms on %d (refactoring, property) pairs" % alarms)
    return 0


if __name__ == "__main__":
    sys.exit(main())
