#!/usr/bin/env python3
"""Import verified seeded changes from a scratch out directory into /verif/seeded/<prop>_<k+offset>/.
usage: tools/import_seeds.py /tmp/wt/out2 2
A seed is imported only if my own verification record (verify_result.txt written by the scratch verify script) shows:
build ok, 691 tests passed with the change, demo fails with the change, demo passes without it."""
import json
import os
import re
import shutil
import sys

VERIF = os.path.dirname(os.path.dirname(os.path.abspath(__file__)))


def main():
    src, off = sys.argv[1], int(sys.argv[2])
    rnd = sys.argv[3] if len(sys.argv) > 3 else "fifth"
    for name in sorted(os.listdir(src)):
        d = os.path.join(src, name)
        m = re.match(r"(C\d\d)_(\d+)$", name)
        if not m or not os.path.isfile(os.path.join(d, "meta.json")):
            continue
        vr = os.path.join(d, "verify_result.txt")
        if not os.path.exists(vr):
            print(name, "not verified yet")
            continue
        lines = [l.rstrip()[:300] for l in open(vr) if l.strip()]
        ok = any("691 passed" in l for l in lines if l.startswith("suite_with_patch")) and \
            any(l.startswith("demo_with_patch_exit: 101") or (l.startswith("demo_with_patch_exit:") and not l.startswith("demo_with_patch_exit: 0")) for l in lines) and \
            any(l.startswith("demo_without_patch_exit: 0") for l in lines) and any("Finished" in l for l in lines if l.startswith("build_with_patch"))
        if not ok:
            print(name, "REJECTED by my verification:", lines)
            continue
        prop = m.group(1)
        sid = "%s_%d" % (prop, int(m.group(2)) + off)
        out = os.path.join(VERIF, "seeded", sid)
        if os.path.isdir(out):
            continue
        os.makedirs(out, exist_ok=True)
        am = json.load(open(os.path.join(d, "meta.json")))
        shutil.copy(os.path.join(d, "patch.diff"), os.path.join(out, "patch.diff"))
        demo = am.get("demo") if isinstance(am.get("demo"), dict) else {}
        demo_file = os.path.basename(demo.get("file", ""))
        for f in os.listdir(d):
            if f.endswith(".rs"):
                shutil.copy(os.path.join(d, f), os.path.join(out, f))
        json.dump(am, open(os.path.join(out, "meta.agent.json"), "w"), indent=1)
        meta = {
            "id": sid, "property": prop,
            "breaks": am.get("summary", ""),
            "needs_to_manifest": am.get("needs_to_manifest", ""),
            "demo": {"file": demo_file, "place_at": demo.get("place_at", ""), "run": demo.get("run", "")},
            "origin": "written by an independent sub-agent that saw only the property text and a scratch worktree (nothing from /verif); %s round, base b4d5b9c" % rnd,
            "what_i_ran": {
                "script": "scratch worktree at the seed's base commit: apply patch.diff; cargo build --lib --bins; full 691-test nextest suite WITH the change (demo absent); demo test WITH the change; revert; demo test WITHOUT the change",
                "result_lines": [l for l in lines if l.startswith(("seed ", "build_with_patch", "suite_with_patch", "demo_with_patch_exit", "demo_without_patch_exit", "DONE"))],
            },
            "agent_reported": am.get("ran", []),
        }
        json.dump(meta, open(os.path.join(out, "meta.json"), "w"), indent=1)
        print("imported", name, "->", sid)


if __name__ == "__main__":
    main()
