#!/usr/bin/env python3
"""Regenerate the machine-derived tables of DESIGN.md (between <!-- GEN:name --> ... <!-- /GEN:name --> markers) from
evidence/*.json (rules as evaluated on the last run), known_findings.jsonl, seeded/*/{meta,detected}.json and
rules/mutants.py.  Hand-written text is left alone."""
import glob
import json
import os
import re
import sys

VERIF = os.path.dirname(os.path.dirname(os.path.abspath(__file__)))
sys.path.insert(0, VERIF)


def esc(s):
    return s.replace("|", "\\|").replace("\n", " ")


def rules_table():
    out = ["| prop | rule | clause decided (rule text as evaluated) | instances on the last run (hold/total) |", "|---|---|---|---|"]
    for p in sorted(glob.glob(os.path.join(VERIF, "evidence", "C*.json"))):
        e = json.load(open(p))
        cov = e["coverage"]
        txt = cov["explanation"].split("Rules: ", 1)[1]
        per = cov.get("per_rule", {})
        for part in txt.split(" | "):
            m = re.match(r"(R\d+\.\d+[a-z]?|R\d+\.\d+-[\w]+): (.*)", part, flags=re.S)
            if not m:
                continue
            rid, text = m.group(1), m.group(2)
            pr = per.get(rid, {"instances": 0, "hold": 0})
            out.append("| %s | %s | %s | %d/%d |" % (e["property_id"], rid, esc(text), pr["hold"], pr["instances"]))
    return "\n".join(out)


def findings_table():
    rows = [json.loads(l) for l in open(os.path.join(VERIF, "known_findings.jsonl")) if l.strip() and not l.startswith("#")]
    out = ["| prop | status | key | what fails | witness (one-off run against the real code) |", "|---|---|---|---|---|"]
    for r in sorted(rows, key=lambda r: (r["property"], r["status"] != "fixed", r["key"])):
        st = "fixed in %s" % r.get("commit") if r["status"] == "fixed" else "open (recorded)"
        what = re.sub(r"^fixed: property=C\d+ [0-9a-f]+ ", "", r["what"])
        out.append("| %s | %s | `%s` | %s | %s |" % (r["property"], st, esc(r["key"]), esc(what), esc(r.get("witness", "") or "")))
    return "\n".join(out)


def seeds_table():
    out = ["| seed | prop | edited (from meta.json) | reported by (rule:instance) |", "|---|---|---|---|"]
    n = 0
    d = 0
    for sd in sorted(glob.glob(os.path.join(VERIF, "seeded", "*"))):
        mp = os.path.join(sd, "meta.json")
        dp = os.path.join(sd, "detected.json")
        if not os.path.exists(mp):
            continue
        m = json.load(open(mp))
        det = json.load(open(dp)) if os.path.exists(dp) else {"violations": [], "exit": None, "applied": None}
        n += 1
        d += 1 if det.get("exit") == 1 else 0
        br = m.get("breaks", "")
        br = br if len(br) < 260 else br[:257] + "..."
        v = det.get("violations", [])
        rep = "; ".join("`%s`" % esc(x[:110]) for x in v[:3]) + (" (+%d more)" % (len(v) - 3) if len(v) > 3 else "")
        if det.get("exit") != 1:
            rep = "**not reported**" if det.get("applied") else "patch does not apply to the current tree"
        out.append("| %s | %s | %s | %s |" % (m["id"], m["property"], esc(br), rep))
    out.append("")
    out.append("%d of %d seeded changes are reported (exit 1 with a VIOLATION line naming the edited construct)." % (d, n))
    return "\n".join(out)


def mutants_table():
    from rules import mutants
    res = {}
    try:
        last = json.load(open(os.path.join(VERIF, "mutants_last.json")))
    except Exception:
        last = {}
    for prop, mu in sorted(last.items()):
        if mu:
            for x in mu["details"]:
                res[x["id"]] = "reported: " + ", ".join("`%s`" % esc(k[:90]) for k in x["reported"][:2])
            for x in mu["survivors"]:
                res[x["id"]] = "**survived**"
            for x in mu["invalid"]:
                res[x["id"]] = "invalid (%s)" % x["why"]
    out = ["| id | prop | file | edit (old → new, abbreviated) | expected rule | last thorough run |", "|---|---|---|---|---|---|"]
    for (mid, prop, rel, old, new, want) in mutants.M:
        def ab(s):
            s = " ".join(s.split())
            return s if len(s) < 70 else s[:67] + "..."
        out.append("| %s | %s | %s | `%s` → `%s` | %s | %s |" % (mid, prop, rel, esc(ab(old)), esc(ab(new) or "(deleted)"), want.replace("\\", "").replace("|", "/"), res.get(mid, "not run yet")))
    return "\n".join(out)


GEN = {"rules": rules_table, "findings": findings_table, "seeds": seeds_table, "mutants": mutants_table}


def main():
    p = os.path.join(VERIF, "DESIGN.md")
    s = open(p).read()
    for name, fn in GEN.items():
        a = "<!-- GEN:%s -->" % name
        b = "<!-- /GEN:%s -->" % name
        if a in s and b in s:
            i = s.index(a) + len(a)
            j = s.index(b)
            s = s[:i] + "\n" + fn() + "\n" + s[j:]
        else:
            print("marker %s missing" % name)
    open(p, "w").write(s)


if __name__ == "__main__":
    main()
