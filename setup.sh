#!/bin/bash
# placeholder; replaced once engines exist
exit 0
