#!/bin/bash
# Offline setup: build the mirfacts driver (nightly, zero deps) and warm the dependency build cache used by the checks.
set -e
cd "$(dirname "$0")"
export CARGO_NET_OFFLINE=true
unset RUSTC_WRAPPER RUSTC_WORKSPACE_WRAPPER RUSTFLAGS
(cd engine/mirfacts && cargo +nightly build --offline 2>&1 | tail -2)
if [ -f engine/synq/Cargo.toml ]; then (cd engine/synq && cargo build --offline --release 2>&1 | tail -2); fi
# warm: extract facts for the default configuration once (builds dependencies' metadata, ~1 min cold)
python3 - <<'PY'
import sys
sys.path.insert(0, ".")
from rules import facts
d = facts.extract(config="default")
print("facts:", d)
from rules import selftest
n, fails = selftest.run()
print("engine self-test: %d expectations, %d failed" % (n, len(fails)))
if fails:
    print("\n".join(fails))
    sys.exit(1)
PY
echo "setup ok"
