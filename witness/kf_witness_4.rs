//! Witness for the C06/C07 finding "type-mismatch resolution by the outer stamp is not associative":
//! three replicas write the same key concurrently (a string and two hash fields); two further replicas
//! receive all three updates, in different orders, through ShardReplicaState::apply_remote_delta, and end
//! with different values.  C06: "once each update has reached every replica responsible for its key, all
//! those replicas answer every read identically".  Nothing under src/ is modified.
//! Place under tests/ and run:  cargo test --offline --test kf_witness_4 -- --nocapture

use redis_sim::redis::SDS;
use redis_sim::replication::{ConsistencyLevel, ReplicaId, ReplicatedValue, ReplicationDelta, ShardReplicaState};

fn show(v: &ReplicatedValue) -> String {
    if v.is_hash() {
        let mut f: Vec<String> = v.get_hash().unwrap().iter()
            .map(|(k, l)| format!("{}={:?}{}", k, l.get().map(|s| s.to_string()), if l.tombstone { "(tomb)" } else { "" })).collect();
        f.sort();
        format!("Hash{{{}}} @{}", f.join(","), v.timestamp.time)
    } else {
        format!("{}({:?}) @{}", v.crdt_type(), v.get().map(|s| s.to_string()), v.timestamp.time)
    }
}

fn node(id: u64, warmup: usize) -> ShardReplicaState {
    let mut n = ShardReplicaState::new(ReplicaId::new(id), ConsistencyLevel::Eventual);
    for i in 0..warmup {
        n.record_write(format!("other{}:{}", id, i), SDS::from_str("z"), None);   // unrelated writes advance the Lamport clock
    }
    n
}

fn deliver(id: u64, order: &[&ReplicationDelta]) -> ReplicatedValue {
    let mut n = ShardReplicaState::new(ReplicaId::new(id), ConsistencyLevel::Eventual);
    for d in order {
        n.apply_remote_delta((*d).clone());
    }
    n.get_replicated("k").expect("k known").clone()
}

#[test]
fn replicas_that_received_the_same_updates_agree() {
    let a = node(1, 4).record_write("k".to_string(), SDS::from_str("v"), None);                       // SET k v       @5
    let b = node(2, 2).record_hash_write("k".to_string(), vec![("f1".to_string(), SDS::from_str("x"))]); // HSET k f1 x   @3
    let c = node(3, 6).record_hash_write("k".to_string(), vec![("f2".to_string(), SDS::from_str("y"))]); // HSET k f2 y   @7
    println!("a = {}\nb = {}\nc = {}", show(&a.value), show(&b.value), show(&c.value));

    let r4 = deliver(4, &[&a, &b, &c]);
    let r5 = deliver(5, &[&b, &c, &a]);
    println!("replica 4 (a,b,c) -> {}", show(&r4));
    println!("replica 5 (b,c,a) -> {}", show(&r5));

    // the algebraic form of the same thing
    let left = a.value.merge(&b.value).merge(&c.value);
    let right = a.value.merge(&b.value.merge(&c.value));
    println!("(a+b)+c = {}\na+(b+c) = {}", show(&left), show(&right));

    assert_eq!(show(&r4), show(&r5), "two replicas that received the same three updates hold different values for k");
}
