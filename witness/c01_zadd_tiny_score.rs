// One-off witness for the R01.14 finding (run as tests/kf_eps.rs in a scratch worktree of /repo at b4d5b9c):
// before the fix: r2 = Integer(1) (CH counts a change) yet ZSCORE keeps 1e-20; after `fix: ZADD updates a score that differs
// from the stored one by less than f64::EPSILON` ZSCORE answers 2e-20.
use redis_sim::redis::{Command, CommandExecutor, RespValue, SDS};

#[test]
fn zadd_tiny_score_update() {
    let mut ex = CommandExecutor::new();
    let r1 = ex.execute(&Command::ZAdd { key: "z".into(), pairs: vec![(1e-20, SDS::from_str("m"))], nx: false, xx: false, gt: false, lt: false, ch: true });
    let r2 = ex.execute(&Command::ZAdd { key: "z".into(), pairs: vec![(2e-20, SDS::from_str("m"))], nx: false, xx: false, gt: false, lt: false, ch: true });
    let s = ex.execute(&Command::ZScore("z".into(), SDS::from_str("m")));
    println!("r1={:?} r2={:?} score={:?}", r1, r2, s);
    match s { RespValue::BulkString(Some(b)) => assert_eq!(String::from_utf8(b).unwrap().parse::<f64>().unwrap(), 2e-20), other => panic!("{:?}", other) }
}
