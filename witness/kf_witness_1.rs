//! Witness tests for suspected behavioural defects (batch 1).
//!
//! Every test drives the real code through the crate's public API
//! (`Command::from_resp` -> `CommandExecutor::execute` /
//! `ShardedActorState::execute`), prints every reply, and asserts the
//! *defective* behaviour, so a test passes iff the defect is present.
//!
//! Run:
//!   cargo test --offline --test kf_witness_1 -- --nocapture

use redis_sim::production::ShardedActorState;
use redis_sim::redis::{Command, CommandExecutor, RespValue};
use redis_sim::simulator::VirtualTime;
use std::collections::hash_map::DefaultHasher;
use std::hash::{Hash, Hasher};
use std::sync::Mutex;

/// Serialises the tests so that their printed transcripts do not interleave
/// when the harness runs them on several threads.
static PRINT_LOCK: Mutex<()> = Mutex::new(());

fn lock() -> std::sync::MutexGuard<'static, ()> {
    PRINT_LOCK.lock().unwrap_or_else(|e| e.into_inner())
}

// ---------------------------------------------------------------- helpers

/// Build a Command the way a client request is parsed: RESP array of bulk
/// strings -> `Command::from_resp`.
fn cmd(parts: &[&str]) -> Command {
    let arr = RespValue::Array(Some(
        parts
            .iter()
            .map(|p| RespValue::BulkString(Some(p.as_bytes().to_vec())))
            .collect(),
    ));
    match Command::from_resp(&arr) {
        Ok(c) => c,
        Err(e) => panic!("from_resp({:?}) failed: {}", parts, e),
    }
}

fn show(v: &RespValue) -> String {
    match v {
        RespValue::SimpleString(s) => format!("+{}", s),
        // multi-line Lua error text (stack traceback) is kept, newlines escaped
        RespValue::Error(e) => format!("-{}", e.replace('\n', "\\n").replace('\t', " ")),
        RespValue::Integer(i) => format!(":{}", i),
        RespValue::BulkString(None) => "(nil)".to_string(),
        RespValue::BulkString(Some(b)) => format!("{:?}", String::from_utf8_lossy(b)),
        RespValue::Array(None) => "(nil-array)".to_string(),
        RespValue::Array(Some(items)) => {
            let inner: Vec<String> = items.iter().map(show).collect();
            format!("[{}]", inner.join(", "))
        }
    }
}

fn nil() -> RespValue {
    RespValue::BulkString(None)
}

fn bulk(s: &str) -> RespValue {
    RespValue::BulkString(Some(s.as_bytes().to_vec()))
}

fn is_error(v: &RespValue) -> bool {
    matches!(v, RespValue::Error(_))
}

/// Executor: run one command, print request and reply.
fn ex(e: &mut CommandExecutor, label: &str, parts: &[&str]) -> RespValue {
    let r = e.execute(&cmd(parts));
    println!("  [{}] {:<60} -> {}", label, parts.join(" "), show(&r));
    r
}

/// Sharded state: run one command, print request and reply.
async fn sx(s: &ShardedActorState, label: &str, parts: &[&str]) -> RespValue {
    let r = s.execute(&cmd(parts)).await;
    println!("  [{}] {:<60} -> {}", label, parts.join(" "), show(&r));
    r
}

/// Copy of the crate-private `hash_key_bytes` in src/production/sharded_actor.rs
/// (default features: std DefaultHasher over the key *bytes*). Only used to
/// PICK keys; `calibrate_shard_of` below checks it against the real router.
fn shard_of(key: &str, num_shards: usize) -> usize {
    let mut h = DefaultHasher::new();
    key.as_bytes().hash(&mut h);
    (h.finish() as usize) % num_shards
}

/// First `n` keys "<prefix>0", "<prefix>1", ... satisfying `pred(shard)` for 4 shards.
fn pick_keys(prefix: &str, n: usize, pred: impl Fn(usize) -> bool) -> Vec<String> {
    let mut out = Vec::new();
    let mut i = 0;
    while out.len() < n {
        let k = format!("{}{}", prefix, i);
        if pred(shard_of(&k, 4)) {
            out.push(k);
        }
        i += 1;
        assert!(i < 10_000, "could not find keys");
    }
    out
}

/// Two keys (first, second) that live on different shards when there are 4 shards.
fn cross_shard_pair(p1: &str, p2: &str) -> (String, String) {
    let a = format!("{}0", p1);
    let sa = shard_of(&a, 4);
    let b = pick_keys(p2, 1, |s| s != sa).remove(0);
    println!(
        "  keys: {} -> shard {}/4, {} -> shard {}/4",
        a,
        sa,
        b,
        shard_of(&b, 4)
    );
    (a, b)
}

// ---------------------------------------------------------------- calibration

/// Not a scenario: checks that `shard_of` above agrees with the real router.
/// RANDOMKEY is sent to shard 0 only, so with a single key in the store it
/// answers non-nil iff that key lives on shard 0.
#[tokio::test]
async fn s0_calibrate_shard_of() {
    let _guard = lock();
    println!("\n=== calibration: local shard_of() vs real routing (4 shards) ===");
    let s4 = ShardedActorState::with_shards(4);
    let mut on0 = 0;
    let mut off0 = 0;
    for i in 0..24 {
        let k = format!("cal{}", i);
        s4.execute(&cmd(&["SET", &k, "x"])).await;
        let r = s4.execute(&cmd(&["RANDOMKEY"])).await;
        s4.execute(&cmd(&["DEL", &k])).await;
        let predicted0 = shard_of(&k, 4) == 0;
        let observed0 = r != nil();
        println!(
            "  {:<6} predicted shard {} ; RANDOMKEY -> {:<8} (observed on shard 0: {})",
            k,
            shard_of(&k, 4),
            show(&r),
            observed0
        );
        assert_eq!(predicted0, observed0, "shard_of() disagrees with router for {}", k);
        if observed0 {
            on0 += 1
        } else {
            off0 += 1
        }
    }
    println!("  agreement on all 24 keys ({} on shard 0, {} elsewhere)", on0, off0);
    assert!(on0 > 0 && off0 > 0);
}

// ---------------------------------------------------------------- scenario 1

#[test]
fn s1_info_counts_expired_key_dbsize_does_not() {
    let _guard = lock();
    println!("\n=== scenario 1: INFO vs DBSIZE with an expired, not yet evicted key ===");
    let mut e = CommandExecutor::new();
    ex(&mut e, "t=0 ", &["SET", "k", "v", "PX", "10"]);
    e.update_time_readonly(VirtualTime::from_millis(20));
    println!("  -- update_time_readonly(20ms) (no eviction) --");
    let info = e.execute(&cmd(&["INFO"]));
    let info_text = match &info {
        RespValue::BulkString(Some(b)) => String::from_utf8_lossy(b).to_string(),
        other => panic!("unexpected INFO reply {}", show(other)),
    };
    println!("  [t=20] INFO ->");
    for line in info_text.lines() {
        println!("        | {}", line);
    }
    let dbsize = ex(&mut e, "t=20", &["DBSIZE"]);
    let get = ex(&mut e, "t=20", &["GET", "k"]);

    assert!(info_text.contains("total_keys:1"), "INFO did not report 1 key");
    assert_eq!(dbsize, RespValue::Integer(0));
    assert_eq!(get, nil());
    println!("  RESULT: INFO says total_keys:1 (and keys_with_expiration:1), DBSIZE says 0");
}

// ---------------------------------------------------------------- scenario 2

#[test]
fn s2a_watch_of_expired_unevicted_key() {
    let _guard = lock();
    println!("\n=== scenario 2a: WATCH on an already expired (unevicted) key, then MULTI/SET/EXEC ===");
    let mut e = CommandExecutor::new();
    ex(&mut e, "t=0 ", &["SET", "k", "v", "PX", "10"]);
    e.update_time_readonly(VirtualTime::from_millis(20));
    println!("  -- update_time_readonly(20ms) (no eviction) --");
    ex(&mut e, "t=20", &["WATCH", "k"]);
    ex(&mut e, "t=20", &["MULTI"]);
    ex(&mut e, "t=20", &["SET", "k", "w"]);
    let exec = ex(&mut e, "t=20", &["EXEC"]);
    ex(&mut e, "t=20", &["GET", "k"]);
    // Redis: key absent at WATCH, still absent at EXEC -> EXEC runs, [OK].
    assert_eq!(exec, RespValue::Array(Some(vec![RespValue::ok()])));
    println!("  RESULT 2a: EXEC ran and returned [OK]; same reply as Redis (no visible deviation in this sequence)");
}

#[test]
fn s2c_watch_of_expired_key_then_lazy_delete() {
    let _guard = lock();
    println!("\n=== scenario 2c (added): as 2a, but a GET lazily deletes the expired key between WATCH and MULTI ===");
    let mut e = CommandExecutor::new();
    ex(&mut e, "t=0 ", &["SET", "k", "v", "PX", "10"]);
    e.update_time_readonly(VirtualTime::from_millis(20));
    println!("  -- update_time_readonly(20ms) (no eviction) --");
    ex(&mut e, "t=20", &["WATCH", "k"]);
    let get = ex(&mut e, "t=20", &["GET", "k"]);
    ex(&mut e, "t=20", &["MULTI"]);
    ex(&mut e, "t=20", &["SET", "k", "w"]);
    let exec = ex(&mut e, "t=20", &["EXEC"]);
    let after = ex(&mut e, "t=20", &["GET", "k"]);
    assert_eq!(get, nil());
    // Defect: WATCH snapshotted Some("v") for a logically absent key, so the
    // lazy deletion looks like a modification and EXEC aborts.
    // Redis >= 7.0: key was logically absent at WATCH and is absent at EXEC -> EXEC runs.
    assert_eq!(exec, nil(), "EXEC was expected to abort (defect)");
    assert_eq!(after, nil());
    println!("  RESULT 2c: EXEC aborted (nil) although nobody modified k -> WATCH had snapshotted the expired value");
}

#[test]
fn s2b_watched_key_expires_before_exec() {
    let _guard = lock();
    println!("\n=== scenario 2b: key expires between WATCH and EXEC (no eviction) ===");
    let mut e = CommandExecutor::new();
    ex(&mut e, "t=0 ", &["SET", "k", "v", "PX", "10"]);
    ex(&mut e, "t=0 ", &["WATCH", "k"]);
    e.update_time_readonly(VirtualTime::from_millis(20));
    println!("  -- update_time_readonly(20ms) (no eviction) --");
    ex(&mut e, "t=20", &["MULTI"]);
    ex(&mut e, "t=20", &["INCR", "x"]);
    let exec = ex(&mut e, "t=20", &["EXEC"]);
    let x = ex(&mut e, "t=20", &["GET", "x"]);
    // Redis: watched key expired -> EXEC returns nil, x untouched.
    assert_eq!(exec, RespValue::Array(Some(vec![RespValue::Integer(1)])));
    assert_eq!(x, bulk("1"));
    println!("  RESULT 2b: EXEC ran ([:1]) although the watched key expired; Redis would reply nil");

    println!("  -- control: same sequence but clock advanced with set_time() (evicts) --");
    let mut c = CommandExecutor::new();
    ex(&mut c, "t=0 ", &["SET", "k", "v", "PX", "10"]);
    ex(&mut c, "t=0 ", &["WATCH", "k"]);
    c.set_time(VirtualTime::from_millis(20));
    ex(&mut c, "t=20", &["MULTI"]);
    ex(&mut c, "t=20", &["INCR", "x"]);
    let exec_c = ex(&mut c, "t=20", &["EXEC"]);
    println!("  control EXEC -> {}", show(&exec_c));
}

// ---------------------------------------------------------------- scenario 3

#[tokio::test]
async fn s3_msetnx_cross_shard() {
    let _guard = lock();
    println!("\n=== scenario 3: MSETNX a b with a,b on different shards ===");
    let (a, b) = cross_shard_pair("a", "b");
    let s4 = ShardedActorState::with_shards(4);
    let s1 = ShardedActorState::with_shards(1);
    let mut got = Vec::new();
    for (label, s) in [("4 shards", &s4), ("1 shard ", &s1)] {
        sx(s, label, &["MSETNX", &a, "1", &b, "2"]).await;
        sx(s, label, &["GET", &a]).await;
        got.push(sx(s, label, &["GET", &b]).await);
        sx(s, label, &["DBSIZE"]).await;
    }
    assert_eq!(got[0], nil());
    assert_eq!(got[1], bulk("2"));
    println!("  RESULT: GET {} -> nil on 4 shards, \"2\" on 1 shard", b);
}

// ---------------------------------------------------------------- scenario 4

#[tokio::test]
async fn s4_rpoplpush_lmove_cross_shard() {
    let _guard = lock();
    println!("\n=== scenario 4: RPOPLPUSH / LMOVE with src,dst on different shards ===");
    let (src, dst) = cross_shard_pair("src", "dst");
    let s4 = ShardedActorState::with_shards(4);
    let s1 = ShardedActorState::with_shards(1);

    println!("  -- RPOPLPUSH --");
    let mut got = Vec::new();
    for (label, s) in [("4 shards", &s4), ("1 shard ", &s1)] {
        sx(s, label, &["RPUSH", &src, "x"]).await;
        sx(s, label, &["RPOPLPUSH", &src, &dst]).await;
        got.push(sx(s, label, &["LRANGE", &dst, "0", "-1"]).await);
        sx(s, label, &["LRANGE", &src, "0", "-1"]).await;
        sx(s, label, &["DBSIZE"]).await;
        sx(s, label, &["FLUSHALL"]).await;
    }
    assert_eq!(got[0], RespValue::Array(Some(vec![])));
    assert_eq!(got[1], RespValue::Array(Some(vec![bulk("x")])));

    println!("  -- LMOVE src dst LEFT RIGHT --");
    let mut got = Vec::new();
    for (label, s) in [("4 shards", &s4), ("1 shard ", &s1)] {
        sx(s, label, &["RPUSH", &src, "x"]).await;
        sx(s, label, &["LMOVE", &src, &dst, "LEFT", "RIGHT"]).await;
        got.push(sx(s, label, &["LRANGE", &dst, "0", "-1"]).await);
        sx(s, label, &["LRANGE", &src, "0", "-1"]).await;
        sx(s, label, &["DBSIZE"]).await;
    }
    assert_eq!(got[0], RespValue::Array(Some(vec![])));
    assert_eq!(got[1], RespValue::Array(Some(vec![bulk("x")])));
    println!("  RESULT: LRANGE {} is empty on 4 shards, [\"x\"] on 1 shard (both commands)", dst);
}

// ---------------------------------------------------------------- scenario 5

#[tokio::test]
async fn s5_sort_store_cross_shard() {
    let _guard = lock();
    println!("\n=== scenario 5: SORT l STORE d with l,d on different shards ===");
    let (l, d) = cross_shard_pair("l", "d");
    let s4 = ShardedActorState::with_shards(4);
    let s1 = ShardedActorState::with_shards(1);
    let mut lr = Vec::new();
    let mut exs = Vec::new();
    for (label, s) in [("4 shards", &s4), ("1 shard ", &s1)] {
        sx(s, label, &["RPUSH", &l, "3", "1", "2"]).await;
        sx(s, label, &["SORT", &l, "STORE", &d]).await;
        lr.push(sx(s, label, &["LRANGE", &d, "0", "-1"]).await);
        exs.push(sx(s, label, &["EXISTS", &d]).await);
        sx(s, label, &["DBSIZE"]).await;
    }
    assert_eq!(lr[0], RespValue::Array(Some(vec![])));
    assert_eq!(
        lr[1],
        RespValue::Array(Some(vec![bulk("1"), bulk("2"), bulk("3")]))
    );
    assert_eq!(exs[0], RespValue::Integer(0));
    assert_eq!(exs[1], RespValue::Integer(1));
    println!("  RESULT: {} is unreachable on 4 shards, [1,2,3] on 1 shard", d);
}

// ---------------------------------------------------------------- scenario 6

#[tokio::test]
async fn s6_eval_second_key_cross_shard() {
    let _guard = lock();
    println!("\n=== scenario 6: EVAL reading KEYS[2] that lives on another shard ===");
    let (k1, k2) = cross_shard_pair("k1_", "k2_");
    let s4 = ShardedActorState::with_shards(4);
    let s1 = ShardedActorState::with_shards(1);
    let script = "return redis.call('GET', KEYS[2])";
    let mut ev = Vec::new();
    let mut evsha = Vec::new();
    for (label, s) in [("4 shards", &s4), ("1 shard ", &s1)] {
        sx(s, label, &["SET", &k2, "v"]).await;
        sx(s, label, &["GET", &k2]).await;
        ev.push(sx(s, label, &["EVAL", script, "2", &k1, &k2]).await);
        let sha = sx(s, label, &["SCRIPT", "LOAD", script]).await;
        let sha = match sha {
            RespValue::BulkString(Some(b)) => String::from_utf8(b).unwrap(),
            other => panic!("SCRIPT LOAD -> {}", show(&other)),
        };
        evsha.push(sx(s, label, &["EVALSHA", &sha, "2", &k1, &k2]).await);
    }
    assert_eq!(ev[0], nil());
    assert_eq!(ev[1], bulk("v"));
    assert_eq!(evsha[0], nil());
    assert_eq!(evsha[1], bulk("v"));
    println!("  RESULT: EVAL/EVALSHA -> nil on 4 shards, \"v\" on 1 shard");
}

// ---------------------------------------------------------------- scenario 7

#[tokio::test]
async fn s7_renamenx_cross_shard() {
    let _guard = lock();
    println!("\n=== scenario 7: RENAMENX a b with a,b on different shards ===");
    let (a, b) = cross_shard_pair("ra", "rb");
    let s4 = ShardedActorState::with_shards(4);
    let s1 = ShardedActorState::with_shards(1);
    let mut got = Vec::new();
    for (label, s) in [("4 shards", &s4), ("1 shard ", &s1)] {
        sx(s, label, &["SET", &a, "1"]).await;
        sx(s, label, &["RENAMENX", &a, &b]).await;
        got.push(sx(s, label, &["GET", &b]).await);
        sx(s, label, &["GET", &a]).await;
        sx(s, label, &["DBSIZE"]).await;
    }
    assert_eq!(got[0], nil());
    assert_eq!(got[1], bulk("1"));
    println!("  RESULT: GET {} -> nil on 4 shards, \"1\" on 1 shard", b);
}

// ---------------------------------------------------------------- scenario 8

#[tokio::test]
async fn s8_randomkey_only_asks_shard_0() {
    let _guard = lock();
    println!("\n=== scenario 8: RANDOMKEY with 5 keys, none on shard 0 ===");
    let keys = pick_keys("rk", 5, |s| s != 0);
    for k in &keys {
        println!("  key {} -> shard {}/4", k, shard_of(k, 4));
    }
    let s4 = ShardedActorState::with_shards(4);
    let s1 = ShardedActorState::with_shards(1);
    let mut got = Vec::new();
    for (label, s) in [("4 shards", &s4), ("1 shard ", &s1)] {
        for k in &keys {
            sx(s, label, &["SET", k, "v"]).await;
        }
        sx(s, label, &["DBSIZE"]).await;
        got.push(sx(s, label, &["RANDOMKEY"]).await);
    }
    assert_eq!(got[0], nil());
    match &got[1] {
        RespValue::BulkString(Some(b)) => {
            assert!(keys.contains(&String::from_utf8(b.clone()).unwrap()))
        }
        other => panic!("1 shard RANDOMKEY -> {}", show(other)),
    }
    println!("  RESULT: RANDOMKEY -> nil on 4 shards with DBSIZE 5; a real key on 1 shard");
}

// ---------------------------------------------------------------- scenario 9

#[test]
fn s9a_lua_expire_nx() {
    let _guard = lock();
    println!("\n=== scenario 9a: EXPIRE k 100 NX, direct vs redis.call ===");
    let mut d = CommandExecutor::new();
    ex(&mut d, "direct", &["SET", "k", "v"]);
    let direct = ex(&mut d, "direct", &["EXPIRE", "k", "100", "NX"]);
    ex(&mut d, "direct", &["TTL", "k"]);

    let mut l = CommandExecutor::new();
    ex(&mut l, "lua   ", &["SET", "k", "v"]);
    let lua = ex(
        &mut l,
        "lua   ",
        &["EVAL", "return redis.call('EXPIRE', KEYS[1], 100, 'NX')", "1", "k"],
    );
    ex(&mut l, "lua   ", &["TTL", "k"]);

    assert_eq!(direct, RespValue::Integer(1));
    assert!(is_error(&lua), "lua path was expected to fail (defect)");
    println!("  RESULT: direct -> :1 ; via redis.call -> {}", show(&lua));
}

#[test]
fn s9b_lua_set_keepttl() {
    let _guard = lock();
    println!("\n=== scenario 9b: SET k v KEEPTTL, direct vs redis.call ===");
    let mut d = CommandExecutor::new();
    ex(&mut d, "direct", &["SET", "k", "old", "EX", "100"]);
    let direct = ex(&mut d, "direct", &["SET", "k", "v", "KEEPTTL"]);
    ex(&mut d, "direct", &["TTL", "k"]);

    let mut l = CommandExecutor::new();
    ex(&mut l, "lua   ", &["SET", "k", "old", "EX", "100"]);
    let lua = ex(
        &mut l,
        "lua   ",
        &["EVAL", "return redis.call('SET', KEYS[1], 'v', 'KEEPTTL')", "1", "k"],
    );
    ex(&mut l, "lua   ", &["GET", "k"]);

    assert_eq!(direct, RespValue::ok());
    assert!(is_error(&lua), "lua path was expected to fail (defect)");
    println!("  RESULT: direct -> +OK ; via redis.call -> {}", show(&lua));
}

#[test]
fn s9c_lua_zrange_withscores() {
    let _guard = lock();
    println!("\n=== scenario 9c: ZRANGE z 0 -1 WITHSCORES, direct vs redis.call ===");
    let mut d = CommandExecutor::new();
    ex(&mut d, "direct", &["ZADD", "z", "1", "a", "2", "b"]);
    let direct = ex(&mut d, "direct", &["ZRANGE", "z", "0", "-1", "WITHSCORES"]);

    let mut l = CommandExecutor::new();
    ex(&mut l, "lua   ", &["ZADD", "z", "1", "a", "2", "b"]);
    let lua = ex(
        &mut l,
        "lua   ",
        &[
            "EVAL",
            "return redis.call('ZRANGE', KEYS[1], 0, -1, 'WITHSCORES')",
            "1",
            "z",
        ],
    );
    let lua_plain = ex(
        &mut l,
        "lua   ",
        &["EVAL", "return redis.call('ZRANGE', KEYS[1], 0, -1)", "1", "z"],
    );

    assert!(matches!(&direct, RespValue::Array(Some(v)) if v.len() == 4));
    assert_ne!(direct, lua);
    assert!(matches!(&lua_plain, RespValue::Array(Some(v)) if v.len() == 2));
    println!("  RESULT: direct -> {} ; via redis.call -> {}", show(&direct), show(&lua));
}
