// Witness: ZADD with XX on an absent key must not leave an empty sorted set behind.
use redis_sim::redis::{Command, CommandExecutor, RespValue, SDS};

#[test]
fn zadd_xx_on_absent_key_creates_nothing() {
    let mut ex = CommandExecutor::new();
    let r = ex.execute(&Command::ZAdd {
        key: "z".to_string(),
        pairs: vec![(1.0, SDS::from_str("m"))],
        nx: false, xx: true, gt: false, lt: false, ch: false,
    });
    println!("ZADD z XX 1 m -> {:?}", r);
    let e = ex.execute(&Command::Exists(vec!["z".to_string()]));
    println!("EXISTS z -> {:?}", e);
    let t = ex.execute(&Command::TypeOf("z".to_string()));
    println!("TYPE z -> {:?}", t);
    assert_eq!(e, RespValue::Integer(0), "an empty sorted set is visible after ZADD XX on an absent key");
}
