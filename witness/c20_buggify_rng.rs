// Witness: under --features simulation with a preset fault config, the connection harness is not a function of its seed.
use redis_sim::buggify::{self, FaultConfig};
use redis_sim::redis::{Command, SDS};
use redis_sim::simulator::connection::SimulatedConnection;

fn run(seed: u64) -> Vec<usize> {
    buggify::set_config(FaultConfig::chaos());
    let mut out = Vec::new();
    let mut conn = SimulatedConnection::new(seed);
    for round in 0..200 {
        for i in 0..20 {
            conn.send_command(Command::Set {
                key: format!("k{}", i),
                value: SDS::from_str("v"),
                ex: None, px: None, exat: None, pxat: None, nx: false, xx: false, get: false, keepttl: false,
            });
        }
        let r = conn.process();
        out.push(r.len());
        let _ = round;
    }
    out
}

#[test]
fn same_seed_same_trace() {
    let a = run(7);
    let b = run(7);
    assert_eq!(a, b, "two runs of seed 7 delivered different numbers of commands per round");
}
