//! Witness tests for suspected behavioural defects (set 2).
//!
//! Every test drives the real crate code through its public API, prints what
//! actually happens and asserts the *defective* behaviour (test passes iff the
//! defect is real).  Nothing under src/ is modified.

use redis_sim::io::simulation::SimulatedRng;
use redis_sim::production::{OptimizedRedisServer, ReplicatedShardActor, ReplicatedShardHandle};
use redis_sim::redis::{Command, RespCodec, RespParser, RespValue, SDS};
use redis_sim::replication::{
    ConsistencyLevel, CrdtValue, LamportClock, ReplicaId, ReplicatedValue, ReplicationDelta,
};
use redis_sim::streaming::{
    CompactionConfig, Compactor, InMemoryObjectStore, Manifest, ManifestManager, ObjectStore,
    RecoveredState, RecoveryError, RecoveryManager, SegmentReader, SimulatedObjectStore,
    SimulatedStoreConfig, StreamingPersistence, WriteBuffer, WriteBufferConfig,
};
use std::sync::Arc;
use std::time::{Duration, Instant};

// ---------------------------------------------------------------------------
// helpers
// ---------------------------------------------------------------------------

fn sds(s: &str) -> SDS {
    SDS::from_str(s)
}

fn show(r: &RespValue) -> String {
    match r {
        RespValue::SimpleString(s) => format!("+{}", s),
        RespValue::Error(e) => format!("-{}", e),
        RespValue::Integer(i) => format!(":{}", i),
        RespValue::BulkString(None) => "(nil)".to_string(),
        RespValue::BulkString(Some(b)) => format!("\"{}\"", String::from_utf8_lossy(b)),
        RespValue::Array(None) => "(nil-array)".to_string(),
        RespValue::Array(Some(v)) => {
            let inner: Vec<String> = v.iter().map(show).collect();
            format!("[{}]", inner.join(", "))
        }
    }
}

fn is_err(r: &RespValue) -> bool {
    matches!(r, RespValue::Error(_))
}

fn show_rv(v: &ReplicatedValue) -> String {
    if v.is_hash() {
        let mut fields: Vec<String> = v
            .get_hash()
            .unwrap()
            .iter()
            .map(|(f, lww)| {
                format!(
                    "{}={:?}{}",
                    f,
                    lww.get().map(|s| s.to_string()),
                    if lww.tombstone { "(tomb)" } else { "" }
                )
            })
            .collect();
        fields.sort();
        format!(
            "Hash{{{}}} ts={} r={:?} expiry_ms={:?}",
            fields.join(","),
            v.timestamp.time,
            v.timestamp.replica_id,
            v.expiry_ms
        )
    } else {
        format!(
            "{}(value={:?}, tombstone={}) ts={} r={:?} expiry_ms={:?}",
            v.crdt_type(),
            v.get().map(|s| s.to_string()),
            v.is_tombstone(),
            v.timestamp.time,
            v.timestamp.replica_id,
            v.expiry_ms
        )
    }
}

fn show_delta(d: &ReplicationDelta) -> String {
    format!(
        "delta(key={}, src={:?}, {})",
        d.key,
        d.source_replica,
        show_rv(&d.value)
    )
}

fn spawn_shard(replica: u64) -> ReplicatedShardHandle {
    ReplicatedShardActor::spawn(ReplicaId::new(replica), ConsistencyLevel::Eventual, 0)
}

fn set_px(key: &str, value: &str, px: i64) -> Command {
    Command::Set {
        key: key.to_string(),
        value: sds(value),
        ex: None,
        px: Some(px),
        exat: None,
        pxat: None,
        nx: false,
        xx: false,
        get: false,
        keepttl: false,
    }
}

// ---------------------------------------------------------------------------
// A. replication glue
// ---------------------------------------------------------------------------

/// A1: SET k v ; HSET k f x -> WRONGTYPE to the client, but a Hash delta is recorded
#[tokio::test]
async fn a1_failed_hset_still_records_hash_delta() {
    println!("\n===== A1 =====");
    let h = spawn_shard(1);

    let (r_set, d_set) = h.execute(Command::set("k".to_string(), sds("v"))).await;
    println!("SET k v            -> {}   delta: {:?}", show(&r_set), d_set.as_ref().map(show_delta));
    let drained = h.drain_pending_deltas().await;
    println!("drain after SET    -> {} delta(s)", drained.len());

    let (r_hset, d_hset) = h
        .execute(Command::HSet("k".to_string(), vec![(sds("f"), sds("x"))]))
        .await;
    println!("HSET k f x         -> {}", show(&r_hset));
    println!("returned delta     -> {:?}", d_hset.as_ref().map(show_delta));

    let pending = h.drain_pending_deltas().await;
    println!("pending deltas queued for peers after the failed HSET: {}", pending.len());
    for d in &pending {
        println!("   {}", show_delta(d));
    }
    let snap = h.get_snapshot().await;
    println!("replication state k -> {:?}", snap.get("k").map(show_rv));
    let get = h.execute_readonly(Command::Get("k".to_string())).await;
    println!("GET k (executor)   -> {}", show(&get));

    // defective behaviour
    assert!(is_err(&r_hset) && show(&r_hset).contains("WRONGTYPE"), "client must see WRONGTYPE");
    let d = d_hset.expect("a delta was returned although the command failed");
    assert!(d.value.is_hash());
    assert_eq!(d.value.hash_get("f").map(|s| s.to_string()), Some("x".to_string()));
    assert_eq!(pending.len(), 1);
    assert!(pending[0].value.is_hash());
    assert!(snap.get("k").unwrap().is_hash());
    assert_eq!(show(&get), "\"v\"");
    println!("A1 RESULT: REPRODUCED (WRONGTYPE to client, Hash{{f:x}} delta queued, local repl-state flipped to Hash, executor still string)");
    h.shutdown().await;
}

/// A2: node holds string k; a newer remote Hash delta for k arrives.
#[tokio::test]
async fn a2_remote_hash_delta_over_local_string() {
    println!("\n===== A2 ===== (debug_assertions = {})", cfg!(debug_assertions));
    let n1 = spawn_shard(1);
    let n2 = spawn_shard(2);

    let (r, d) = n1.execute(Command::set("k".to_string(), sds("v"))).await;
    println!("node1: SET k v -> {}  {:?}", show(&r), d.as_ref().map(show_delta));

    // node2 advances its Lamport clock with unrelated writes, then HSET k f x.
    for i in 0..5 {
        n2.execute(Command::set(format!("other{}", i), sds("z"))).await;
    }
    let (r2, d2) = n2
        .execute(Command::HSet("k".to_string(), vec![(sds("f"), sds("x"))]))
        .await;
    let d2 = d2.expect("node2 HSET delta");
    println!("node2: HSET k f x -> {}  {}", show(&r2), show_delta(&d2));
    assert!(d2.value.is_hash());
    assert!(d2.value.timestamp.time > d.as_ref().unwrap().value.timestamp.time);

    // deliver node2's delta to node1
    // (short panic hook so that a panic inside the actor task prints one line, not a backtrace)
    let prev_hook = std::panic::take_hook();
    std::panic::set_hook(Box::new(|info| {
        eprintln!("PANIC (inside shard actor task): {}", info);
    }));
    n1.apply_remote_delta(d2.clone());
    tokio::time::sleep(Duration::from_millis(50)).await;
    std::panic::set_hook(prev_hook);

    let alive = n1.is_running();
    println!("node1 actor alive after applying the remote hash delta: {}", alive);
    let snap = n1.get_snapshot().await;
    println!("node1 replication state k -> {:?}", snap.get("k").map(show_rv));
    let get = n1.execute_readonly(Command::Get("k".to_string())).await;
    println!("node1 GET k       -> {}", show(&get));
    let (hgetall, _) = n1.execute(Command::HGetAll("k".to_string())).await;
    println!("node1 HGETALL k   -> {}", show(&hgetall));

    if alive {
        // silent divergence (this is what a build without debug assertions does)
        assert!(snap.get("k").unwrap().is_hash(), "replication state must be the hash");
        assert_eq!(show(&get), "\"v\"", "executor still serves the string");
        assert!(is_err(&hgetall), "HGETALL fails");
        println!("A2 RESULT: REPRODUCED (silent divergence: repl-state=Hash, GET k=\"v\", HGETALL errors)");
    } else {
        // debug build: the divergence is caught by the debug_assert
        // "Postcondition: executor must have hash after HSet" inside
        // apply_remote_delta_impl, which panics the actor task -> shard dead.
        assert!(cfg!(debug_assertions));
        assert!(show(&get).contains("shard unavailable"));
        println!("A2 RESULT: REPRODUCED IN DEBUG FORM (HSET into string key failed; debug_assert postcondition panicked the shard actor; every later command -> ERR shard unavailable)");
    }
}

/// A3: remote string delta with expiry_ms < 1000 is never materialised.
#[tokio::test]
async fn a3_remote_delta_with_sub_second_expiry_not_materialised() {
    println!("\n===== A3 =====");
    let n1 = spawn_shard(1);
    let n2 = spawn_shard(2);

    // node1 really executes SET k3 v PX 500 and produces the delta.
    let (r, d) = n1.execute(set_px("k3", "v", 500)).await;
    let d = d.expect("delta for SET PX");
    println!("node1: SET k3 v PX 500 -> {}  {}", show(&r), show_delta(&d));
    assert_eq!(d.value.expiry_ms, Some(500));

    let t0 = Instant::now();
    n2.apply_remote_delta(d.clone());
    let snap2 = n2.get_snapshot().await; // ordered after the apply
    let get1 = n1.execute_readonly(Command::Get("k3".to_string())).await;
    let get2 = n2.execute_readonly(Command::Get("k3".to_string())).await;
    println!("elapsed since apply: {:?}", t0.elapsed());
    println!("node2 replication state k3 -> {:?}", snap2.get("k3").map(show_rv));
    println!("node1 GET k3 (origin)      -> {}", show(&get1));
    println!("node2 GET k3 (receiver)    -> {}", show(&get2));

    // control: same thing with PX 5000 is materialised
    let (_, dc) = n1.execute(set_px("k3c", "v", 5000)).await;
    n2.apply_remote_delta(dc.unwrap());
    let _ = n2.get_snapshot().await;
    let getc = n2.execute_readonly(Command::Get("k3c".to_string())).await;
    println!("control: node2 GET k3c (PX 5000) -> {}", show(&getc));

    // hand-built delta as in the scenario text
    let mut clock = LamportClock::new(ReplicaId::new(9));
    clock.time = 100;
    let mut rv = ReplicatedValue::with_value(sds("v"), clock);
    rv.expiry_ms = Some(500);
    n2.apply_remote_delta(ReplicationDelta::new("k3h".to_string(), rv, ReplicaId::new(9)));
    let snap2b = n2.get_snapshot().await;
    let geth = n2.execute_readonly(Command::Get("k3h".to_string())).await;
    println!("hand-built delta k3h expiry_ms=500: repl-state {:?}, GET -> {}", snap2b.get("k3h").map(show_rv), show(&geth));

    assert_eq!(snap2.get("k3").and_then(|v| v.get()).map(|s| s.to_string()), Some("v".to_string()));
    assert_eq!(show(&get2), "(nil)");
    assert_eq!(show(&geth), "(nil)");
    assert_eq!(show(&getc), "\"v\"");
    println!("A3 RESULT: REPRODUCED (repl-state holds v, executor GET -> nil; control with 5000ms is materialised)");
}

/// A4: recovery path (ApplyRecoveredState) with expiry_ms = 500 -> not materialised.
#[tokio::test]
async fn a4_recovered_state_with_sub_second_expiry_not_materialised() {
    println!("\n===== A4 =====");
    let n = spawn_shard(1);

    let mut clock = LamportClock::new(ReplicaId::new(1));
    clock.time = 42;
    let mut rv = ReplicatedValue::with_value(sds("v"), clock);
    rv.expiry_ms = Some(500);
    n.apply_recovered_state("k4".to_string(), rv);

    let mut rvc = ReplicatedValue::with_value(sds("v"), clock);
    rvc.expiry_ms = Some(5000);
    n.apply_recovered_state("k4c".to_string(), rvc);

    let snap = n.get_snapshot().await;
    let get = n.execute_readonly(Command::Get("k4".to_string())).await;
    let getc = n.execute_readonly(Command::Get("k4c".to_string())).await;
    println!("recovered k4 (expiry_ms=500):  repl-state {:?}", snap.get("k4").map(show_rv));
    println!("GET k4  -> {}", show(&get));
    println!("control k4c (expiry_ms=5000): GET k4c -> {}", show(&getc));

    assert!(snap.get("k4").and_then(|v| v.get()).is_some());
    assert_eq!(show(&get), "(nil)");
    assert_eq!(show(&getc), "\"v\"");
    println!("A4 RESULT: REPRODUCED (recovered value present in repl-state, GET -> nil)");

    // A4b (extra): type conflict through the recovery path (no debug_assert on this path)
    println!("----- A4b (extra): recovered Hash over an existing string key -----");
    let m = spawn_shard(1);
    m.execute(Command::set("k".to_string(), sds("v"))).await;
    let mut hclock = LamportClock::new(ReplicaId::new(2));
    hclock.time = 100;
    let mut hv = ReplicatedValue::with_crdt(CrdtValue::new_hash(), ReplicaId::new(2));
    hv.hash_set("f".to_string(), sds("x"), &mut hclock);
    m.apply_recovered_state("k".to_string(), hv);
    let snap = m.get_snapshot().await;
    let get = m.execute_readonly(Command::Get("k".to_string())).await;
    let (hga, _) = m.execute(Command::HGetAll("k".to_string())).await;
    println!("alive={} repl-state k -> {:?}", m.is_running(), snap.get("k").map(show_rv));
    println!("GET k -> {}    HGETALL k -> {}", show(&get), show(&hga));
    assert!(snap.get("k").unwrap().is_hash());
    assert_eq!(show(&get), "\"v\"");
    assert!(is_err(&hga));
    println!("A4b RESULT: REPRODUCED (repl-state=Hash, GET k=\"v\", HGETALL errors)");
}

// ---------------------------------------------------------------------------
// B. compaction
// ---------------------------------------------------------------------------

type Sim = SimulatedObjectStore<InMemoryObjectStore, SimulatedRng>;

fn mk_delta(key: &str, value: &str, ts: u64) -> ReplicationDelta {
    let replica_id = ReplicaId::new(1);
    let clock = LamportClock { time: ts, replica_id };
    ReplicationDelta::new(
        key.to_string(),
        ReplicatedValue::with_value(sds(value), clock),
        replica_id,
    )
}

fn show_manifest(m: &Manifest) -> String {
    let segs: Vec<String> = m
        .segments
        .iter()
        .map(|s| format!("(id={}, key={}, records={})", s.id, s.key, s.record_count))
        .collect();
    format!(
        "version={} next_segment_id={} segments=[{}]",
        m.version,
        m.next_segment_id,
        segs.join(", ")
    )
}

fn recovered_keys(r: &Result<RecoveredState, RecoveryError>) -> Vec<String> {
    match r {
        Ok(st) => {
            let mut v: Vec<String> = st
                .deltas
                .iter()
                .map(|d| format!("{}={}", d.key, d.value.get().map(|s| s.to_string()).unwrap_or_default()))
                .collect();
            v.sort();
            v
        }
        Err(_) => Vec::new(),
    }
}

fn show_recovery(r: &Result<RecoveredState, RecoveryError>) -> String {
    match r {
        Ok(st) => format!(
            "Ok: segments_loaded={} deltas={:?}",
            st.stats.segments_loaded,
            recovered_keys(r)
        ),
        Err(e) => format!("Err({})", e),
    }
}

fn compaction_cfg() -> CompactionConfig {
    CompactionConfig {
        target_segment_size: 1 << 20,
        max_segments: 10,
        min_segments_to_compact: 2,
        max_segments_per_compaction: 10,
        tombstone_ttl: Duration::from_secs(24 * 3600),
        compression_enabled: false,
    }
}

/// Write three segments through the real StreamingPersistence (push + flush).
/// seg0: a1,a2   seg1: b1,b2,b3   seg2: c1
async fn write_three_segments(
    inner: &InMemoryObjectStore,
    prefix: &str,
) -> StreamingPersistence<InMemoryObjectStore> {
    let store = Arc::new(inner.clone());
    let mut p = StreamingPersistence::new(store, prefix.to_string(), 1, WriteBufferConfig::test())
        .await
        .unwrap();
    let groups: Vec<Vec<(&str, &str, u64)>> = vec![
        vec![("a1", "va1", 101), ("a2", "va2", 102)],
        vec![("b1", "vb1", 201), ("b2", "vb2", 202), ("b3", "vb3", 203)],
        vec![("c1", "vc1", 301)],
    ];
    for g in groups {
        for (k, v, ts) in g {
            p.push(mk_delta(k, v, ts)).unwrap();
        }
        let fr = p.flush().await.unwrap();
        assert!(fr.segment.is_some());
    }
    p
}

/// Overwrite the bincode String length of the key of record `record_index`
/// with 1_000_000 so that this one record fails to decode; optionally re-seal
/// the footer CRC so header/footer still validate.
fn damage_record(seg: &mut [u8], record_index: usize, reseal_crc: bool) {
    const HEADER: usize = 40;
    const FOOTER: usize = 24;
    let footer_start = seg.len() - FOOTER;
    let mut off = HEADER;
    for _ in 0..record_index {
        let len = u32::from_le_bytes(seg[off..off + 4].try_into().unwrap()) as usize;
        off += 4 + len;
    }
    let payload = off + 4;
    seg[payload..payload + 8].copy_from_slice(&1_000_000u64.to_le_bytes());
    if reseal_crc {
        let crc = crc32fast::hash(&seg[HEADER..footer_start]);
        seg[footer_start..footer_start + 4].copy_from_slice(&crc.to_le_bytes());
    }
}

async fn b1_run(reseal_crc: bool) -> (Vec<String>, Manifest, bool) {
    let prefix = if reseal_crc { "b1" } else { "b1ctl" };
    let inner = InMemoryObjectStore::new();
    let p = write_three_segments(&inner, prefix).await;
    let mm = ManifestManager::new(inner.clone(), prefix);
    let before = mm.load().await.unwrap();
    println!("manifest before: {}", show_manifest(&before));
    drop(p);

    let rec = RecoveryManager::new(inner.clone(), prefix, 1);
    println!("recovery (undamaged): {}", show_recovery(&rec.recover().await));

    // damage record #1 (key b2) of segment id 1
    let seg1_key = before.segments[1].key.clone();
    let mut bytes = inner.get(&seg1_key).await.unwrap();
    damage_record(&mut bytes, 1, reseal_crc);
    inner.put(&seg1_key, &bytes).await.unwrap();

    let reader = SegmentReader::open(&bytes);
    match &reader {
        Ok(r) => {
            println!("damaged {}: open=Ok validate={:?}", seg1_key, r.validate().map_err(|e| e.to_string()));
            for (i, d) in r.deltas().unwrap().enumerate() {
                match d {
                    Ok(d) => println!("   record {} -> Ok(key={})", i, d.key),
                    Err(e) => println!("   record {} -> Err({})", i, e),
                }
            }
        }
        Err(e) => println!("damaged {}: open=Err({})", seg1_key, e),
    }

    println!("recovery before compaction: {}", show_recovery(&rec.recover().await));

    let mut compactor = Compactor::new(
        Arc::new(inner.clone()),
        prefix.to_string(),
        ManifestManager::new(inner.clone(), prefix),
        compaction_cfg(),
    );
    let res = compactor.compact().await;
    match &res {
        Ok(r) => println!(
            "compact -> Ok: removed ids {:?}, created {:?}, deltas_before={} deltas_after={}",
            r.segments_removed.iter().map(|s| s.id).collect::<Vec<_>>(),
            r.segment_created.as_ref().map(|s| (s.id, s.record_count)),
            r.deltas_before,
            r.deltas_after
        ),
        Err(e) => println!("compact -> Err({})", e),
    }
    let after = mm.load().await.unwrap();
    println!("manifest after : {}", show_manifest(&after));
    let seg1_exists = inner.exists(&seg1_key).await.unwrap();
    println!("damaged segment object {} still in store: {}", seg1_key, seg1_exists);
    let rec_after = rec.recover().await;
    println!("recovery after compaction : {}", show_recovery(&rec_after));
    (recovered_keys(&rec_after), after, seg1_exists)
}

/// B1: one undecodable record inside an otherwise valid segment.
#[tokio::test]
async fn b1_compaction_drops_undecodable_record_and_deletes_segment() {
    println!("\n===== B1 ===== (record b2 made undecodable, footer CRC re-sealed so header/footer validate)");
    let (keys, after, seg1_exists) = b1_run(true).await;
    assert!(!keys.iter().any(|k| k.starts_with("b2=")), "b2 vanished");
    for k in ["a1=va1", "a2=va2", "b1=vb1", "b3=vb3", "c1=vc1"] {
        assert!(keys.iter().any(|x| x == k), "{} carried over", k);
    }
    assert!(!after.segments.iter().any(|s| s.id == 1), "damaged segment gone from manifest");
    assert!(!seg1_exists, "damaged segment object deleted");
    println!("B1 RESULT: REPRODUCED (compact Ok; b2 silently gone; b1,b3 carried; damaged segment removed from manifest and deleted; recovery went from Err to Ok-without-b2)");

    println!("----- B1 control: same damage WITHOUT re-sealing the CRC (checksum catches it) -----");
    let (keys, after, seg1_exists) = b1_run(false).await;
    println!(
        "B1 control: damaged segment kept in manifest: {}, object kept: {}, recovered keys: {:?}",
        after.segments.iter().any(|s| s.id == 1),
        seg1_exists,
        keys
    );
}

struct B2Outcome {
    seed: u64,
    failed_gets: u64,
    before: Manifest,
    after: Manifest,
    removed_ids: Vec<u64>,
    created: Option<(u64, u32)>,
    rec_before: Vec<String>,
    rec_after: String,
    rec_after_keys: Vec<String>,
    objects_after: Vec<(String, bool)>,
    stderr_hint: String,
}

async fn b2_try(seed: u64) -> Option<B2Outcome> {
    let prefix = "b2";
    let inner = InMemoryObjectStore::new();
    let p = write_three_segments(&inner, prefix).await;
    drop(p);
    let mm_plain = ManifestManager::new(inner.clone(), prefix);
    let before = mm_plain.load().await.unwrap();
    let rec = RecoveryManager::new(inner.clone(), prefix, 1);
    let rec_before = recovered_keys(&rec.recover().await);

    // Segment reads go through a SimulatedObjectStore with get_fail_prob = 0.4
    // (transient: the object is still in the inner store).  The manifest manager
    // uses a fault-free SimulatedObjectStore over the same inner store.
    let mut faulty_cfg = SimulatedStoreConfig::no_faults();
    faulty_cfg.get_fail_prob = 0.4;
    let faulty: Sim = SimulatedObjectStore::new(inner.clone(), SimulatedRng::new(seed), faulty_cfg);
    let clean: Sim = SimulatedObjectStore::new(
        inner.clone(),
        SimulatedRng::new(seed ^ 0xdead_beef),
        SimulatedStoreConfig::no_faults(),
    );
    let faulty = Arc::new(faulty);
    let mut compactor = Compactor::new(
        faulty.clone(),
        prefix.to_string(),
        ManifestManager::new(clean, prefix),
        compaction_cfg(),
    );
    println!("-- seed {}: running compact() (stderr lines 'Segment .. missing' below belong to this seed)", seed);
    let res = compactor.compact().await;
    let stats = faulty.stats();
    if stats.get_failures != 1 {
        println!("-- seed {}: {} of 3 segment gets failed -> skip (want exactly 1)", seed, stats.get_failures);
        return None; // want exactly one transient read failure
    }
    let res = match res {
        Ok(r) => r,
        Err(e) => {
            println!("seed {}: compact -> Err({})", seed, e);
            return None;
        }
    };
    let after = mm_plain.load().await.unwrap();
    let rec_after_r = rec.recover().await;
    let mut objects_after = Vec::new();
    for s in &before.segments {
        objects_after.push((s.key.clone(), inner.exists(&s.key).await.unwrap()));
    }
    Some(B2Outcome {
        seed,
        failed_gets: stats.get_failures,
        before,
        after,
        removed_ids: res.segments_removed.iter().map(|s| s.id).collect(),
        created: res.segment_created.as_ref().map(|s| (s.id, s.record_count)),
        rec_before,
        rec_after: show_recovery(&rec_after_r),
        rec_after_keys: recovered_keys(&rec_after_r),
        objects_after,
        stderr_hint: format!("get_attempts={} get_failures={}", stats.get_attempts, stats.get_failures),
    })
}

/// B2: transient store.get failure for one segment during compaction.
#[tokio::test]
async fn b2_transient_get_failure_during_compaction() {
    println!("\n===== B2 =====");
    let mut outcome = None;
    for seed in 0..500u64 {
        if let Some(o) = b2_try(seed).await {
            outcome = Some(o);
            break;
        }
    }
    let o = outcome.expect("no seed in 0..500 produced exactly one failed segment get");
    println!("seed {} -> exactly {} simulated get failure(s) on segment reads ({})", o.seed, o.failed_gets, o.stderr_hint);
    println!("manifest before: {}", show_manifest(&o.before));
    println!("recovery before: {:?}", o.rec_before);
    println!("compact -> Ok: removed ids {:?}, created (id,records) {:?}", o.removed_ids, o.created);
    println!("manifest after : {}", show_manifest(&o.after));
    println!("old segment objects still present after compaction: {:?}", o.objects_after);
    println!("recovery after : {}", o.rec_after);
    let lost: Vec<&String> = o.rec_before.iter().filter(|k| !o.rec_after_keys.contains(k)).collect();
    println!("keys lost by compaction: {:?}  (a*=segment 0, b*=segment 1, c*=segment 2)", lost);

    // defective behaviour: the unread segment is dropped from the manifest, its
    // object deleted, its keys are gone.
    assert_eq!(o.removed_ids.len(), 3, "all three segments (incl. the unread one) reported removed");
    assert_eq!(o.after.segments.len(), 1);
    assert!(o.objects_after.iter().all(|(_, present)| !present), "all old objects deleted, incl. the unread one");
    assert!(!lost.is_empty(), "keys of the unread segment are lost");
    println!("B2 RESULT: REPRODUCED - the segment whose get failed transiently is DROPPED from the manifest AND its object is deleted; its keys are lost on recovery");
}

/// B3: compaction's manifest read-modify-write races with a flush.
/// This is a REAL concurrent run of Compactor::compact() and
/// StreamingPersistence::flush(): the compactor reads segments through a
/// SimulatedObjectStore with 300ms latency per operation (manifest I/O has no
/// latency), so the flush (started at t=100ms) completes between compact's
/// manifest load and compact's manifest save.
#[tokio::test]
async fn b3_compaction_overwrites_concurrent_flush() {
    println!("\n===== B3 =====");
    let prefix = "b3";
    let inner = InMemoryObjectStore::new();
    let mut p = write_three_segments(&inner, prefix).await;
    let mm_plain = ManifestManager::new(inner.clone(), prefix);
    println!("manifest before: {}", show_manifest(&mm_plain.load().await.unwrap()));

    let mut slow_cfg = SimulatedStoreConfig::no_faults();
    slow_cfg.latency_range_us = (300_000, 300_000);
    let slow: Sim = SimulatedObjectStore::new(inner.clone(), SimulatedRng::new(1), slow_cfg);
    let fast: Sim = SimulatedObjectStore::new(inner.clone(), SimulatedRng::new(2), SimulatedStoreConfig::no_faults());
    let mut compactor = Compactor::new(
        Arc::new(slow),
        prefix.to_string(),
        ManifestManager::new(fast, prefix),
        compaction_cfg(),
    );

    let t0 = Instant::now();
    let compact_fut = async {
        let r = compactor.compact().await;
        println!("[t={:>4}ms] compact() returned", t0.elapsed().as_millis());
        r
    };
    let mm_probe = mm_plain.clone();
    let flush_fut = async {
        tokio::time::sleep(Duration::from_millis(100)).await;
        p.push(mk_delta("new_key", "new_val", 401)).unwrap();
        let r = p.flush().await;
        println!("[t={:>4}ms] flush() returned {:?}", t0.elapsed().as_millis(), r.as_ref().map(|f| f.segment.as_ref().map(|s| (s.id, s.key.clone()))).map_err(|e| e.to_string()));
        println!("[t={:>4}ms] manifest right after flush: {}", t0.elapsed().as_millis(), show_manifest(&mm_probe.load().await.unwrap()));
        let rec = RecoveryManager::new(inner.clone(), prefix, 1);
        println!("[t={:>4}ms] recovery right after flush: {}", t0.elapsed().as_millis(), show_recovery(&rec.recover().await));
        r
    };
    let (cres, fres) = tokio::join!(compact_fut, flush_fut);
    let fres = fres.expect("flush acknowledged Ok");
    let cres = cres.expect("compact Ok");
    let flushed = fres.segment.clone().unwrap();
    println!(
        "compact result: removed ids {:?}, created {:?}",
        cres.segments_removed.iter().map(|s| s.id).collect::<Vec<_>>(),
        cres.segment_created.as_ref().map(|s| (s.id, s.key.clone(), s.record_count))
    );

    let final_manifest = mm_plain.load().await.unwrap();
    println!("manifest final : {}", show_manifest(&final_manifest));
    let rec = RecoveryManager::new(inner.clone(), prefix, 1);
    let rr = rec.recover().await;
    println!("recovery final : {}", show_recovery(&rr));
    let keys = recovered_keys(&rr);
    let created = cres.segment_created.clone().unwrap();
    println!(
        "flushed segment id/key = {}/{} ; compacted segment id/key = {}/{} (same object key: {})",
        flushed.id, flushed.key, created.id, created.key, flushed.key == created.key
    );

    assert!(!keys.iter().any(|k| k.starts_with("new_key=")), "acknowledged flushed key lost");
    assert_eq!(final_manifest.segments.len(), 1);
    assert_eq!(final_manifest.segments[0].record_count, 6, "only the 6 old records");
    println!("B3 RESULT: REPRODUCED (flush returned Ok and was visible; after compact's stale manifest save the flushed segment is gone; new_key not recovered)");
}

// ---------------------------------------------------------------------------
// C. legacy WriteBuffer
// ---------------------------------------------------------------------------

#[tokio::test]
async fn c_write_buffer_loses_deltas_on_failed_flush() {
    println!("\n===== C =====");
    let inner = InMemoryObjectStore::new();
    let mut cfg = SimulatedStoreConfig::no_faults();
    cfg.put_fail_prob = 1.0;
    let store: Sim = SimulatedObjectStore::new(inner.clone(), SimulatedRng::new(7), cfg);
    let wb = WriteBuffer::new(Arc::new(store), "c".to_string(), WriteBufferConfig::test());

    wb.push(mk_delta("ck", "cv", 1)).unwrap();
    println!("after push : pending_count={} pending_bytes={}", wb.pending_count(), wb.pending_bytes());
    let r = wb.flush().await;
    println!("flush      -> {:?}", r.as_ref().map_err(|e| e.to_string()));
    println!("after flush: pending_count={} pending_bytes={} stats={:?}", wb.pending_count(), wb.pending_bytes(), wb.stats());
    let r2 = wb.flush().await;
    println!("2nd flush  -> {:?} ; objects in store: {}", r2.as_ref().map_err(|e| e.to_string()), inner.len());

    assert!(r.is_err());
    assert_eq!(wb.pending_count(), 0);
    assert!(matches!(r2, Ok(None)));
    assert_eq!(inner.len(), 0);
    println!("C RESULT: REPRODUCED (flush Err, buffered delta discarded, nothing in store, total_deltas_flushed={})", wb.stats().total_deltas_flushed);
}

// ---------------------------------------------------------------------------
// D. connection fast path
// ---------------------------------------------------------------------------

fn esc(b: &[u8]) -> String {
    let mut s = String::new();
    for &c in b {
        match c {
            b'\r' => s.push_str("\\r"),
            b'\n' => s.push_str("\\n"),
            0x20..=0x7e => s.push(c as char),
            _ => s.push_str(&format!("\\x{:02x}", c)),
        }
    }
    s
}

async fn roundtrip(stream: &mut tokio::net::TcpStream, req: &[u8], expect_lines: usize) -> Vec<u8> {
    use tokio::io::{AsyncReadExt, AsyncWriteExt};
    stream.write_all(req).await.unwrap();
    stream.flush().await.unwrap();
    let mut out = Vec::new();
    let mut buf = [0u8; 4096];
    let deadline = Instant::now() + Duration::from_millis(1500);
    loop {
        let lines = out.iter().filter(|&&c| c == b'\n').count();
        if lines >= expect_lines || Instant::now() > deadline {
            break;
        }
        match tokio::time::timeout(Duration::from_millis(300), stream.read(&mut buf)).await {
            Ok(Ok(0)) => break,
            Ok(Ok(n)) => out.extend_from_slice(&buf[..n]),
            Ok(Err(_)) => break,
            Err(_) => {}
        }
    }
    out
}

#[tokio::test(flavor = "multi_thread", worker_threads = 2)]
async fn d_fast_path_accepts_malformed_set_frame() {
    println!("\n===== D =====");
    println!("len(\"*3\\r\\n$3\\r\\nSET\\r\\n\") = {}", b"*3\r\n$3\r\nSET\r\n".len());

    let malformed: &[u8] = b"*3\r\n$3\r\nSET\r\nZ$1\r\nk\r\n$1\r\nv\r\n";
    let wellformed: &[u8] = b"*3\r\n$3\r\nSET\r\n$2\r\nk2\r\n$1\r\nw\r\n";

    // what the repo's own generic parsers say about the malformed frame
    let mut bm = bytes::BytesMut::from(malformed);
    let codec = RespCodec::parse(&mut bm);
    println!("RespCodec::parse(malformed)  -> {}", match &codec { Ok(Some(_)) => "Ok(Some(..))".to_string(), Ok(None) => "Ok(None)".to_string(), Err(e) => format!("Err({})", e) });
    let legacy = RespParser::parse(malformed);
    println!("RespParser::parse(malformed) -> {}", match &legacy { Ok((v, n)) => format!("Ok({:?}, consumed {})", v, n), Err(e) => format!("Err({})", e) });

    // start the real server on a loopback port
    let port = {
        let l = std::net::TcpListener::bind("127.0.0.1:0").unwrap();
        l.local_addr().unwrap().port()
    };
    let addr = format!("127.0.0.1:{}", port);
    let addr_srv = addr.clone();
    std::thread::spawn(move || {
        let rt = tokio::runtime::Builder::new_multi_thread()
            .worker_threads(2)
            .enable_all()
            .build()
            .unwrap();
        rt.block_on(async move {
            let r = OptimizedRedisServer::new(addr_srv).run().await;
            eprintln!("server exited: {:?}", r.map_err(|e| e.to_string()));
        });
    });
    let mut stream = None;
    for _ in 0..100 {
        match tokio::net::TcpStream::connect(&addr).await {
            Ok(s) => {
                stream = Some(s);
                break;
            }
            Err(_) => tokio::time::sleep(Duration::from_millis(50)).await,
        }
    }
    let mut stream = stream.expect("could not connect to server");
    stream.set_nodelay(true).unwrap();

    let ping = roundtrip(&mut stream, b"*1\r\n$4\r\nPING\r\n", 1).await;
    println!("PING                       -> {}", esc(&ping));

    let get0 = roundtrip(&mut stream, b"*2\r\n$3\r\nGET\r\n$1\r\nk\r\n", 1).await;
    println!("GET k (before)             -> {}", esc(&get0));

    let r_bad = roundtrip(&mut stream, malformed, 1).await;
    println!("send {}  -> {}", esc(malformed), esc(&r_bad));
    let get1 = roundtrip(&mut stream, b"*2\r\n$3\r\nGET\r\n$1\r\nk\r\n", 2).await;
    println!("GET k (after malformed)    -> {}", esc(&get1));

    let r_ok = roundtrip(&mut stream, wellformed, 1).await;
    println!("send {}  -> {}", esc(wellformed), esc(&r_ok));
    let get2 = roundtrip(&mut stream, b"*2\r\n$3\r\nGET\r\n$2\r\nk2\r\n", 2).await;
    println!("GET k2                     -> {}", esc(&get2));

    // malformed GET counterpart (same HEADER_LEN = 14 in try_fast_get)
    let r_badget = roundtrip(&mut stream, b"*2\r\n$3\r\nGET\r\nZ$1\r\nk\r\n", 2).await;
    println!("send *2\\r\\n$3\\r\\nGET\\r\\nZ$1\\r\\nk\\r\\n -> {}", esc(&r_badget));

    // pipelined: 6 malformed SETs in one write (>= min_pipeline_buffer=70, batch_threshold=6
    // from perf_config.toml) -> collect_set_pairs
    let mut pipe = Vec::new();
    for i in 0..6 {
        pipe.extend_from_slice(format!("*3\r\n$3\r\nSET\r\nZ$2\r\np{}\r\n$1\r\n{}\r\n", i, i).as_bytes());
    }
    let r_pipe = roundtrip(&mut stream, &pipe, 6).await;
    println!("6 pipelined malformed SETs ({} bytes) -> {}", pipe.len(), esc(&r_pipe));
    let get3 = roundtrip(&mut stream, b"*2\r\n$3\r\nGET\r\n$2\r\np5\r\n", 2).await;
    println!("GET p5                     -> {}", esc(&get3));

    assert!(codec.is_err() || legacy.is_err(), "generic parser rejects the malformed frame");
    assert_eq!(esc(&get0), "$-1\\r\\n");
    assert_eq!(esc(&r_bad), "+OK\\r\\n", "malformed frame answered +OK");
    assert_eq!(esc(&get1), "$1\\r\\nv\\r\\n", "malformed frame set k=v");
    assert_eq!(esc(&r_ok), "+OK\\r\\n");
    assert_eq!(esc(&get2), "$1\\r\\nw\\r\\n");
    println!("D RESULT: REPRODUCED (malformed frame with stray 'Z' -> +OK and k=v; generic parser rejects the same bytes)");
}

// ---------------------------------------------------------------------------
// B4. mirror image of B3: the flush's manifest read-modify-write is the slow one
// ---------------------------------------------------------------------------

/// REAL concurrent run of StreamingPersistence::flush() and Compactor::compact().
///
/// StreamingPersistence builds its ManifestManager from the same store it uses
/// for segment objects, so the 300ms simulated latency applies to all of the
/// flush's get/put calls (SimulatedObjectStore sleeps *before* touching the
/// inner store; rename has no latency).  Flush timeline (t relative to flush start):
///   t=300  manifest reload (inner.get)        <- write_segment: load_or_create
///   t=600  segment object put
///   t=900  manifest save (put tmp + rename)   <- write_segment: manifest_manager.save
/// The compactor uses zero-latency stores over the same inner store and runs a
/// complete compact() at `compact_at_ms`.
async fn b4_run(compact_at_ms: u64) -> (Manifest, Result<RecoveredState, RecoveryError>, Vec<(String, bool)>) {
    let prefix = "b4";
    let inner = InMemoryObjectStore::new();
    let p0 = write_three_segments(&inner, prefix).await;
    drop(p0);
    let mm_plain = ManifestManager::new(inner.clone(), prefix);
    let before = mm_plain.load().await.unwrap();
    println!("manifest before: {}", show_manifest(&before));

    let mut slow_cfg = SimulatedStoreConfig::no_faults();
    slow_cfg.latency_range_us = (300_000, 300_000);
    let slow: Sim = SimulatedObjectStore::new(inner.clone(), SimulatedRng::new(11), slow_cfg);
    let mut p: StreamingPersistence<Sim> =
        StreamingPersistence::new(Arc::new(slow), prefix.to_string(), 1, WriteBufferConfig::test())
            .await
            .unwrap();

    let fast_a: Sim = SimulatedObjectStore::new(inner.clone(), SimulatedRng::new(12), SimulatedStoreConfig::no_faults());
    let fast_b: Sim = SimulatedObjectStore::new(inner.clone(), SimulatedRng::new(13), SimulatedStoreConfig::no_faults());
    let mut compactor = Compactor::new(
        Arc::new(fast_a),
        prefix.to_string(),
        ManifestManager::new(fast_b, prefix),
        compaction_cfg(),
    );

    p.push(mk_delta("new_key", "new_val", 401)).unwrap();
    let t0 = Instant::now();
    let mm_probe = mm_plain.clone();
    let inner_probe = inner.clone();
    let flush_fut = async {
        let r = p.flush().await;
        println!(
            "[t={:>4}ms] flush() returned {:?}",
            t0.elapsed().as_millis(),
            r.as_ref()
                .map(|f| f.segment.as_ref().map(|s| (s.id, s.key.clone(), s.record_count)))
                .map_err(|e| e.to_string())
        );
        r
    };
    let compact_fut = async {
        tokio::time::sleep(Duration::from_millis(compact_at_ms)).await;
        println!("[t={:>4}ms] compact() starting", t0.elapsed().as_millis());
        let r = compactor.compact().await;
        println!(
            "[t={:>4}ms] compact() returned {:?}",
            t0.elapsed().as_millis(),
            r.as_ref()
                .map(|c| (
                    c.segments_removed.iter().map(|s| s.id).collect::<Vec<_>>(),
                    c.segment_created.as_ref().map(|s| (s.id, s.key.clone(), s.record_count))
                ))
                .map_err(|e| e.to_string())
        );
        println!(
            "[t={:>4}ms] manifest right after compact: {}",
            t0.elapsed().as_millis(),
            show_manifest(&mm_probe.load().await.unwrap())
        );
        let rec = RecoveryManager::new(inner_probe.clone(), prefix, 1);
        println!(
            "[t={:>4}ms] recovery right after compact: {}",
            t0.elapsed().as_millis(),
            show_recovery(&rec.recover().await)
        );
        r
    };
    let (fres, cres) = tokio::join!(flush_fut, compact_fut);
    let fres = fres.expect("flush acknowledged Ok");
    let cres = cres.expect("compact Ok");

    let final_manifest = mm_plain.load().await.unwrap();
    println!("manifest final : {}", show_manifest(&final_manifest));
    let mut objects = Vec::new();
    for s in &final_manifest.segments {
        let present = inner.exists(&s.key).await.unwrap();
        let records = if present {
            let data = inner.get(&s.key).await.unwrap();
            SegmentReader::open(&data)
                .ok()
                .and_then(|r| r.read_all().ok())
                .map(|d| d.iter().map(|x| x.key.clone()).collect::<Vec<_>>())
        } else {
            None
        };
        println!("   listed segment id={} key={} object present={} keys in object={:?}", s.id, s.key, present, records);
        objects.push((s.key.clone(), present));
    }
    let flushed = fres.segment.clone().unwrap();
    let created = cres.segment_created.clone().unwrap();
    println!(
        "flushed segment id/key = {}/{} ; compacted segment id/key = {}/{} (same object key: {})",
        flushed.id, flushed.key, created.id, created.key, flushed.key == created.key
    );
    let rec = RecoveryManager::new(inner.clone(), prefix, 1);
    let rr = rec.recover().await;
    println!("recovery final : {}", show_recovery(&rr));
    (final_manifest, rr, objects)
}

#[tokio::test]
async fn b4_flush_resurrects_segments_deleted_by_concurrent_compaction() {
    println!("\n===== B4 (compact between flush's manifest reload and flush's segment put, t=450ms) =====");
    let (m, rr, objects) = b4_run(450).await;
    let ids: Vec<u64> = m.segments.iter().map(|s| s.id).collect();
    assert_eq!(ids, vec![0, 1, 2, 3], "stale manifest + new segment saved by flush");
    for (k, present) in &objects[..3] {
        assert!(!present, "{} was deleted by compaction but is listed again", k);
    }
    assert!(rr.is_err(), "recovery fails on a re-listed deleted segment");
    println!("B4 RESULT (t=450): REPRODUCED (final manifest re-lists deleted segments 0,1,2; recovery = {})", show_recovery(&rr));

    println!("\n===== B4 variant (compact between flush's segment put and flush's manifest save, t=750ms) =====");
    let (m, rr, objects) = b4_run(750).await;
    let ids: Vec<u64> = m.segments.iter().map(|s| s.id).collect();
    assert_eq!(ids, vec![0, 1, 2, 3]);
    for (k, present) in &objects[..3] {
        assert!(!present, "{} was deleted by compaction but is listed again", k);
    }
    assert!(rr.is_err());
    println!("B4 RESULT (t=750): REPRODUCED (final manifest re-lists deleted segments 0,1,2; recovery = {})", show_recovery(&rr));
}
