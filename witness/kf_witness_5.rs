//! Witness for the C08 finding "compaction drops the tombstone that carried the node's highest stamp".
//!
//! C08: "stamps issued by one node never repeat or decrease ... across crash and recovery from checkpoint,
//! segments or WAL".  The shard clocks are not persisted; after a restart they are re-derived from the
//! recovered values.  Compaction's tombstone GC removes the deleted key's delta (and everything it shadowed)
//! from the segments, and with it the stamp of the node's own DEL.  After a restart from the compacted
//! segments the node stamps a new write of that key *below* the delete its peer still holds: the peer refuses
//! the acknowledged write.  Default production constructors, nothing under src/ modified.
//! Place under tests/ and run:  cargo test --offline --test kf_witness_5 -- --nocapture

use redis_sim::production::ReplicatedShardedState;
use redis_sim::redis::{Command, RespValue, SDS};
use redis_sim::replication::{ReplicationConfig, ReplicationDelta};
use redis_sim::streaming::{
    CompactionConfig, Compactor, InMemoryObjectStore, ManifestManager, StreamingConfig, StreamingIntegration,
    StreamingPersistence, WriteBufferConfig,
};
use std::sync::Arc;
use std::time::Duration;

fn config(replica_id: u64) -> ReplicationConfig {
    ReplicationConfig { replica_id, enabled: false, ..Default::default() }
}

async fn get(state: &ReplicatedShardedState, key: &str) -> Option<Vec<u8>> {
    match state.execute(Command::Get(key.to_string())).await {
        RespValue::BulkString(v) => v,
        other => panic!("unexpected GET reply: {:?}", other),
    }
}

fn newest<'a>(deltas: &'a [ReplicationDelta], key: &str) -> &'a ReplicationDelta {
    deltas.iter().filter(|d| d.key == key).max_by_key(|d| d.value.timestamp).expect("delta for key")
}

#[tokio::test]
async fn rewrite_after_restart_from_compacted_segments_beats_own_earlier_delete() {
    const KEY: &str = "session:42";
    let prefix = StreamingConfig::test().prefix;
    let node = ReplicatedShardedState::new(config(1));
    let peer = ReplicatedShardedState::new(config(2));

    // first life: the key is written three times and deleted (the delete is the newest operation of its shard)
    node.execute(Command::set(KEY.to_string(), SDS::from_str("v1"))).await;
    node.execute(Command::set(KEY.to_string(), SDS::from_str("v2"))).await;
    node.execute(Command::set(KEY.to_string(), SDS::from_str("v3"))).await;
    node.execute(Command::del(KEY.to_string())).await;
    let first_life = node.collect_pending_deltas().await;
    let delete_stamp = newest(&first_life, KEY).value.timestamp;
    assert!(newest(&first_life, KEY).value.is_tombstone());
    peer.apply_remote_deltas(first_life.clone());
    tokio::time::sleep(Duration::from_millis(50)).await;
    assert_eq!(get(&peer, KEY).await, None);

    // the deltas are persisted in two segments, then compacted with the default tombstone TTL (24 h)
    let store = Arc::new(InMemoryObjectStore::new());
    let mut p = StreamingPersistence::new(store.clone(), prefix.clone(), 1, WriteBufferConfig::test()).await.unwrap();
    let half = first_life.len() / 2;
    for (i, d) in first_life.iter().enumerate() {
        p.push(d.clone()).unwrap();
        if i + 1 == half {
            assert!(p.flush().await.unwrap().segment.is_some());
        }
    }
    assert!(p.flush().await.unwrap().segment.is_some());
    let mut cfg = CompactionConfig::test();
    cfg.tombstone_ttl = CompactionConfig::default().tombstone_ttl;
    let mut compactor = Compactor::new(store.clone(), prefix.clone(), ManifestManager::new((*store).clone(), &prefix), cfg);
    let res = compactor.compact().await.unwrap();
    println!("compaction: {} deltas before, {} after, tombstones removed {}", res.deltas_before, res.deltas_after, res.tombstones_removed);
    drop(node); // crash

    // second life: recover from the compacted segments, write the key again
    let node = ReplicatedShardedState::new(config(1));
    let integration = StreamingIntegration::with_store(store.clone(), StreamingConfig::test(), 1);
    integration.recover(&node).await.unwrap();
    let reply = node.execute(Command::set(KEY.to_string(), SDS::from_str("back"))).await;
    assert!(matches!(reply, RespValue::SimpleString(_)), "{:?}", reply);
    let second_life = node.collect_pending_deltas().await;
    let rewrite_stamp = newest(&second_life, KEY).value.timestamp;
    peer.apply_remote_deltas(second_life);
    tokio::time::sleep(Duration::from_millis(50)).await;
    println!("stamp of the node's DEL before the restart: {:?}\nstamp of its acknowledged SET after the restart: {:?}", delete_stamp, rewrite_stamp);
    println!("node serves {:?}, peer serves {:?}", get(&node, KEY).await, get(&peer, KEY).await);
    assert!(rewrite_stamp > delete_stamp, "post-restart write stamped {:?}, not above the node's own pre-restart delete {:?}", rewrite_stamp, delete_stamp);
}
