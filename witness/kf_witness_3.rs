//! Witness for the C18 finding "a bounded selection from a stable iteration order makes no progress".
//!
//! C18: "... completing in finitely many rounds under the per-round key limit."
//!
//! `AntiEntropyManager::get_keys_in_buckets` / `handle_sync_request` select
//! `keys.iter().filter(bucket is divergent).take(max_keys_per_sync)`: the first `limit` keys, in the map's
//! iteration order, of *all* keys stored in the divergent buckets - whether or not the peer already has them.
//! The selection is a pure function of (map, divergent buckets).  When the divergent buckets hold more keys
//! than the limit and none of the keys that actually differ is among the first `limit`, a round changes
//! nothing, so the next round selects exactly the same keys: the exchange never completes.
//!
//! Default configuration (256 buckets, limit 1000), 300 000 shared keys (~1170 per bucket), 48 keys written
//! during a partition.  Place under tests/ and run:  cargo test --offline --test kf_witness_3 -- --nocapture

use redis_sim::redis::{Command, SDS};
use redis_sim::simulator::multi_node::MultiNodeSimulation;

const COMMON_KEYS: usize = 300_000;
const LATE_KEYS: usize = 48;

#[test]
fn sync_completes_in_finitely_many_rounds_under_the_limit() {
    let mut sim = MultiNodeSimulation::new(2, 7);
    for i in 0..COMMON_KEYS {
        sim.execute(1, 0, Command::set(format!("user:{}", i), SDS::from_str("v")));
    }
    let _ = sim.nodes[0].drain_deltas();
    let snapshot = sim.nodes[0].get_all_deltas();
    sim.nodes[1].apply_remote_deltas(snapshot);
    assert!(!sim.nodes[0].generate_digest().differs_from(&sim.nodes[1].generate_digest()), "precondition: equal states");
    assert_eq!(sim.nodes[0].anti_entropy.config.max_keys_per_sync, 1000, "default per-round limit");

    sim.partition(0, 1);
    for i in 0..LATE_KEYS {
        sim.execute(2, 0, Command::set(format!("late:{}", i), SDS::from_str("late")));
    }
    sim.converge(10);
    sim.heal_partition(0, 1);

    let missing = |sim: &MultiNodeSimulation| -> usize {
        (0..LATE_KEYS).filter(|i| sim.nodes[1].get_replicated_value(&format!("late:{}", i)).is_none()).count()
    };
    let mut history = vec![missing(&sim)];
    for _ in 0..30 {
        sim.run_full_anti_entropy();
        history.push(missing(&sim));
    }
    println!("keys still missing on node 1 after each round: {:?}", history);
    let last = *history.last().unwrap();
    assert_eq!(last, 0, "after 30 further rounds node 1 still lacks {} of the {} keys written during the partition \
                        (missing per round: {:?})", last, LATE_KEYS, history);
}
