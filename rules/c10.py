"""C10 — WAL recovery yields only intact appended entries; truncation keeps newer ones."""
import re
from .facts import callee, op_place, op_local
from .lib import src_of_operand, src_of_place, is_callee, TRANSPARENT, switch_info
from . import lib2

W = "streaming::wal::"


def _tag(cfg):
    return "" if cfg == "default" else "@" + cfg


def run(ck, ctx):
    ck.rule("R10.1", "validate-before-yield: every WalEntry aggregate built from input bytes is dominated by the length test "
                     "(input len >= overhead+data_len via checked_add) and by the equal-edge of a comparison between "
                     "crc32fast::hash(<the data it returns>) and the stored checksum; WalReader::entries obtains entries only "
                     "from WalEntry::decode, stops at the first None and advances by the consumed size")
    ck.rule("R10.2", "checksum coverage: every WalEntry field decoded from input bytes and returned to callers is covered by the CRC")
    ck.rule("R10.3", "a bad file does not hide others: in the per-file loops of recover_all_entries the Err edges of open_read / "
                     "WalReader::open continue the loop (no return), files are sorted by parsed sequence before reading")
    ck.rule("R10.4", "truncation guards: every WalStore::delete in truncate_before is guarded by `name != current file` and by "
                     "(entries.is_empty() or max(entries.timestamp) <= up_to_timestamp) with max taken over all entries")
    ck.rule("R10.6", "acceptance agreement: WalEntry::decode (and any sibling decoder) rejects a frame only for truncation "
                     "(input length tests, checked_add overflow) or checksum mismatch - never for a size/shape limit the writer does "
                     "not enforce, which would end recovery at an entry that was appended and fsynced intact")
    ck.rule("R10.8", "append order is kept: no function of wal.rs reorders recovered entries - no sort*/reverse/swap/rotate/dedup on a "
                     "sequence of WalEntry or ReplicationDelta, no keyed collection of them (stamps come from independent per-shard clocks "
                     "and are neither unique nor monotone inside a file, so any stamp-keyed order differs from the append order); only the "
                     "list of file *names* is sorted (R10.3)")
    ck.rule("R10.9", "the reader decodes the image it read: between WalFileReader::read_all and the decode loop no function of WalReader "
                     "shortens or edits the byte image (no truncate/drain/retain/split_off/resize/clear/pop/remove on it, no trimming of "
                     "'padding'); what ends a file's recovery is decided by WalEntry::decode alone (R10.1) - a heuristic that cuts a tail "
                     "it takes for fill cuts into an intact entry whose payload happens to end that way")
    from . import bounds as _bounds
    ck.rule("R10.7", _bounds.TEXT % "the WAL, segment and checkpoint decoders")
    ck.nd("bit-identity of payloads is delegated to CRC32 (detection probability not analysed)")
    ck.nd("behaviour for every corruption offset / torn length at run time")
    ck.rule("R10.10", NAME_TEXT)
    ck.rule("R10.11", JUDGE_TEXT)
    ck.rule("R10.12", WRITER_SEQ_TEXT)
    for cfg in ctx.configs:
        prog = ctx.prog(cfg)
        ck.configs.append(cfg)
        ck.fn_count += len(prog.fns)
        _r101(ck, prog, cfg)
        _r103(ck, prog, cfg)
        _r104(ck, prog, cfg)
        file_loop_rule(ck, prog, cfg, "R10.3")
        r106(ck, prog, cfg, "R10.6")
        _r108(ck, prog, cfg)
        r109(ck, prog, cfg, "R10.9")
        r1010(ck, prog, cfg, "R10.10")
        r1011(ck, prog, cfg, "R10.11")
        r1012(ck, prog, cfg, "R10.12")
        _bounds.rule(ck, prog, cfg, "R10.7", ("src/streaming/wal.rs",), "a WAL file torn at that offset", floor=6, tag=_tag(cfg))


def _input_derived(fn, operand, depth=0):
    """value computed from bytes of a slice parameter (from_le_bytes of indexed bytes / subslice .to_vec())"""
    s = src_of_operand(fn, operand, through_calls=(r"::to_vec$", r"::clone$", r"Try>::branch$"))
    return s


def _r101(ck, prog, cfg):
    n = 0
    for fn in prog.lib_fns():
        if fn.file != "src/streaming/wal.rs":
            continue
        if fn.d.get("implements") == "std::clone::Clone::clone":
            continue  # derive(Clone): copies an already validated entry field by field
        for b, i, st in fn.stmts():
            rv = st["rv"]
            if not (rv["k"] == "agg" and rv["n"] == "streaming::wal::WalEntry"):
                continue
            n += 1
            key = "%s:WalEntry#%d%s" % (fn.id, n, _tag(cfg))
            fs = rv["fs"]
            d_op, t_op, c_op = rv["ops"][fs.index("data")], rv["ops"][fs.index("timestamp")], rv["ops"][fs.index("checksum")]
            d_src = src_of_operand(fn, d_op)
            c_src = src_of_operand(fn, c_op)
            # constructor from a delta: checksum = crc(data) by construction
            if c_src.kind == "call" and is_callee(c_src.term, r"crc32fast::hash$"):
                h_arg = src_of_operand(fn, c_src.term["args"][0], through_calls=TRANSPARENT + (r"Deref>::deref$",))
                same = h_arg.local == d_src.local or h_arg.path() == d_src.path()
                ck.check(same, "R10.1", key, "checksum is a CRC of something other than the entry's data", fn.where(st["ln"]),
                         detail="checksum = crc32(data) by construction")
                continue
            # decoder: must be guarded
            gs = lib2.guards(fn, b)
            crc_ok = False
            len_ok = False
            for g in gs:
                s = g["src"]
                if s is None or s.kind != "rv":
                    continue
                r = s.rv
                if r["k"] != "bin":
                    continue
                a = src_of_operand(fn, r["a"], through_calls=(r"::clone$",))
                bb = src_of_operand(fn, r["b"], through_calls=(r"::clone$",))
                if r["op"] in ("Ne", "Eq"):
                    on_equal = (r["op"] == "Ne" and lib2.guard_is_false(g)) or (r["op"] == "Eq" and lib2.guard_is_true(g))
                    for x, y in ((a, bb), (bb, a)):
                        if x.kind == "call" and is_callee(x.term, r"crc32fast::hash$"):
                            h_arg = src_of_operand(fn, x.term["args"][0], through_calls=TRANSPARENT + (r"Deref>::deref$",))
                            if (h_arg.local == d_src.local or h_arg.path() == d_src.path()) and y.local == c_src.local and on_equal:
                                crc_ok = True
                if r["op"] in ("Lt", "Ge", "Le", "Gt"):
                    # data.len() < total_size  (false edge)  — total_size from checked_add(OVERHEAD, data_len)
                    for x, y, lt_false in ((a, bb, r["op"] == "Lt"), (bb, a, r["op"] == "Gt")):
                        if x.kind == "call" and is_callee(x.term, r"<impl \[u8\]>::len$", r"<impl \[T\]>::len$"):
                            ysrc = y
                            if ysrc.kind == "call" and is_callee(ysrc.term, r"checked_add$"):
                                if lt_false and lib2.guard_is_false(g):
                                    len_ok = True
                            elif ysrc.fields and ysrc.kind == "call" and is_callee(ysrc.term, r"Try>::branch$"):
                                inner = src_of_operand(fn, ysrc.term["args"][0])
                                if inner.kind == "call" and is_callee(inner.term, r"checked_add$") and lt_false and lib2.guard_is_false(g):
                                    len_ok = True
            ck.check(crc_ok, "R10.1", key + ":crc",
                     "a WalEntry is produced from raw bytes on a path that did not pass `crc32(data) == stored checksum`: corrupted or "
                     "never-appended bytes can be yielded as an intact entry", fn.where(st["ln"]), detail="CRC equality edge dominates")
            ck.check(len_ok, "R10.1", key + ":len",
                     "a WalEntry is produced on a path that did not pass the `input.len() >= overhead + data_len` (checked_add) test",
                     fn.where(st["ln"]), detail="length test dominates")
            # R10.2 coverage: decoded fields other than data/checksum
            t_src = src_of_operand(fn, t_op)
            if t_src.kind == "call" and is_callee(t_src.term, r"from_le_bytes$"):
                ck.bad("R10.2", "%s:timestamp-not-covered%s" % (fn.id, _tag(cfg)),
                       "WalEntry.timestamp is decoded from input bytes and returned, but the CRC covers only `data`: a flipped "
                       "timestamp bit yields an 'intact' entry with an altered stamp (which drives recover_entries_after and "
                       "truncate_before)", fn.where(st["ln"]))
            else:
                ck.ok("R10.2", "%s:timestamp%s" % (fn.id, _tag(cfg)), "timestamp not taken from unchecked input")
    ck.floor("R10.1" + _tag(cfg), n, 2)
    # reader loop
    ent0 = prog.one(W + "WalReader::entries")
    # the loop body may live in a closure handed to std::iter::from_fn (which ends at the first None, like `None => break`)
    bodies = [ent0]
    for c_ in prog.children(ent0):
        made = [t for _, t in ent0.calls() if is_callee(t, r"^std::iter::from_fn(::<.*>)?$|iter::from_fn(::<.*>)?$")]
        if made and any(is_callee(t, r"WalEntry::decode$") for _, t in c_.calls()):
            bodies.append(c_)
    alld = [(g, b, t) for g in bodies for b, t in g.calls() if is_callee(t, r"WalEntry::decode$")]
    ck.check(len(alld) == 1, "R10.1", "entries-uses-decode" + _tag(cfg), "WalReader::entries does not call WalEntry::decode exactly once", ent0.where())
    ent = alld[0][0] if len(alld) == 1 else ent0
    decs = [(b, t) for g, b, t in alld if g is ent]
    pushes = [(b, t) for b, t in ent0.calls() if is_callee(t, r"Vec::<streaming::wal::WalEntry>::push$")]
    for pb, pt in pushes:
        v = src_of_operand(ent0, pt["args"][1])
        ck.check(v.kind == "call" and is_callee(v.term, r"WalEntry::decode$"), "R10.1", "entries-push-from-decode" + _tag(cfg),
                 "WalReader::entries pushes an entry that does not come out of WalEntry::decode", ent0.where(pt["ln"]),
                 detail="pushed entry = decode(..).0")
    if ent is not ent0:
        # iterator form: what the closure yields is decode's entry
        for b, i, st in ent.stmts():
            if st["lhs"] == {"l": 0} and st["rv"]["k"] == "agg" and "Some" in str(st["rv"].get("n", "")) and st["rv"].get("ops"):
                v = src_of_operand(ent, st["rv"]["ops"][0], through_calls=(r"Try>::branch$",))
                ck.check(v.kind == "call" and is_callee(v.term, r"WalEntry::decode$"), "R10.1", "entries-push-from-decode" + _tag(cfg),
                         "WalReader::entries yields an entry that does not come out of WalEntry::decode", ent.where(st["ln"]), detail="yielded entry = decode(..)?.0")
    if decs:
        db, dt = decs[0]
        l = dt["dest"]["l"]
        stops = 0
        for sb in sorted(ent.reachable_blocks()):
            si = switch_info(ent, sb)
            src_ = si["src"] if si else None
            direct = si and si["kind"] == "discr" and si["place"]["l"] == l and "p" not in si["place"]
            via_try = si and si["kind"] == "discr" and src_ is not None and src_.kind == "call" and is_callee(src_.term, r"Try>::branch$") and \
                op_local(src_.term["args"][0]) == l
            if direct or via_try:
                from .lib import edge_targets
                none_t = edge_targets(ent, sb, 0 if direct else 1)
                back = db in ({none_t} | ent.reach([none_t]))
                stops += 1
                ck.check(not back, "R10.1", "entries-stops-at-none" + _tag(cfg),
                         "after an undecodable entry WalReader::entries goes on decoding (skips damage instead of stopping)",
                         ent.where(ent.term(sb)["ln"]), detail="None edge leaves the loop")
        # offset advance
        adv = False
        for b, i, st in ent.stmts():
            if st["rv"]["k"] == "use":
                s = src_of_operand(ent, st["rv"]["a"])
                if s.kind == "call" and is_callee(s.term, r"Option::<usize>::expect$", r"Option::<usize>::unwrap$"):
                    inner = src_of_operand(ent, s.term["args"][0])
                    if inner.kind == "call" and is_callee(inner.term, r"checked_add$"):
                        a1 = src_of_operand(ent, inner.term["args"][1], through_calls=(r"Try>::branch$",))
                        if a1.kind == "call" and is_callee(a1.term, r"WalEntry::decode$") and a1.fields[-1:] == ("1",):
                            adv = True
        ck.check(adv, "R10.1", "entries-advance-by-consumed" + _tag(cfg),
                 "the read offset is not advanced by exactly the size decode reported", ent.where(), detail="offset += consumed")
    # who else builds entries for recovery: recover_all_entries must take entries from WalReader::entries
    rec = prog.one(W + "WalRotator::<S>::recover_all_entries")
    ext = [(b, t) for b, t in rec.calls() if is_callee(t, r"Extend<.*>>::extend$", r"Vec::<streaming::wal::WalEntry>::(extend|push|append)")]
    for eb, et in ext:
        v = src_of_operand(rec, et["args"][1])
        ck.check(v.kind == "call" and is_callee(v.term, r"WalReader::entries$"), "R10.1", "recover-uses-entries" + _tag(cfg),
                 "recover_all_entries collects entries from %s instead of the validating WalReader::entries" % v.path(),
                 rec.where(et["ln"]), detail="all_entries.extend(reader.entries())")
    # where do the entries of one file go?  appended: fine.  stored under a key: a second file with the same key replaces them
    keyed = 0
    for b, t in rec.calls():
        if is_callee(t, r"(BTreeMap|HashMap|AHashMap)::<.*>::insert$", r"Entry::<.*>::(or_insert|or_insert_with)\b") and len(t["args"]) >= 2:
            v = src_of_operand(rec, t["args"][-1])
            if v.kind == "call" and is_callee(v.term, r"WalReader::entries$"):
                keyed += 1
                ck.bad("R10.1", "recover-keyed-by-file-attribute" + _tag(cfg),
                       "recover_all_entries stores the entries of a file in a map keyed by an attribute read from the file: two files "
                       "carrying the same key (a stale or damaged header) replace one another and every intact entry of the first is "
                       "lost", rec.where(t["ln"]))
    ck.floor("R10.1-recover" + _tag(cfg), len(ext) + keyed, 1)


def _r103(ck, prog, cfg):
    rec = prog.one(W + "WalRotator::<S>::recover_all_entries")
    n = 0
    for b, t in rec.calls():
        if is_callee(t, r"WalStore>::open_read$", r"WalReader::open::"):
            n += 1
            edges = lib2.ok_edges(rec, t["dest"]["l"])
            name = "open_read" if "open_read" in callee(t) else "WalReader::open"
            good = bool(edges)
            for (swb, okt, errt) in edges:
                region = {errt} | rec.reach([errt], avoid=[swb])
                # Err edge must not assign an Err return and must get back to the loop (the call block is reachable again)
                if any(lib2._err_assign_block(rec, x) for x in region - ({okt} | rec.reach([okt], avoid=[swb]))):
                    good = False
                if b not in rec.reach([errt]):
                    good = False
            ck.check(good, "R10.3", "recover_all_entries:%s-err-continues%s" % (name, _tag(cfg)),
                     "a file that fails %s aborts recovery of all other files (error returned instead of skipping the file)" % name,
                     rec.where(t["ln"]), detail="Err edge continues the per-file loop")
    ck.floor("R10.3" + _tag(cfg), n, 2)
    sorts = [(b, t) for b, t in rec.calls() if is_callee(t, r"<impl \[.*\]>::sort", r"slice::<impl \[T\]>::sort",
                                                       r"Iterator>::collect::<std::collections::BTree(Map|Set)<\(?u64")]
    loops = [(b, t) for b, t in rec.calls() if is_callee(t, r"WalStore>::open_read$")]
    ck.check(bool(sorts) and bool(loops) and all(rec.dominates(sb, lb) for sb, _ in sorts[:1] for lb, _ in loops), "R10.3",
             "files-sorted-before-read" + _tag(cfg), "WAL files are not sorted by sequence before being read", rec.where(),
             detail="sort_by_key dominates the read loop")
    # the sort key closure returns the parsed sequence (tuple field 0)
    for sb, stt in sorts[:1]:
        ck.check("sort_by_key" in callee(stt) or "sort_unstable_by_key" in callee(stt) or "sort" in callee(stt), "R10.3",
                 "sort-callee" + _tag(cfg), "unexpected sort call", rec.where(stt["ln"]))


def _r104(ck, prog, cfg):
    tr = prog.one(W + "WalRotator::<S>::truncate_before")
    dels = [(b, t) for b, t in tr.calls() if is_callee(t, r"WalStore>::delete$")]
    ck.floor("R10.4" + _tag(cfg), len(dels), 1)
    for k, (db, dt) in enumerate(sorted(dels, key=lambda x: x[1]["ln"])):
        gs = lib2.guards(tr, db)
        not_current = False
        age_ok = False
        why_age = "no guard"
        for g in gs:
            s = g["src"]
            if s is None:
                continue
            if s.kind == "call" and is_callee(s.term, r"PartialEq.*>::eq$") and lib2.guard_is_false(g):
                a = src_of_operand(tr, s.term["args"][0], through_calls=TRANSPARENT)
                bsrc = src_of_operand(tr, s.term["args"][1], through_calls=TRANSPARENT)
                # one side derives from self.current_writer (through map(|w| wal_file_name(w.sequence())))
                for x in (a, bsrc):
                    y = x
                    hops = 0
                    while y.kind == "call" and hops < 6:
                        if is_callee(y.term, r"Option::<.*>::(map|as_deref|as_ref)"):
                            y = src_of_operand(tr, y.term["args"][0], through_calls=TRANSPARENT)
                            hops += 1
                        else:
                            break
                    if y.kind == "path" and y.root == "self" and y.fields[:1] == ("current_writer",):
                        not_current = True
            if s.kind == "call" and is_callee(s.term, r"Vec::<streaming::wal::WalEntry>::is_empty$") and lib2.guard_is_true(g):
                age_ok = True
            def cmp_ok(r, positive):
                """r: a comparison rvalue; positive: the guard holds when r is true.  -> (ok, why)"""
                a = src_of_operand(tr, r["a"])
                bsrc = src_of_operand(tr, r["b"])
                op = r["op"]
                cands = []          # normalise to  max_ts <= T
                if op == "Le" and positive:
                    cands.append((a, bsrc))
                if op == "Ge" and positive:
                    cands.append((bsrc, a))
                if op == "Gt" and not positive:
                    cands.append((a, bsrc))
                if op == "Lt" and not positive:
                    cands.append((bsrc, a))
                why_ = "no `max(entry stamps) <= threshold` comparison"
                for lo, hi in cands:
                    if not (hi.kind == "path" and hi.root == "up_to_timestamp"):
                        why_ = "upper bound is not the truncation threshold"
                        continue
                    ok_max, why2 = _is_max_of_entry_stamps(prog, tr, lo)
                    if ok_max:
                        return True, ""
                    why_ = why2
                return False, why_
            if s.kind == "rv" and s.rv["k"] == "bin" and s.rv["op"] in ("Le", "Lt", "Ge", "Gt"):
                okc, whyc = cmp_ok(s.rv, lib2.guard_is_true(g))
                if okc:
                    age_ok = True
                else:
                    why_age = whyc
            # `let deletable = match newest { None => true, Some(m) => m <= T }; if deletable {..}`: every way of becoming true
            si = g["si"]
            if si and si["kind"] == "val" and lib2.guard_is_true(g) and si.get("local") is not None:
                defs = tr.defs().get(si["local"], [])
                if len(defs) == 1 and defs[0][2] == "assign" and defs[0][3]["k"] == "use" and "c" not in defs[0][3]["a"]:
                    pl = op_place(defs[0][3]["a"])
                    if pl is not None and "p" not in pl:
                        defs = tr.defs().get(pl["l"], [])
                if len(defs) >= 2:
                    all_ok = True
                    for (db2, di2, kind2, rv2) in defs:
                        if kind2 != "assign":
                            all_ok = False
                            continue
                        if rv2["k"] == "use" and rv2["a"].get("c", "").strip() in ("const false", "false"):
                            continue
                        if rv2["k"] == "use" and rv2["a"].get("c", "").strip() in ("const true", "true"):
                            # true because the file holds no entry: None edge of max() over the stamps, or is_empty()
                            okt = False
                            for g2 in lib2.guards(tr, db2):
                                s2 = g2["src"]
                                si2 = g2["si"]
                                if s2 is None:
                                    continue
                                if si2 and si2["kind"] == "discr" and si2["ty"].startswith("std::option::Option<") and g2["value"] in ("0",) and \
                                        _is_max_of_entry_stamps(prog, tr, s2)[0]:
                                    okt = True
                                if s2.kind == "call" and is_callee(s2.term, r"Vec::<streaming::wal::WalEntry>::is_empty$") and lib2.guard_is_true(g2):
                                    okt = True
                            if not okt:
                                all_ok = False
                                why_age = "the deletion flag can be set without the file being empty or old"
                            continue
                        if rv2["k"] == "bin" and rv2["op"] in ("Le", "Lt", "Ge", "Gt"):
                            okc, whyc = cmp_ok(rv2, True)
                            if not okc:
                                all_ok = False
                                why_age = whyc
                            continue
                        all_ok = False
                        why_age = "the deletion flag has a definition of unrecognised shape"
                    if all_ok:
                        age_ok = True
        key = "truncate_before:delete#%d%s" % (k, _tag(cfg))
        ck.check(not_current, "R10.4", key + ":not-current",
                 "a WAL file is deleted without first excluding the active file", tr.where(dt["ln"]), detail="name != current file")
        ck.check(age_ok, "R10.4", key + ":all-entries-old",
                 "a WAL file is deleted although an entry stamped later than the threshold may be inside (%s)" % why_age,
                 tr.where(dt["ln"]), detail="entries.is_empty() or max(entry.timestamp) <= up_to_timestamp")


def _is_max_of_entry_stamps(prog, fn, s):
    """s = Option::unwrap_or(Iterator::max(Iterator::map(slice::iter(entries), |e| e.timestamp)))"""
    y = s
    if y.kind == "call" and is_callee(y.term, r"Option::<u64>::(unwrap_or|unwrap|unwrap_or_default|expect)"):
        y = src_of_operand(fn, y.term["args"][0])
    if not (y.kind == "call" and is_callee(y.term, r"Iterator>::max$")):
        return False, "the file's newest stamp is not computed as the maximum over all its entries (%s)" % y.path()
    z = src_of_operand(fn, y.term["args"][0])
    if not (z.kind == "call" and is_callee(z.term, r"Iterator>::map::")):
        return False, "max is not taken over the entries' stamps"
    it = src_of_operand(fn, z.term["args"][0], through_calls=(r"Deref>::deref$",))
    if not (it.kind == "call" and is_callee(it.term, r"<impl \[streaming::wal::WalEntry\]>::iter$", r"IntoIterator>::into_iter$")):
        return False, "max is not taken over an iteration of all entries (%s)" % it.path()
    clo = src_of_operand(fn, z.term["args"][1])
    if clo.kind == "agg" and clo.rv["ak"] == "closure":
        cf = prog.fns.get(clo.rv["n"])
        if cf is not None:
            for b, i, st in cf.stmts():
                if st["lhs"] == {"l": 0} and st["rv"]["k"] == "use":
                    p = op_place(st["rv"]["a"])
                    if p is not None and [e["f"] for e in p.get("p", []) if isinstance(e, dict) and "f" in e][-1:] == ["timestamp"]:
                        return True, ""
            return False, "the mapped key is not the entry timestamp"
    return False, "map closure not recognised"


def r106(ck, prog, cfg, rid):
    n = 0
    for fn in prog.lib_fns():
        if fn.file != "src/streaming/wal.rs" or not fn.id.startswith("streaming::wal::WalEntry::"):
            continue
        if not fn.locals[0].startswith("std::option::Option<(streaming::wal::WalEntry"):
            continue
        for b in sorted(fn.reachable_blocks()):
            none_here = False
            ln = None
            for st in fn.blocks[b]["st"]:
                if st["lhs"] == {"l": 0} and st["rv"]["k"] == "agg" and st["rv"]["n"] == "std::option::Option::None":
                    none_here = True
                    ln = st["ln"]
            t = fn.term(b)
            via_q = t["k"] == "call" and t["dest"] == {"l": 0} and is_callee(t, r"FromResidual.*from_residual$")
            if via_q:
                ln = t["ln"]
            if not (none_here or via_q):
                continue
            n += 1
            why = None
            ctrl = lib2.controlling_switches(fn, b)
            if not ctrl:
                why = "unconditional None"
            for (sw, entry) in ctrl:
                si = switch_info(fn, sw)
                s = si["src"]
                ok = False
                if si["kind"] == "discr":
                    ss = si["src"]
                    if ss.kind == "call" and is_callee(ss.term, r"Option<.*> as std::ops::Try>::branch$"):
                        inner_src = src_of_operand(fn, ss.term["args"][0])
                        ok = inner_src.kind == "call" and is_callee(inner_src.term, r"checked_(add|mul|sub)$")
                elif s is not None and s.kind == "rv" and s.rv["k"] == "bin":
                    r = s.rv
                    a = src_of_operand(fn, r["a"])
                    bb = src_of_operand(fn, r["b"])
                    is_len = lambda x: x.kind == "call" and is_callee(x.term, r"<impl \[u8\]>::len$", r"<impl \[T\]>::len$")
                    is_crc = lambda x: x.kind == "call" and is_callee(x.term, r"crc32fast::hash$")
                    if r["op"] in ("Lt", "Le", "Gt", "Ge") and (is_len(a) or is_len(bb)):
                        ok = True
                    if r["op"] in ("Ne", "Eq") and (is_crc(a) or is_crc(bb)):
                        ok = True
                if not ok:
                    why = "rejecting condition at line %s is neither an input-length test, a checked_add overflow nor a CRC comparison" % fn.term(sw).get("ln")
            ck.check(why is None, rid, "%s:none-exit#%d%s" % (fn.id, n, _tag(cfg)),
                     "the WAL entry decoder gives up on a frame for a reason other than truncation or checksum mismatch (%s): an entry "
                     "that was appended, fsynced and acknowledged ends recovery of its file" % why, fn.where(ln),
                     detail="None exit guarded by length/overflow/CRC test")
    ck.floor(rid + _tag(cfg), n, 4)


def file_loop_rule(ck, prog, cfg, rid):
    """every WAL file is visited: the per-file loop of recover_all_entries ends only when the list is exhausted (no `break`, no
    `return` out of the loop body other than the propagation of list() errors before it) - a torn or odd file must not end the
    replay of the files behind it"""
    rec = prog.one(W + "WalRotator::<S>::recover_all_entries")
    heads = lib2.loop_heads(rec)
    opens = [b for b, t in rec.calls() if is_callee(t, r"WalStore>::open_read$")]
    ck.check(len(opens) >= 1, rid, "recover_all_entries:per-file-loop" + _tag(cfg), "open_read call not found in recover_all_entries", rec.where())
    for ob in opens[:1]:
        mine = [h for h, (none_t, some_t, nb) in heads.items() if ob == some_t or ob in rec.reach([some_t], avoid=[h])]
        if not mine:
            ck.bad(rid, "recover_all_entries:per-file-loop" + _tag(cfg), "open_read is not inside a loop over the WAL files", rec.where())
            continue
        h = min(mine, key=lambda h: len(rec.reach([heads[h][1]], avoid=[h])))
        none_t, some_t, nb = heads[h]
        lib2.whole_batch(ck, rec, h, rid, "recover_all_entries:all-files" + _tag(cfg), "the sorted list of WAL files")
        body = {some_t} | rec.reach([some_t], avoid=[h])
        after = {none_t} | rec.reach([none_t], avoid=[h])
        # an edge from the body to the code after the loop that does not go through the loop head = break / early return
        leaks = []
        for x in sorted(body - {h}):
            if x in after and x not in body - after:
                pass
            for sx in rec.succ(x):
                if sx not in body and sx != h and sx != nb:
                    leaks.append((x, sx))
            if rec.term(x)["k"] == "return":
                leaks.append((x, None))
        ck.check(not leaks, rid, "recover_all_entries:no-early-exit" + _tag(cfg),
                 "the loop over the WAL files can be left before all files were read (line %s): intact, fsynced entries of the files behind "
                 "that point are not replayed" % (rec.term(leaks[0][0]).get("ln") if leaks else "?"), rec.where(),
                 detail="the loop ends only on exhaustion of the file list")


def _r108(ck, prog, cfg):
    REORDER = re.compile(r"<impl \[.*\]>::(sort\w*|reverse|swap|rotate_\w+|select_nth\w*)(::<.*>)?$|Vec::<.*>::(dedup\w*|swap_remove|insert)(::<.*>)?$|"
                         r"BTreeMap::<.*>::insert$|BinaryHeap::<.*>::push$|Iterator>::rev$|itertools.*sorted")
    ELEM = re.compile(r"WalEntry|ReplicationDelta")
    n = 0
    scanned = 0
    for f in prog.lib_fns():
        if f.file != "src/streaming/wal.rs" or "::tests::" in f.id:
            continue
        scanned += 1
        for b, t in f.calls():
            c = t.get("fnargs") or callee(t)
            if not REORDER.search(c):
                continue
            recv_ty = str(f.locals[op_local(t["args"][0])]) if t.get("args") and op_local(t["args"][0]) is not None else ""
            if not (ELEM.search(c) or ELEM.search(recv_ty)):
                continue
            n += 1
            fid = re.sub(r"\{closure#\d+\}", "{closure}", f.id.replace("streaming::wal::", ""))
            ck.bad("R10.8", "%s:%s#%d%s" % (fid, callee(t).rsplit("::", 1)[-1].split("<")[0], n, _tag(cfg)),
                   "recovered WAL entries are reordered (%s): within a file they must come back in append order - stamps of different shards "
                   "interleave non-monotonically, so a stamp sort moves entries relative to each other" % c[-70:], f.where(t["ln"]))
    ck.floor("R10.8:functions-scanned" + _tag(cfg), scanned, 20)
    if n == 0:
        ck.ok("R10.8", "wal.rs:no-reordering-of-entries" + _tag(cfg), "%d functions scanned" % scanned)


def r109(ck, prog, cfg, rid, file="src/streaming/wal.rs", owners=("WalReader",), what="WAL reader", floor=3):
    EDIT = re.compile(r"Vec::<u8>::(truncate|drain|retain|retain_mut|split_off|resize|resize_with|clear|pop|remove|swap_remove|insert|dedup\w*|set_len|splice)(::<.*>)?$|"
                      r"<impl \[u8\]>::(trim_ascii\w*|strip_suffix|strip_prefix|rsplit\w*|fill|reverse|copy_within|sort\w*)(::<.*>)?$")
    n = hits = 0
    for f in prog.lib_fns():
        if f.file != file or "::tests::" in f.id:
            continue
        if not any(o in (f.d.get("impl_self") or "") or o in f.id for o in owners):
            continue
        n += 1
        for b, t in f.calls():
            c = t.get("fnargs") or callee(t)
            if EDIT.search(callee(t)) or EDIT.search(c):
                hits += 1
                ck.bad(rid, "%s:%s#%d%s" % (re.sub(r"\{closure#\d+\}", "{closure}", f.id.replace("streaming::wal::", "")), callee(t).rsplit("::", 1)[-1].split("<")[0], hits, _tag(cfg)),
                       "the %s edits the bytes it read before decoding them (%s): records are then judged on bytes that are not the validated "
                       "bytes on disk - an intact record can be cut off and silently dropped"
                       % (what, callee(t)[-40:]), f.where(t["ln"]))
    ck.floor(rid + ":functions-scanned" + _tag(cfg), n, floor)
    if hits == 0:
        ck.ok(rid, "reader-decodes-image-as-read" + _tag(cfg), "%d %s functions scanned" % (n, "/".join(owners)))


# ------------------------------------------------------------------------------------------------
NAME_TEXT = ("every WAL file the writer can name is found again: the function that recognises WAL file names (used by recovery, truncation and "
             "the start-up scan that picks the next sequence) rejects a name only when the writer's prefix / suffix is missing or the digits do "
             "not parse in the writer's radix - no extra test on their number or spelling ({:08x} is a *minimum* width: sequence 2^32 has nine "
             "digits), and prefix, suffix and radix are the writer's own")


def r1010(ck, prog, cfg, rid):
    cands = [f for f in prog.lib_fns() if f.file == "src/streaming/wal.rs" and f.kind == "fn" and f.locals and f.locals[0] == "std::option::Option<u64>"
             and f.d["argc"] == 1 and f.locals[1] == "&str"]
    users = set()
    for g in prog.lib_fns():
        for _, t in g.calls():
            if any(callee(t) == c.id for c in cands):
                users.add(g.short)
    if not cands or not users:
        ck.anchor_lost(rid, "no `fn(&str) -> Option<u64>` name recogniser in wal.rs that recovery uses")
        return
    wr = [f for f in prog.lib_fns() if f.file == "src/streaming/wal.rs" and f.kind == "fn" and f.locals and f.locals[0] == "std::string::String"
          and f.d["argc"] == 1 and f.locals[1] == "u64"]
    lits = ""
    hexfmt = False
    for w in wr:
        for b, i, st in w.stmts():
            if st["rv"]["k"] == "use" and "c" in st["rv"]["a"]:
                lits += str(st["rv"]["a"].get("pv") or st["rv"]["a"]["c"])
        hexfmt = hexfmt or any(is_callee(t, r"Argument::<'_>::new_(lower|upper)_hex") for _, t in w.calls())
    n = 0
    for f in cands:
        n += 1
        extra = []
        bodies = prog.with_children(f)          # `.and_then(|rest| rest.strip_suffix(..))`: the steps may sit in closures
        for g in bodies:
            for b in sorted(g.reachable_blocks()):
                t = g.term(b)
                if t["k"] == "switch":
                    si = switch_info(g, b)
                    src = si["src"] if si else None
                    if not (si and si["kind"] == "discr" and src is not None and src.kind == "call" and is_callee(src.term, r"Try>::branch$")):
                        extra.append("branch at line %s" % t["ln"])
            for b, i, st in g.stmts():
                if st["lhs"] == {"l": 0} and st["rv"]["k"] == "agg" and "None" in str(st["rv"].get("n", "")):
                    extra.append("`None` at line %s" % st["ln"])
        allcalls = [(g, t) for g in bodies for _, t in g.calls()]
        calls = [callee(t) or "" for _, t in allcalls]
        other = [c for c in calls if not re.search(r"strip_prefix|strip_suffix|Try>::branch$|FromResidual<.*>>::from_residual$|from_str_radix$|Result::<u64, .*>::ok$|result::Result::<.*>::ok$|Deref>::deref$|Option::<.*>::and_then(::<.*>)?$", c)]
        ck.check(not extra and not other, rid, "%s:rejects-only-foreign-names%s" % (f.short, _tag(cfg)),
                 "%s rejects a file name for more than a missing prefix/suffix or unparsable digits (%s): a file the writer created under a longer "
                 "(or otherwise valid) name is skipped by recovery with all its intact entries, and the start-up scan can reuse its sequence "
                 "number and overwrite it" % (f.short, "; ".join(extra + ["calls " + c.rsplit("::", 1)[-1] for c in other])[:200]), f.where(),
                 detail="strip_prefix? strip_suffix? from_str_radix.ok()")
        pre = [str(t["args"][1].get("pv") or t["args"][1].get("c")).strip('"').replace("const ", "") for _, t in allcalls if is_callee(t, r"strip_prefix|strip_suffix") and len(t["args"]) > 1]
        radix = [str(t["args"][1].get("c", "")) for _, t in allcalls if is_callee(t, r"from_str_radix$")]
        n += 1
        agree = bool(wr) and all(p_.strip('"') in lits for p_ in pre) and len(pre) == 2 and ((radix == ["16_u32"] or radix == ["const 16_u32"]) == hexfmt)
        ck.check(agree, rid, "%s:writer-agreement%s" % (f.short, _tag(cfg)),
                 "the name recogniser's prefix/suffix %s or radix %s are not the ones the name writer formats with" % (pre, radix), f.where(),
                 detail="prefix %s suffix, radix %s; used by %s" % (pre, radix, sorted(users)))
    ck.floor(rid + _tag(cfg), n, 2)


# ------------------------------------------------------------------------------------------------
JUDGE_TEXT = ("the reader does not judge what the decoder accepted: in WalReader::entries no branch depends on the content of a decoded entry "
              "(its stamp, its payload, its size) - the walk ends only where decode fails or the data ends. Stamps in one file are not monotone "
              "(independent shard clocks, concurrent writers share a group commit), so a `stale tail` test on them cuts off intact, fsynced, "
              "acknowledged entries")


def _taint(f, seeds):
    t = set(seeds)

    def mentions(node):
        if isinstance(node, dict):
            if "l" in node and isinstance(node["l"], int) and node["l"] in t:
                return True
            return any(mentions(v) for v in node.values())
        if isinstance(node, list):
            return any(mentions(v) for v in node)
        return False
    ch = True
    while ch:
        ch = False
        for b, i, st in f.stmts():
            l = st["lhs"].get("l")
            if l not in t and mentions(st["rv"]):
                t.add(l)
                ch = True
        for b, tm in f.calls():
            d = tm.get("dest")
            if d is not None and d.get("l") not in t and mentions(tm.get("args")):
                t.add(d["l"])
                ch = True
    return t


def r1011(ck, prog, cfg, rid):
    ent0 = prog.one(W + "WalReader::entries")
    bodies = [ent0] + [c for c in prog.children(ent0) if any(is_callee(t, r"WalEntry::decode$") for _, t in c.calls())]
    n = 0
    for g in bodies:
        decs = [t for _, t in g.calls() if is_callee(t, r"WalEntry::decode$") and "p" not in t["dest"]]
        if not decs:
            continue
        n += 1
        seeds = {t["dest"]["l"] for t in decs}
        for _, t in g.calls():
            if is_callee(t, r"Try>::branch$") and op_local(t["args"][0]) in seeds and "p" not in t["dest"]:
                seeds = seeds | {t["dest"]["l"]}
        # the entry component of decode's (entry, consumed) result - the consumed size legitimately drives the walk
        entry_locals = set()
        for b, i, st in g.stmts():
            rv = st["rv"]
            pl = op_place(rv["a"]) if rv["k"] == "use" and "c" not in rv["a"] else (rv.get("pl") if rv["k"] == "ref" else None)
            if pl is not None and pl["l"] in seeds:
                fl = [e["f"] for e in pl.get("p", []) if isinstance(e, dict) and "f" in e]
                if fl[:2] == ["0", "0"] and st["lhs"].get("l") is not None:
                    entry_locals.add(st["lhs"]["l"])
        tainted = _taint(g, entry_locals)
        bad = []
        for sb in sorted(g.reachable_blocks()):
            t = g.term(sb)
            if t["k"] != "switch":
                continue
            si = switch_info(g, sb)
            if si and si["kind"] == "discr":
                src = si["src"]
                # the Some/None test of the decode result itself (directly or through `?`)
                if ("p" not in si["place"] and si["place"]["l"] in seeds) or \
                        (src is not None and src.kind == "call" and is_callee(src.term, r"Try>::branch$") and op_local(src.term["args"][0]) in seeds):
                    continue
            l = op_local(t["d"])
            if l in tainted:
                # consumed-size arithmetic (checked_add(..).expect) does not branch in the reader; anything left is a judgement
                if si and si["kind"] == "discr" and si["src"] is not None and si["src"].kind == "call" and is_callee(si["src"].term, r"checked_add$|Option::<usize>::(expect|unwrap)$"):
                    continue
                bad.append(t["ln"])
        ck.check(not bad, rid, "entries:no-branch-on-entry-content" + _tag(cfg),
                 "WalReader::entries branches on the content of a decoded entry (line %s): entries the decoder accepted are skipped or end the walk by "
                 "a criterion the writer does not guarantee" % bad[:3], g.where(bad[0]) if bad else g.where(), detail="loop ends at decode failure / end of data only")
    ck.floor(rid + _tag(cfg), n, 1)


# ------------------------------------------------------------------------------------------------
WRITER_SEQ_TEXT = ("a writer knows which file it writes: wherever a WAL file is created and a WalWriter is opened on it, the sequence given to "
                   "WalWriter::new is the sequence the file was named with (the same value, not a field read before it was updated): truncation "
                   "protects the active file by the *writer's* sequence, so a writer that believes it is file N-1 lets truncate_before delete "
                   "the file it is appending to")


def _seq_value(f, operand, at_block):
    """provenance of a sequence operand, with a read of a `current_sequence`-like field resolved to the value of the nearest dominating
    store to that field in the same function (so `self.seq = n; use(self.seq)` and `use(n)` compare equal)"""
    s_ = src_of_operand(f, operand, through_calls=TRANSPARENT)
    strict = False
    for _ in range(4):
        if s_.kind == "path" and s_.fields and s_.fields[-1].endswith("sequence"):
            fld = s_.fields[-1]
            best = None
            for b, i, st in f.stmts():
                pr = st["lhs"].get("p", [])
                fs = [e for e in pr if isinstance(e, dict) and "f" in e]
                if fs and pr[-1] is fs[-1] and fs[-1]["f"] == fld and f.dominates(b, at_block) and (b != at_block or not strict):
                    if best is None or f.dominates(best[0], b):
                        best = (b, st)
            if best is None:
                return "field:%s@entry" % fld
            rv = best[1]["rv"]
            if rv["k"] != "use":
                return "store@%d" % best[0]
            s_ = src_of_operand(f, rv["a"], through_calls=TRANSPARENT)
            at_block = best[0]
            strict = True
            continue
        break
    return (s_.kind, s_.local, tuple(s_.fields)) if s_.kind in ("path", "call", "rv", "agg", "multi") else s_.path()


def r1012(ck, prog, cfg, rid):
    n = 0
    for f in prog.lib_fns():
        if f.file != "src/streaming/wal.rs" or "::tests::" in f.id:
            continue
        names = [(b, t) for b, t in f.calls() if is_callee(t, r"streaming::wal::wal_file_name$") and t["args"]]
        news = [(b, t) for b, t in f.calls() if is_callee(t, r"WalWriter::<.*>::new$") and len(t["args"]) >= 2]
        if not names or not news:
            continue
        for k, (wb, wt) in enumerate(news):
            n += 1
            wv = _seq_value(f, wt["args"][1], wb)
            nv = [_seq_value(f, t["args"][0], b) for b, t in names if f.dominates(b, wb)]
            ck.check(wv in nv, rid, "%s:writer-sequence#%d%s" % (f.short, k, _tag(cfg)),
                     "the WalWriter opened in %s is told a sequence (%s) that is not the one its file was named with (%s)" % (f.short, wv, nv),
                     f.where(wt["ln"]), detail="WalWriter::new(file, seq) with the seq of wal_file_name(seq)")
    ck.floor(rid + _tag(cfg), n, 1)
