"""C15 — RESP decoding is total, bounded, prefix-stable: taint rules over wire-derived lengths."""
import re
from .facts import callee, op_place, op_local
from .lib import src_of_operand, src_of_place, is_callee, TRANSPARENT, switch_info
from . import lib2

SCOPE_FILES = ("src/redis/resp_optimized.rs", "src/redis/resp.rs", "src/production/connection_optimized.rs")
SOURCES = (r"core::str::<impl str>::parse::<(i64|i32|u64|usize|isize|u32)>$", r"connection_optimized::parse_usize_fast$", r"atoi::atoi",
           r"<(i64|u64|usize) as std::str::FromStr>::from_str$")
PASS = (r"Try>::branch$", r"Result::<.*>::map_err", r"Result::<.*>::(ok|unwrap|expect|unwrap_or|ok_or)", r"Option::<.*>::(ok_or|unwrap|expect|unwrap_or)\b",
        r"::checked_(add|mul|sub)$", r"::saturating_(add|mul)$", r"::wrapping_(add|mul)$", r"Option::<.*>::and_then", r"::clone$")
SANITIZE = (r"<usize as std::cmp::Ord>::min$", r"std::cmp::min::<usize>$", r"::clamp$")
LEN = (r"<impl \[u8\]>::len$", r"<impl \[T\]>::len$", r"bytes::BytesMut::len$", r"Vec::<.*>::len$", r"bytes::Bytes::len$")
ALLOC = (r"Vec::<.*>::with_capacity$", r"vec::from_elem", r"Vec::<.*>::reserve(_exact)?$", r"Vec::<.*>::resize$", r"BytesMut::with_capacity$",
         r"BytesMut::reserve$", r"String::with_capacity$")


def _tag(cfg):
    return "" if cfg == "default" else "@" + cfg


def run(ck, ctx):
    ck.rule("R15.1", "a signed length parsed from the wire is compared against zero (negatives rejected) on every path before it is "
                     "cast to an unsigned size")
    ck.rule("R15.2", "no allocation is sized by a wire-derived length unless the size was clamped (min) to / bounded by the number of "
                     "input bytes actually present")
    ck.rule("R15.3", "no unchecked `+`/`*` on a wire-derived length: arithmetic on it uses checked_/saturating_ calls or happens after "
                     "it was bounded against the input length")
    ck.rule("R15.4", "no slice range built from a wire-derived length unless a comparison against the input length dominates it")
    ck.rule("R15.5", "sentinel discipline: RespCodec::parse maps exactly the `Incomplete` sentinel to Ok(None); every per-type parser "
                     "returns the sentinel on its no-terminator path; try_parse on empty input is Incomplete; the completeness guard "
                     "of a bulk string covers payload + terminator (a proper prefix is never a protocol error)")
    ck.rule("R15.6", "release profile: panic = abort is recorded (it turns any decoder panic into a server crash); reply encoders "
                     "index scratch buffers only with bounds that cover the longest decimal i64")
    ck.rule("R15.7", "hand-written signed decimal parsers cover the whole range: a helper that turns wire digits into a signed integer does "
                     "not accumulate the magnitude in that same signed type and negate it afterwards (the minimum value, which every encoder "
                     "emits for Integer(i64::MIN), has no positive counterpart and would be rejected)")
    ck.rule("R15.8", "reply encoders are payload-transparent: a function that encodes a RespValue (and what it calls) never writes a "
                     "constant that is conditional on the payload's content (starts_with/contains/== on the text): such a rewrite makes "
                     "an emitted value decode to something else (e.g. `NOSCRIPT ..` re-decoding as `ERR NOSCRIPT ..`)")
    ck.rule("R15.10", "every reply encoder opens each value with the marker its own kind is decoded by: on every path through the arm of a "
                      "RespValue variant the first byte written is that variant's RESP marker (`+` simple string, `-` error, `:` integer, "
                      "`$` bulk string - null included, `*` array - null included); a null array written as `$-1` decodes to a null bulk "
                      "string, so the emitted value does not decode back to itself")
    ck.rule("R15.12", "the RESP decoders and the GET/SET recognisers contain no explicit panic source: no unwrap()/expect() of an Option or "
                      "Result, no panic!/unreachable!/assert! outside debug assertions (with panic = abort any of them is a way for "
                      "a client's bytes to stop the server; every failure is a returned protocol error or the Incomplete sentinel)")
    from . import bounds as _bounds
    ck.rule("R15.11", _bounds.TEXT % "the RESP decoders and the connection's hand-written GET/SET recognisers")
    ck.nd("prefix-stability and encode/decode identity for all values (needs execution or proof)")
    ck.assume("a dominating comparison against the input length is taken as a bound (its strength is not proven)")
    ck.rule("R15.13", INCOMPLETE_TEXT)
    ck.rule("R15.15", "nested replies are encoded depth-first: in every RespValue encoder the Array arm encodes its elements by calling the encoder "
                      "itself on each element, in order (a loop or fold over the elements whose body is the recursive call) - an encoder that defers "
                      "children to a work list emits a later sibling before a nested array's own elements, and `[[a,b],OK]` decodes as `[[OK,a],b]` "
                      "(EXEC replies, nested Lua tables)")
    ck.rule("R15.14", "the terminator scan gives up one byte at a time: in the line-terminator searches of both decoders a candidate `\\r` that is "
                      "not followed by `\\n` moves the resume position to candidate + 1 (the byte after a lone CR can itself be the CR of the real "
                      "terminator: `+\\r\\r\\n` must decode, and two frames must never be merged into one)")
    for cfg in ctx.configs:
        prog = ctx.prog(cfg)
        ck.configs.append(cfg)
        ck.fn_count += len(prog.fns)
        raw = getattr(prog, "base", prog)
        ds = derived_sources(raw)
        prog = raw.inlined(no_inline=lambda g: g.id in ds, tag="c15")      # integer-parsing helpers stay calls: they are taint sources
        _taint_rules(ck, prog, cfg)
        _r157(ck, raw, cfg)
        _r155(ck, prog, cfg)
        prefix_rule(ck, prog, cfg, "R15.5")
        _r158(ck, prog, cfg)
        _r1510(ck, prog, cfg)
        _r1512(ck, prog, cfg)
        incomplete_rule(ck, prog, cfg, "R15.13")
        _r1514(ck, prog, cfg)
        _r1515(ck, prog, cfg)
        _bounds.rule(ck, prog, cfg, "R15.11", ("src/redis/resp.rs", "src/redis/resp_optimized.rs", "src/production/connection_optimized.rs"),
                     "a frame that is split by the network right there (or a malformed one)", floor=12, tag=_tag(cfg))
    _r156(ck, ctx)


def _r1512(ck, prog, cfg):
    n = hits = 0
    for f in prog.lib_fns():
        dec = f.file in ("src/redis/resp.rs", "src/redis/resp_optimized.rs") or \
            (f.file == "src/production/connection_optimized.rs" and re.search(r"try_fast_|collect_(get_keys|set_pairs)|parse_usize_fast", f.id))
        if not dec or "::tests::" in f.id or f.d.get("implements") or re.search(r"BufferPool|Encoder|::encode", f.id):
            continue
        n += 1
        k = 0
        for b, t in f.calls():
            c = callee(t)
            if re.search(r"^std::(option::Option|result::Result)::<.*>::(unwrap|expect|unwrap_err|expect_err)$|panicking::|::begin_panic|assert_failed|unreachable_display|panic_fmt|panic_explicit", c):
                if t.get("mac") in ("debug_assert", "debug_assert_eq", "debug_assert_ne"):
                    continue
                k += 1
                hits += 1
                fid = re.sub(r"\{closure#\d+\}", "{closure}", f.id).rsplit("::", 2)
                ck.bad("R15.12", "%s:%s#%d%s" % ("::".join(fid[-2:]), c.rsplit("::", 1)[-1], k, _tag(cfg)),
                       "decoder code calls %s: a failure here is a panic, i.e. (panic = abort) a server crash a client can trigger with crafted "
                       "or split input; decoders report protocol errors / Incomplete instead" % c[-60:], f.where(t["ln"]))
    ck.floor("R15.12:functions-scanned" + _tag(cfg), n, 14)
    if hits == 0:
        ck.ok("R15.12", "decoders-have-no-explicit-panic" + _tag(cfg), "%d decoder functions scanned" % n)


INTISH = re.compile(r"^(std::result::Result<|std::option::Option<)?(i64|u64|usize|i32|u32|isize)\b")
_derived = {}


def derived_sources(prog):
    """ids of local helper functions (in the decoder files) that turn wire bytes into an integer: they return an integer-like
    value and either contain a primitive source themselves (transitively) or accumulate decimal digits (`* 10`)."""
    key = id(prog)
    if key in _derived:
        return _derived[key]
    out = set()
    cands = [f for f in _scope(prog) if f.kind in ("fn", "method") and f.locals and INTISH.match(f.locals[0] if isinstance(f.locals[0], str) else "")
             and any(isinstance(t_, str) and (t_.startswith("&[u8]") or t_.startswith("&str") or "BytesMut" in t_) for t_ in f.locals[1:1 + f.d["argc"]])]
    changed = True
    while changed:
        changed = False
        for f in cands:
            if f.id in out:
                continue
            hit = False
            for g in [f] + prog.children(f):
                for b, t in g.calls():
                    if is_callee(t, *SOURCES):
                        hit = True
                    c = prog.local_callee(g, t)
                    if c is not None and c.id in out:
                        hit = True
                    if is_callee(t, r"::(checked|wrapping|saturating)_mul$") and any(a.get("c", "").strip().startswith(("const 10", "10_")) for a in t["args"]):
                        hit = True
                for b, i, st in g.stmts():
                    rv = st["rv"]
                    if rv["k"] == "bin" and rv["op"] in ("Mul", "MulWithOverflow") and any(o.get("c", "").strip().startswith(("const 10", "10_")) for o in (rv["a"], rv["b"])):
                        hit = True
            if hit:
                out.add(f.id)
                changed = True
    _derived[key] = out
    return out


class Taint:
    """forward taint of wire-derived integers inside one function; every tainted local keeps its root source sites"""

    def __init__(self, fn, prog=None):
        self.fn = fn
        self.prog = prog
        self.extra_sources = derived_sources(prog) if prog is not None else set()
        self.roots = {}      # local -> set(root ids)
        self.sanitized = set()
        fn_defs = fn.defs()
        for b, t in fn.calls():
            if self._is_source(t) and "p" not in t["dest"]:
                self.roots.setdefault(t["dest"]["l"], set()).add("%s@%d" % (callee(t).rsplit("::", 1)[-1][:20], self._ord(b)))
        changed = True
        while changed:
            changed = False
            for b in fn.blocks:
                for st in b["st"]:
                    lhs = st["lhs"]
                    if "p" in lhs:
                        continue
                    r = self._rv_roots(st["rv"])
                    if r and not r <= self.roots.get(lhs["l"], set()):
                        self.roots.setdefault(lhs["l"], set()).update(r)
                        changed = True
                t = b["t"]
                if t["k"] == "call" and "p" not in t["dest"]:
                    if is_callee(t, *SANITIZE):
                        continue
                    if is_callee(t, *PASS):
                        r = set()
                        for a in t["args"]:
                            p = op_place(a)
                            if p is not None and p["l"] in self.roots:
                                r |= self.roots[p["l"]]
                        # closures passed to and_then(|end| end.checked_add(2)) keep the taint of the receiver
                        if r and not r <= self.roots.get(t["dest"]["l"], set()):
                            self.roots.setdefault(t["dest"]["l"], set()).update(r)
                            changed = True

    def _is_source(self, t):
        if is_callee(t, *SOURCES):
            return True
        if self.prog is not None and self.extra_sources:
            c = self.prog.local_callee(self.fn, t)
            if c is not None and c.id in self.extra_sources and c.id != self.fn.id:
                return True
        return False

    def _ord(self, b):
        sites = sorted(bb for bb, t in self.fn.calls() if self._is_source(t))
        return sites.index(b)

    def _rv_roots(self, rv):
        k = rv["k"]
        ops = []
        if k in ("use", "cast", "un", "repeat"):
            ops = [rv["a"]]
        elif k == "bin":
            ops = [rv["a"], rv["b"]]
        elif k in ("ref", "discr"):
            ops = [{"cp": rv["pl"]}]
        elif k == "agg":
            ops = rv["ops"]
        r = set()
        for o in ops:
            p = op_place(o)
            if p is not None and p["l"] in self.roots:
                r |= self.roots[p["l"]]
        return r

    def op_roots(self, o):
        p = op_place(o)
        if p is None:
            return set()
        return self.roots.get(p["l"], set())

    def bounded_roots(self, block):
        """roots for which a comparison against an input length (or a config/constant upper bound) dominates `block`"""
        out = set()
        fn = self.fn
        for g in lib2.guards(fn, block):
            s = g["src"]
            if s is None or s.kind != "rv" or s.rv["k"] != "bin" or s.rv["op"] not in ("Lt", "Le", "Gt", "Ge"):
                continue
            a, b = s.rv["a"], s.rv["b"]
            ra, rb = self.op_roots(a), self.op_roots(b)
            for tainted, other in ((ra, b), (rb, a)):
                if not tainted:
                    continue
                so = src_of_operand(fn, other)
                is_len = so.kind == "call" and is_callee(so.term, *LEN)
                if is_len:
                    out |= tainted
        return out

    def signed_checked_roots(self, block):
        out = set()
        fn = self.fn
        for g in lib2.guards(fn, block):
            s = g["src"]
            if s is None or s.kind != "rv" or s.rv["k"] != "bin" or s.rv["op"] not in ("Lt", "Le", "Gt", "Ge"):
                continue
            a, b = s.rv["a"], s.rv["b"]
            ra, rb = self.op_roots(a), self.op_roots(b)
            ca = a.get("c") if "c" in a else None
            cb = b.get("c") if "c" in b else None

            def small(c):
                m = re.match(r"^(-?\d+)_i(64|32|size)$", c or "")
                return m is not None and int(m.group(1)) <= 0 and int(m.group(1)) >= -1
            op = s.rv["op"]
            # x < 0 (false edge) | x >= 0 (true edge) | x <= -1 (false) | x > -1 (true)
            if ra and small(cb):
                if (op in ("Lt", "Le") and lib2.guard_is_false(g)) or (op in ("Ge", "Gt") and lib2.guard_is_true(g)):
                    out |= ra
            if rb and small(ca):
                if (op in ("Gt", "Ge") and lib2.guard_is_false(g)) or (op in ("Le", "Lt") and lib2.guard_is_true(g)):
                    out |= rb
        return out


def _lit(f, operand):
    s = src_of_operand(f, operand)
    if s.kind == "const":
        return s.text
    return None


def _scope(prog):
    for f in prog.lib_fns():
        if f.file in SCOPE_FILES or (f.crate != "lib" and False):
            if f.file == "src/production/connection_optimized.rs" and not re.search(
                    r"(collect_get_keys|collect_set_pairs|try_fast_get|try_fast_set|try_fast_path|parse_usize_fast|encode_resp_into|put_decimal|write_decimal)", f.id):
                continue
            yield f


def _taint_rules(ck, prog, cfg):
    n_src = n1 = n2 = n3 = n4 = 0
    for f in _scope(prog):
        T = Taint(f, prog)
        if not T.roots:
            continue
        n_src += len({r for s in T.roots.values() for r in s})
        fid = f.id.replace("production::connection_optimized::OptimizedConnectionHandler::<S>::", "").replace("redis::", "")
        # S1 sign-losing casts
        for b, i, st in f.stmts():
            rv = st["rv"]
            if rv["k"] == "cast" and rv["ck"].startswith("IntToInt") and rv["from"] in ("i64", "i32", "isize") and rv["to"] in ("usize", "u64", "u32"):
                r = T.op_roots(rv["a"])
                if not r:
                    continue
                n1 += 1
                ok = r <= T.signed_checked_roots(b)
                ck.check(ok, "R15.1", "%s:cast(%s->%s)#%d%s" % (fid, rv["from"], rv["to"], _nth(f, b, i, "cast"), _tag(cfg)),
                         "a signed length read from the wire is cast to an unsigned size without rejecting negatives first: `-2` becomes "
                         "2^64-2 and drives slice arithmetic / allocation (panic = abort: server crash)", f.where(st["ln"]),
                         detail="negative values rejected before the cast")
        # S2 allocations
        for b, t in f.calls():
            if is_callee(t, *ALLOC):
                size_arg = t["args"][-1] if not is_callee(t, r"vec::from_elem") else t["args"][1]
                r = T.op_roots(size_arg)
                if not r:
                    s = src_of_operand(f, size_arg)
                    if s.kind == "call" and is_callee(s.term, *SANITIZE) and any(T.op_roots(a) for a in s.term["args"]):
                        n2 += 1
                        other_len = any(src_of_operand(f, a).kind == "call" and is_callee(src_of_operand(f, a).term, *LEN) for a in s.term["args"])
                        ck.check(other_len, "R15.2", "%s:%s-clamped#%d%s" % (fid, callee(t).rsplit("::", 1)[-1], _ordc(f, b, ALLOC), _tag(cfg)),
                                 "allocation size is clamped, but not to the input length", f.where(t["ln"]), detail="min(len, input.len())")
                    continue
                n2 += 1
                ok = r <= T.bounded_roots(b)
                ck.check(ok, "R15.2", "%s:%s#%d%s" % (fid, callee(t).rsplit("::", 1)[-1], _ordc(f, b, ALLOC), _tag(cfg)),
                         "memory is allocated in proportion to an unvalidated length field from the wire (a 20-byte frame can request "
                         "terabytes: allocation failure aborts the process)", f.where(t["ln"]), detail="size bounded by the input length")
        # S3 unchecked arithmetic
        for b, i, st in f.stmts():
            rv = st["rv"]
            if rv["k"] == "bin" and rv["op"] in ("Add", "Mul", "AddWithOverflow", "MulWithOverflow", "AddUnchecked", "Shl"):
                r = T.op_roots(rv["a"]) | T.op_roots(rv["b"])
                if not r:
                    continue
                n3 += 1
                ok = r <= T.bounded_roots(b)
                ck.check(ok, "R15.3", "%s:%s#%d%s" % (fid, rv["op"], _nth(f, b, i, "bin"), _tag(cfg)),
                         "unchecked `%s` on a length taken from the wire before it was bounded by the input length: overflow wraps in "
                         "release (then mis-slices) and panics in debug" % rv["op"], f.where(st["ln"]), detail="operand bounded by input length")
        # S4 ranges
        for b, i, st in f.stmts():
            rv = st["rv"]
            if rv["k"] == "agg" and rv["n"] in ("std::ops::Range", "std::ops::RangeFrom", "std::ops::RangeTo", "std::ops::RangeInclusive"):
                r = set()
                is_usize = True
                for o in rv["ops"]:
                    r |= T.op_roots(o)
                    pl = op_place(o)
                    if pl is not None and "p" not in pl and f.locals[pl["l"]] != "usize":
                        is_usize = False
                if not r or not is_usize:
                    continue
                n4 += 1
                ok = r <= T.bounded_roots(b)
                ck.check(ok, "R15.4", "%s:%s#%d%s" % (fid, rv["n"].rsplit("::", 1)[-1], _nth(f, b, i, "agg"), _tag(cfg)),
                         "a slice range is built from a wire-derived length without a dominating comparison against the input length "
                         "(out-of-range slice = panic = abort)", f.where(st["ln"]), detail="range bounded by input length")
    ck.floor("R15-sources" + _tag(cfg), n_src, 8)
    ck.floor("R15.1" + _tag(cfg), n1, 3)
    ck.floor("R15.2" + _tag(cfg), n2, 1)
    ck.floor("R15.4" + _tag(cfg), n4, 4)
    ck.extra.setdefault("taint_sites", {}).update({"sources": n_src, "casts": n1, "allocs": n2, "arith": n3, "ranges": n4})


def _nth(f, b, i, kind):
    sites = [(bb, ii) for bb, ii, st in f.stmts() if st["rv"]["k"] == kind]
    return sites.index((b, i))


def _ordc(f, b, pats):
    sites = sorted(bb for bb, t in f.calls() if is_callee(t, *pats))
    return sites.index(b)


# ------------------------------------------------------------------------------------------------
def _r155(ck, prog, cfg):
    C = "redis::resp_optimized::RespCodec::"
    parse = prog.one(C + "parse")
    # the only string compared with the error is the sentinel, and that edge returns Ok(None)
    sent = []
    for b, t in parse.calls():
        if is_callee(t, r"PartialEq<.*>>::eq$", r"PartialEq>::eq$"):
            for a in t["args"]:
                pl = op_place(a)
                # the literal side is a promoted `&"..."` constant: take its value
                cur = a
                for _ in range(4):
                    if "c" in cur:
                        sent.append((b, cur.get("pv") or cur["c"]))
                        break
                    pl = op_place(cur)
                    defs = parse.defs().get(pl["l"], []) if pl is not None else []
                    if len(defs) == 1 and defs[0][2] == "assign" and defs[0][3]["k"] in ("use",):
                        cur = defs[0][3]["a"]
                    elif len(defs) == 1 and defs[0][2] == "assign" and defs[0][3]["k"] == "ref" and defs[0][3]["pl"].get("p", []) in ([], ["*"]):
                        cur = {"cp": {"l": defs[0][3]["pl"]["l"]}}
                    else:
                        break
    ck.check(len(sent) == 1 and sent[0][1] == '"Incomplete"', "R15.5", "parse:sentinel" + _tag(cfg),
             "RespCodec::parse no longer maps exactly the \"Incomplete\" sentinel to Ok(None) (%s)" % sent, parse.where(), detail="sentinel == \"Incomplete\"")
    # advance only on success, by the consumed count
    adv = [(b, t) for b, t in parse.calls() if is_callee(t, r"bytes::Buf>::advance$", r"BytesMut::advance$", r"Buf::advance$")]
    ck.check(len(adv) == 1, "R15.5", "parse:single-advance" + _tag(cfg), "RespCodec::parse must consume input exactly once, on success", parse.where())
    for b, t in adv:
        s = src_of_operand(parse, t["args"][1])
        ck.check(s.kind == "call" and is_callee(s.term, r"RespCodec::try_parse$") and s.fields[-1:] == ("1",), "R15.5",
                 "parse:advance-by-consumed" + _tag(cfg), "input is advanced by something other than the size try_parse reported", parse.where(t["ln"]),
                 detail="advance(consumed)")
    # per-type parsers: the find_crlf None edge yields the sentinel
    n = 0
    for name in ("parse_simple_string", "parse_error", "parse_integer", "parse_bulk_string", "parse_array"):
        f = prog.one(C + name)
        fc = [(b, t) for b, t in f.calls() if is_callee(t, r"RespCodec::find_crlf$")]
        ck.check(len(fc) == 1, "R15.5", "%s:find_crlf%s" % (name, _tag(cfg)), "find_crlf call not found exactly once", f.where())
        for b, t in fc:
            # combinator forms: find_crlf(..).ok_or_else(|| "Incomplete".to_string())? / .map_or_else(|| Err("Incomplete".."), ..)
            handled = False
            if "p" not in t["dest"]:
                vals, refs = lib2.value_aliases(f, t["dest"]["l"])
                for cb, ct in f.calls():
                    if is_callee(ct, r"Option::<usize>::(ok_or_else|map_or_else|ok_or|map_or)\b") and ct["args"]:
                        a0 = op_place(ct["args"][0]) if "c" not in ct["args"][0] else None
                        if a0 is None or a0["l"] not in vals:
                            continue
                        handled = True
                        texts = []
                        if len(ct["args"]) > 1:
                            s1 = src_of_operand(f, ct["args"][1])
                            if s1.kind == "agg" and s1.rv.get("ak") == "closure":
                                cfn = prog.fns.get(s1.rv["n"])
                                if cfn is not None:
                                    texts = [_lit(cfn, tt["args"][0]) for _, tt in cfn.calls() if is_callee(tt, r"ToString>::to_string$") and tt["args"]]
                            else:
                                cur = s1
                                hops = 0
                                while cur.kind in ("agg", "call") and hops < 4:
                                    if cur.kind == "call" and is_callee(cur.term, r"ToString>::to_string$"):
                                        texts = [_lit(f, cur.term["args"][0])]
                                        break
                                    nxt = (cur.rv.get("ops") or [None])[0] if cur.kind == "agg" else (cur.term["args"] or [None])[0]
                                    if nxt is None:
                                        break
                                    cur = src_of_operand(f, nxt)
                                    hops += 1
                        n += 1
                        ck.check(texts == ['"Incomplete"'], "R15.5", "%s:no-terminator-is-incomplete%s" % (name, _tag(cfg)),
                                 "a line without terminator is not reported as Incomplete (%s): a proper prefix of a valid frame would be a "
                                 "protocol error" % texts, f.where(t["ln"]), detail="None -> Err(\"Incomplete\") via %s" % callee(ct).rsplit("::", 1)[-1])
            if handled:
                continue
            for sb in sorted(f.reachable_blocks()):
                si = switch_info(f, sb)
                if si and si["kind"] == "discr" and "p" not in si["place"] and si["place"]["l"] == t["dest"]["l"]:
                    from .lib import edge_targets
                    none_t = edge_targets(f, sb, 0)
                    some_t = edge_targets(f, sb, 1)
                    reg = ({none_t} | f.reach([none_t], avoid=[sb])) - ({some_t} | f.reach([some_t], avoid=[sb]))
                    texts = [_lit(f, tt["args"][0]) for x in reg for tt in [f.term(x)] if tt["k"] == "call" and is_callee(tt, r"ToString>::to_string$") and tt["args"]]
                    # any other way of producing an error text on the no-terminator edge (format!, String::from, a crate-local helper that
                    # returns its own Result) is a second, non-sentinel answer for an unterminated line
                    for x in reg:
                        tt = f.term(x)
                        if tt["k"] != "call":
                            continue
                        cn = callee(tt) or ""
                        if re.search(r"^std::fmt::format$|String as std::convert::From<.*>>::from$|ToOwned>::to_owned$|^alloc::fmt::format$", cn) or \
                                (cn in prog.fns and "Result<" in str(prog.fns[cn].locals[0]) and "String" in str(prog.fns[cn].locals[0])):
                            texts.append("<%s>" % cn.rsplit("::", 1)[-1])
                    n += 1
                    ck.check(texts == ['"Incomplete"'], "R15.5", "%s:no-terminator-is-incomplete%s" % (name, _tag(cfg)),
                             "a line without terminator is not reported as Incomplete (%s): a proper prefix of a valid frame would be a "
                             "protocol error" % texts, f.where(t["ln"]), detail="None -> Err(\"Incomplete\")")
    ck.floor("R15.5" + _tag(cfg), n, 5)
    # try_parse on empty input
    tp = prog.one(C + "try_parse")
    texts = [_lit(tp, t["args"][0]) for b, t in tp.calls() if is_callee(t, r"ToString>::to_string$") and t["args"]]
    ck.check('"Incomplete"' in texts, "R15.5", "try_parse:empty-is-incomplete" + _tag(cfg), "try_parse on empty input is not Incomplete", tp.where())
    # bulk string completeness guard: the comparison against input.len() that guards the payload slice must be on a value that
    # includes the 2 terminator bytes: the guarded quantity derives from a checked_add(.., 2) / `+ 2`
    bs = prog.one(C + "parse_bulk_string")
    ok = False
    why = "no completeness guard found"
    for sb in sorted(bs.reachable_blocks()):
        si = switch_info(bs, sb)
        if not (si and si["kind"] == "val" and si["src"] is not None and si["src"].kind == "rv" and si["src"].rv["k"] == "bin"):
            continue
        r = si["src"].rv
        if r["op"] not in ("Gt", "Lt", "Ge", "Le"):
            continue
        a, b = src_of_operand(bs, r["a"], through_calls=(r"Try>::branch$",)), src_of_operand(bs, r["b"], through_calls=(r"Try>::branch$",))
        for x, y in ((a, b), (b, a)):
            if y.kind == "call" and is_callee(y.term, *LEN):
                # x must include the terminator: Add(_, 2) or and_then(checked_add 2)
                if x.kind == "rv" and x.rv["k"] == "bin" and x.rv["op"].startswith("Add") and "2_usize" in (x.rv["b"].get("c", ""), x.rv["a"].get("c", "")):
                    ok = True
                elif x.kind == "call" and is_callee(x.term, r"Option::<usize>::and_then", r"checked_add$"):
                    ok = _adds_two(prog, bs, x)
                    why = "the guarded quantity does not include the 2 terminator bytes"
                elif x.kind in ("path", "multi", "rv", "call"):
                    # `total` bound from a match on checked_add chain
                    ok = ok or _derives_from_plus_two(prog, bs, r, x)
                    why = "the guarded quantity does not include the 2 terminator bytes"
                # the incomplete edge must produce the sentinel
    ck.check(ok, "R15.5", "parse_bulk_string:guard-covers-terminator" + _tag(cfg),
             "the completeness test of a bulk string does not cover payload + CRLF (%s): a frame cut between payload and terminator is "
             "treated as complete or as a protocol error" % why, bs.where(), detail="len(input) compared with start+len+2")


def _adds_two(prog, f, x):
    # and_then(closure) where the closure calls checked_add(_, 2)
    for a in x.term["args"]:
        s = src_of_operand(f, a)
        if s.kind == "agg" and s.rv["ak"] == "closure":
            c = prog.fns.get(s.rv["n"])
            if c is not None:
                for b, t in c.calls():
                    if is_callee(t, r"checked_add$") and any(a2.get("c") == "2_usize" for a2 in t["args"]):
                        return True
    if is_callee(x.term, r"checked_add$") and any(a2.get("c") == "2_usize" for a2 in x.term["args"]):
        return True
    return False


def _derives_from_plus_two(prog, f, r, x):
    # walk the definition chain of the compared local looking for an and_then/checked_add with constant 2
    seen = set()
    work = [x]
    while work:
        s = work.pop()
        if id(s) in seen:
            continue
        seen.add(id(s))
        if s.kind == "call":
            if is_callee(s.term, r"Option::<usize>::and_then", r"checked_add$") and _adds_two(prog, f, s):
                return True
            for a in s.term["args"]:
                if "c" not in a:
                    work.append(src_of_operand(f, a, through_calls=(r"Try>::branch$",)))
        elif s.kind == "multi" and s.local is not None:
            for (b, i, kind, payload) in f.defs().get(s.local, []):
                if kind == "assign" and payload["k"] == "use":
                    work.append(src_of_operand(f, payload["a"], through_calls=(r"Try>::branch$",)))
                elif kind == "call":
                    work.append(src_of_operand(f, {"cp": {"l": s.local}}))
        elif s.kind == "rv" and s.rv["k"] == "bin" and s.rv["op"].startswith("Add"):
            if "2_usize" in (s.rv["b"].get("c", ""), s.rv["a"].get("c", "")):
                return True
    return False


# ------------------------------------------------------------------------------------------------
def _r156(ck, ctx):
    import os
    from . import facts
    txt = open(os.path.join(facts.REPO, "Cargo.toml")).read()
    m = re.search(r"\[profile\.release\][^\[]*", txt)
    abort = bool(m and re.search(r'panic\s*=\s*"abort"', m.group(0)))
    ck.extra["release_panic_abort"] = abort
    ck.ok("R15.6", "release-profile-recorded", "panic=abort: %s" % abort)
    # fixed-size scratch arrays in the reply encoder: an `[0u8; N]` indexed by a computed position must have N >= 20
    prog = ctx.prog("default")
    for f in prog.lib_fns():
        if f.file != "src/production/connection_optimized.rs":
            continue
        for b, i, st in f.stmts():
            rv = st["rv"]
            if rv["k"] == "repeat" and rv["a"].get("c", "").endswith("_u8"):
                m2 = re.match(r"^(\d+)", rv["n"].replace("_usize", ""))
                if not m2:
                    continue
                n = int(m2.group(1))
                # used for decimal formatting if the function also divides/rems by 10
                dec = any(s2["rv"]["k"] == "bin" and s2["rv"]["op"] in ("Rem", "Div") and s2["rv"]["b"].get("c", "").startswith("10_") for _, _, s2 in f.stmts())
                if dec:
                    ck.check(n >= 20, "R15.6", "%s:decimal-scratch[%d]" % (f.short, n),
                             "a %d-byte scratch buffer is used to format decimal integers: i64::MIN needs 20 characters, so the index "
                             "underflows / goes out of bounds for large negative replies (panic = abort)" % n, f.where(st["ln"]),
                             detail="scratch >= 20 bytes")


def _r157(ck, prog, cfg):
    n = 0
    for fid in sorted(derived_sources(prog)):
        f = prog.fns[fid]
        rt = f.locals[0] if isinstance(f.locals[0], str) else ""
        m = INTISH.match(rt)
        signed = m is not None and m.group(2) in ("i64", "i32", "isize")
        n += 1
        key = "%s:covers-minimum%s" % (f.short, _tag(cfg))
        if not signed:
            ck.ok("R15.7", key, "unsigned result (%s)" % rt)
            continue
        # locals that hold an accumulated magnitude: results of checked_mul/checked_add/Mul/Add chains
        acc = set()
        for g in [f] + prog.children(f):
            pass
        changed = True
        while changed:
            changed = False
            for b, t in f.calls():
                if "p" in t["dest"]:
                    continue
                d = t["dest"]["l"]
                if d in acc:
                    continue
                if is_callee(t, r"::(checked|wrapping|saturating)_(mul|add)$") or \
                        (is_callee(t, *PASS, r"Option::<.*>::(ok_or_else|ok_or)\b") and any((op_place(a) or {}).get("l") in acc for a in t["args"] if "c" not in a)):
                    acc.add(d)
                    changed = True
            for b, i, st in f.stmts():
                if "p" in st["lhs"] or st["lhs"]["l"] in acc:
                    continue
                rv = st["rv"]
                ops = []
                if rv["k"] == "bin" and rv["op"] in ("Mul", "Add", "MulWithOverflow", "AddWithOverflow"):
                    if rv["op"].startswith("Mul") or any((op_place(o) or {}).get("l") in acc for o in (rv["a"], rv["b"]) if "c" not in o):
                        acc.add(st["lhs"]["l"])
                        changed = True
                elif rv["k"] in ("use", "cast"):
                    ops = [rv["a"]]
                for o in ops:
                    p_ = op_place(o) if "c" not in o else None
                    if p_ is not None and p_["l"] in acc:
                        acc.add(st["lhs"]["l"])
                        changed = True
        neg = None
        for b, i, st in f.stmts():
            rv = st["rv"]
            if rv["k"] == "un" and rv["op"] == "Neg":
                p_ = op_place(rv["a"]) if "c" not in rv["a"] else None
                if p_ is not None and p_["l"] in acc and f.locals[p_["l"]] in ("i64", "i32", "isize"):
                    neg = st["ln"]
        ck.check(neg is None, "R15.7", key,
                 "%s accumulates the magnitude of a signed number in %s and negates it afterwards: the minimum value (e.g. "
                 "`:-9223372036854775808`), which the encoders emit, is rejected as out of range" % (f.short, rt), f.where(neg),
                 detail="no negate-after-accumulate")
    ck.extra.setdefault("derived_sources", sorted(derived_sources(prog)))


def prefix_rule(ck, prog, cfg, rid):
    """Between the point where a frame's total size is known and the completeness test nothing may reject the input: in the length-
    prefixed parsers every protocol-error exit (an Err other than the "Incomplete" sentinel) that is reachable after the total size
    was computed must lie behind the `complete` edge of the comparison of that size with input.len().  Otherwise a proper prefix of
    a valid frame (a read that ends inside the frame) is answered with a protocol error."""
    C = "redis::resp_optimized::RespCodec::"
    n = 0
    for name in ("parse_bulk_string",):
        f = prog.one(C + name)
        # the completeness guard: comparison of a tainted total against input.len()
        guards_ = []
        for sb in sorted(f.reachable_blocks()):
            si = switch_info(f, sb)
            if not (si and si["kind"] == "val" and si["src"] is not None and si["src"].kind == "rv" and si["src"].rv["k"] == "bin"):
                continue
            r = si["src"].rv
            if r["op"] not in ("Gt", "Lt", "Ge", "Le"):
                continue
            a, b = src_of_operand(f, r["a"], through_calls=(r"Try>::branch$",)), src_of_operand(f, r["b"], through_calls=(r"Try>::branch$",))
            for x, y, xo in ((a, b, r["a"]), (b, a, r["b"])):
                if y.kind == "call" and is_callee(y.term, *LEN) and _derives_from_plus_two(prog, f, r, x) or \
                        (y.kind == "call" and is_callee(y.term, *LEN) and x.kind == "rv" and x.rv["k"] == "bin" and x.rv["op"].startswith("Add")):
                    # incomplete edge: total > len  (Gt true / Le false ...)
                    tt, ft = lib2.bool_edges(f, sb)
                    total_is_a = x is a
                    op = r["op"]
                    incomplete_true = (op in ("Gt", "Ge") and total_is_a) or (op in ("Lt", "Le") and not total_is_a)
                    guards_.append((sb, ft if incomplete_true else tt, xo, x))
        ck.check(len(guards_) >= 1, rid, "%s:completeness-guard%s" % (name, _tag(cfg)), "no completeness test (total size vs input.len()) found", f.where())
        if not guards_:
            continue
        gsb, complete_t, total_op, total_src = guards_[0]
        tl = op_place(total_op)
        # where the total becomes known: the definition(s) of the user variable behind the compared temporary
        # follow plain copies from the compared temporary to the first named local (`total`): that is where the size becomes known
        tlocal = tl["l"] if tl is not None and "p" not in tl else None
        hops = 0
        while tlocal is not None and f.name_of_local(tlocal) is None and hops < 6:
            ds = f.defs().get(tlocal, [])
            nxt = None
            if len(ds) == 1 and ds[0][2] == "assign" and ds[0][3]["k"] == "use" and "c" not in ds[0][3]["a"]:
                q = op_place(ds[0][3]["a"])
                if q is not None and "p" not in q:
                    nxt = q["l"]
            if nxt is None:
                break
            tlocal = nxt
            hops += 1
        tdefs = [db for (db, di, kind, payload) in f.defs().get(tlocal, [])] if tlocal is not None else []

        errs = []
        for b, t in f.calls():
            if is_callee(t, r"ToString>::to_string$") and t["args"]:
                txt = _lit(f, t["args"][0])
                if txt and txt != '"Incomplete"':
                    errs.append((b, t, txt))
        for b, i, st in f.stmts():
            pass
        for b, t, txt in errs:
            after_total = any(f.dominates(db, b) for db in tdefs) if tdefs else False
            if not after_total:
                continue
            n += 1
            ok = b == complete_t or f.dominates(complete_t, b)
            ck.check(ok, rid, "%s:error-before-complete:%s%s" % (name, re.sub(r"[^A-Za-z]+", "-", txt)[:30], _tag(cfg)),
                     "%s rejects the input with %s once the frame size is known but before the frame is known to be complete: a read that ends "
                     "inside the frame (any fragmentation of a valid stream) is answered with a protocol error instead of waiting for the rest"
                     % (name, txt), f.where(t["ln"]), detail="protocol errors only behind the completeness test")
        ck.ok(rid, "%s:no-rejection-before-complete%s" % (name, _tag(cfg)), "%d late error exits, all behind the completeness test" % n)
        # ... and nothing may *accept* a payload before it either: a non-null bulk string is only returned behind the completeness test
        # (an `Ok` with a consumed count the buffer does not hold makes the caller advance past the end: panic = abort)
        m = 0
        for b, i, st in f.stmts():
            rv = st["rv"]
            if rv["k"] == "agg" and rv.get("n", "").endswith("RespValueZeroCopy::BulkString") and rv.get("ops"):
                pay = src_of_operand(f, rv["ops"][0])
                is_none = pay.kind == "agg" and pay.rv.get("n", "").endswith("Option::None")
                if is_none:
                    continue
                m += 1
                ck.check(b == complete_t or f.dominates(complete_t, b), rid, "%s:payload-accepted-behind-completeness-test#%d%s" % (name, m, _tag(cfg)),
                         "%s returns a bulk string with a payload on a path that has not compared the frame's total size with the bytes present: "
                         "the consumed count can exceed the buffer (over-read / panic in advance()) and a prefix of a frame is decoded as a frame"
                         % name, f.where(st["ln"]), detail="Ok(BulkString(Some(..))) only behind `total <= input.len()`")
        ck.floor(rid + "-payload-exits" + _tag(cfg), m, 1)


WRITES = (r"BufMut>::put_(u8|slice)$", r"BytesMut::(extend_from_slice|put_slice|put_u8)$", r"Vec::<u8>::(push|extend_from_slice)$",
          r"Extend<.*>>::extend$", r"String::(push|push_str)$", r"Write>::write_all$")
CONTENT_TESTS = (r"str>::starts_with", r"str>::ends_with", r"str>::contains", r"str>::find", r"str>::strip_prefix", r"eq_ignore_ascii_case$",
                 r"<impl str>::(starts_with|ends_with|contains|find|strip_prefix)", r"<impl \[.*\]>::(starts_with|ends_with|contains)",
                 )   # whole-value equality is not listed: `if s == "OK" { write b"+OK\r\n" }` can be a faithful constant encoding


def _r158(ck, prog, cfg):
    encs = [f for f in prog.lib_fns() if "{closure" not in f.id and "encode" in f.short
            and any(isinstance(l, str) and re.match(r"&(redis::resp::RespValue|redis::resp_optimized::RespValueZeroCopy)$", l) for l in f.locals[1:1 + f.d["argc"]])]
    ck.floor("R15.8-encoders" + _tag(cfg), len(encs), 4)
    nw = 0
    for e in encs:
        # the encoder, its closures, and same-crate functions it calls (two levels)
        seen, work = {}, [(e, 0)]
        while work:
            g, d = work.pop()
            if g.id in seen:
                continue
            seen[g.id] = g
            for c in prog.children(g):
                work.append((c, d))
            if d < 2:
                for b, t in g.calls():
                    h = prog.fns.get(t.get("res") or t.get("fn") or "")
                    if h is not None and h.file.startswith("src/") and h.id not in seen:
                        work.append((h, d + 1))
        for g in seen.values():
            for b, t in g.calls():
                if not is_callee(t, *WRITES) or len(t["args"]) < 2:
                    continue
                nw += 1
                a = src_of_operand(g, t["args"][1], through_calls=TRANSPARENT)
                if a.kind != "const":
                    continue
                for gd in lib2.guards(g, b):
                    sr = gd["src"]
                    if sr is not None and sr.kind == "call" and is_callee(sr.term, *CONTENT_TESTS) and "RespValue" not in callee(sr.term):
                        ck.bad("R15.8", "%s:%s:content-dependent-constant%s" % (e.short, g.short, _tag(cfg)),
                               "while encoding a reply, %s writes the constant %s only when a test of the payload's text (%s) goes one way: the bytes on "
                               "the wire are no longer the value's own bytes, and the reply decodes to a different value than the one emitted"
                               % (g.short, (a.text or "")[:20], callee(sr.term).rsplit("::", 1)[-1]), g.where(t["ln"]))
                        break
        ck.ok("R15.8", "%s:transparent%s" % (e.short if e.short != "encode" else e.id.split("::")[-2] + "::encode", _tag(cfg)),
              "%d function(s) behind it analysed" % len(seen))
    ck.floor("R15.8-writes" + _tag(cfg), nw, 20)


MARKER = {"SimpleString": "+", "Error": "-", "Integer": ":", "BulkString": "$", "Array": "*"}


def _first_byte(txt):
    if not txt:
        return None
    m = re.match(r"^(\d+)_u8$", txt)
    if m:
        return chr(int(m.group(1)))
    m = re.match(r'^b?"(\\?.)', txt)
    if m:
        return m.group(1)
    m = re.match(r"^b?'(.)'", txt)
    if m:
        return m.group(1)
    return None


def _r1510(ck, prog, cfg):
    encs = [f for f in prog.lib_fns() if "{closure" not in f.id and "encode" in f.short
            and any(isinstance(l, str) and re.match(r"&(redis::resp::RespValue|redis::resp_optimized::RespValueZeroCopy)$", l) for l in f.locals[1:1 + f.d["argc"]])]
    n = 0
    for e in encs:
        ename = e.short if e.short != "encode" else e.id.split("::")[-2] + "::encode"
        sw = None
        for b in sorted(e.reachable_blocks()):
            si = switch_info(e, b)
            if si and si["kind"] == "discr" and re.search(r"resp(_optimized)?::RespValue(ZeroCopy)?$", si["ty"]):
                sw = (b, si)
                break
        if sw is None:
            continue
        b0, si = sw
        names = [v["n"] for v in prog.adts[si["ty"]]["variants"]]
        writes = {b: t for b, t in e.calls() if is_callee(t, *WRITES) and len(t["args"]) >= 2}
        for v, tg in e.term(b0)["cases"]:
            var = names[int(v)]
            if var not in MARKER:
                continue
            # first write on every path from the arm entry
            firsts, seen, work = [], set(), [tg]
            while work:
                x = work.pop()
                if x in seen:
                    continue
                seen.add(x)
                if x in writes:
                    firsts.append(writes[x])
                    continue
                for y in e.succ(x):
                    work.append(y)
            bad, undecided = [], 0
            for t in firsts:
                a = src_of_operand(e, t["args"][1], through_calls=TRANSPARENT)
                fb = _first_byte(a.text if a.kind == "const" else None)
                if fb is None:
                    undecided += 1
                elif fb != MARKER[var]:
                    bad.append((t, fb))
            if not firsts or undecided == len(firsts):
                continue        # formatted through format!/write!: not decided here
            n += 1
            ck.check(not bad, "R15.10", "%s:%s:marker%s" % (ename, var, _tag(cfg)),
                     "%s opens a %s with `%s` on some path (expected `%s`): the bytes decode to a value of another kind, so this reply does not "
                     "decode back to the value that was emitted" % (ename, var, bad[0][1] if bad else "", MARKER[var]),
                     e.where(bad[0][0]["ln"] if bad else None), detail="first byte `%s` on %d path(s)" % (MARKER[var], len(firsts)))
    ck.floor("R15.10" + _tag(cfg), n, 10)


# ------------------------------------------------------------------------------------------------
INCOMPLETE_TEXT = ("a complete frame is never called incomplete: in the RESP decoders every construction of the `Incomplete` sentinel is decided "
                   "by a missing terminator (find_crlf found none), by an exact position (an offset / start + declared length, sums only) "
                   "running past the bytes present, or by emptiness of the input - never by an estimate such as count * minimum-element-size "
                   "(a frame of short elements would wait for bytes that never come, and its reply with it)")
ARITH_CALLS = r"(saturating|checked|wrapping|overflowing)_(add|sub|mul)$|<usize as std::cmp::Ord>::(min|max)$|Try>::branch$|unwrap_or$|Option::<usize>::unwrap$"


def _has_product(f, operand, depth=0, seen=None):
    """does the backward slice of `operand` (through arithmetic only) contain a multiplication / shift / division?"""
    if depth > 8:
        return False
    s_ = src_of_operand(f, operand, through_calls=(r"Try>::branch$",))
    if s_.kind == "rv" and s_.rv["k"] == "bin":
        if re.match(r"Mul|Shl|Div|Shr", s_.rv["op"]):
            return True
        return _has_product(f, s_.rv["a"], depth + 1) or _has_product(f, s_.rv["b"], depth + 1)
    if s_.kind == "rv" and s_.rv["k"] in ("cast", "un") and "a" in s_.rv:
        return _has_product(f, s_.rv["a"], depth + 1)
    if s_.kind == "call":
        nm = callee(s_.term) or ""
        if re.search(r"_(mul|pow|shl|div)$|::pow$", nm):
            return True
        if re.search(ARITH_CALLS, nm):
            return any(_has_product(f, a, depth + 1) for a in s_.term["args"])
    return False


def incomplete_rule(ck, prog, cfg, rid):
    n = 0
    for f in prog.lib_fns():
        if f.file not in ("src/redis/resp.rs", "src/redis/resp_optimized.rs") or "::tests::" in f.id or "test" in f.short:
            continue
        k = 0
        for b, t in f.calls():
            # "Incomplete".to_string() / String::from("Incomplete") / .into(): the literal sits in the block as a const (directly or via a local)
            if not is_callee(t, r"ToString>::to_string$", r"From<&str>>::from$", r"Into<.*>>::into$", r"ToOwned>::to_owned$", r"str::to_owned$"):
                continue
            txt = " ".join(str(a.get("pv") or a.get("c") or "") for a in t["args"]) + " " + \
                " ".join(str(st["rv"].get("a", {}).get("c", "")) + str(st["rv"].get("a", {}).get("pv", "")) for st in f.blocks[b]["st"] if st["rv"]["k"] == "use")
            if "Incomplete" not in txt:
                continue
            n += 1
            bad = None
            for sb, _ in lib2.controlling_switches(f, b):
                si = switch_info(f, sb)
                if not si or si["kind"] != "val" or si["src"] is None or si["src"].kind != "rv" or si["src"].rv["k"] != "bin":
                    continue
                r = si["src"].rv
                if _has_product(f, r["a"]) or _has_product(f, r["b"]):
                    bad = f.term(sb)["ln"]
            key = "%s:incomplete#%d%s" % (f.short if f.kind != "closure" else (f.parent or "").rsplit("::", 1)[-1] + "::{closure}", k, _tag(cfg))
            k += 1
            ck.check(bad is None, rid, key,
                     "this `Incomplete` answer is decided by a comparison (line %s) over a product/quotient of a wire-derived count - an estimate, "
                     "not the position of a missing byte: a complete frame whose elements are shorter than the estimate assumes is reported as "
                     "incomplete, so the connection waits for more input and the command's reply never comes" % bad, f.where(t["ln"]),
                     detail="decided by terminator / exact position")
    ck.floor(rid + _tag(cfg), n, 8)


def _r1514(ck, prog, cfg):
    n = 0
    fns = [f for f in prog.lib_fns() if f.file in ("src/redis/resp.rs", "src/redis/resp_optimized.rs") and f.short == "find_crlf" and "::tests::" not in f.id]
    if len(fns) < 2:
        ck.anchor_lost("R15.14", "the find_crlf helpers of RespParser and RespCodec were not both found")
        return
    for f in fns:
        defs = f.defs()
        owner = (f.impl_self or "").rsplit("::", 1)[-1]
        k = 0
        for b, i, st in f.stmts():
            rv = st["rv"]
            l = st["lhs"].get("l")
            if st["lhs"].get("p") or rv["k"] != "bin" or not rv["op"].startswith("Add"):
                continue
            # a loop-carried position: a local with more than one definition (initialised before the loop, advanced inside it)
            if len(defs.get(l, [])) < 2:
                continue
            c = (rv["b"].get("c") or rv["a"].get("c") or "").replace("const ", "")
            n += 1
            ck.check(c == "1_usize", "R15.14", "%s::find_crlf:resume#%d%s" % (owner, k, _tag(cfg)),
                     "after a `\\r` that is not followed by `\\n` the scan resumes %s bytes further (not 1): the skipped byte can be the `\\r` of the real "
                     "terminator, so a complete line is reported as unterminated or swallowed into the next frame" % (c or "a variable number of"),
                     f.where(st["ln"]), detail="resume = candidate + 1")
            k += 1
        # iterator forms that enumerate every candidate by construction: windows(2) slides by one, memchr_iter yields every CR
        enum_ = [callee(t).rsplit("::", 1)[-1] for g in prog.with_children(f) for _, t in g.calls()
                 if is_callee(t, r"<impl \[u8\]>::windows$", r"memchr::memchr_iter$", r"memchr::memmem::find(_iter)?$")]
        if k == 0 and enum_:
            n += 1
        ck.ok("R15.14", "%s::find_crlf:scanned%s" % (owner, _tag(cfg)), detail="%d loop-carried position updates; enumerating adaptors: %s" % (k, enum_))
    ck.floor("R15.14" + _tag(cfg), n, 1)


def _r1515(ck, prog, cfg):
    encs = [f for f in prog.lib_fns() if "{closure" not in f.id and "encode" in f.short
            and any(isinstance(l, str) and re.match(r"&(redis::resp::RespValue|redis::resp_optimized::RespValueZeroCopy)$", l) for l in f.locals[1:1 + f.d["argc"]])]
    n = 0
    for e in encs:
        ename = e.short if e.short != "encode" else e.id.split("::")[-2] + "::encode"
        sw = None
        for b in sorted(e.reachable_blocks()):
            si = switch_info(e, b)
            if si and si["kind"] == "discr" and re.search(r"resp(_optimized)?::RespValue(ZeroCopy)?$", si["ty"]):
                sw = (b, si)
                break
        if sw is None:
            continue
        b0, si = sw
        names = [v["n"] for v in prog.adts[si["ty"]]["variants"]]
        arr = [tg for v, tg in e.term(b0)["cases"] if names[int(v)] == "Array"]
        if not arr:
            continue
        n += 1
        arm = {x for x in e.reachable_blocks() if e.dominates(arr[0], x)}
        rec = [b for b, t in e.calls() if b in arm and callee(t) == e.id]
        for k_ in prog.children(e):
            if any(callee(t) == e.id for _, t in k_.calls()):
                # the closure must be created inside the Array arm
                for b, i, st in e.stmts():
                    if b in arm and st["rv"]["k"] == "agg" and st["rv"].get("ak") == "closure" and st["rv"].get("n") == k_.id:
                        rec.append(b)
        queues = [callee(t).rsplit("::", 1)[-1] for b, t in e.calls() if is_callee(t, r"VecDeque::<.*>::(push_back|push_front|pop_front|pop_back|extend)$")]
        ck.check(bool(rec) and not queues, "R15.15", "%s:array-arm-recurses%s" % (ename, _tag(cfg)),
                 "the Array arm of %s %s: elements of a nested array are not written completely before the next sibling, so a reply with a nested "
                 "array followed by another element decodes to a different value" % (ename, "does not call the encoder on its elements" if not rec else "routes elements through a work list (%s)" % queues[:2]),
                 e.where(e.term(b0)["ln"]), detail="recursive call per element inside the Array arm")
    ck.floor("R15.15" + _tag(cfg), n, 3)
