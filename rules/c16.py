"""C16 — a command means the same via every entry path: parser siblings, helper siblings, Lua translator vs RESP grammar."""
import json
import re
from .facts import callee
from . import ast as A
from . import facts
from .lib import is_callee, switch_info, src_of_operand, TRANSPARENT

FILES = ("src/redis/parser.rs", "src/redis/commands.rs", "src/redis/executor/script_ops.rs")
RENAME = {
    "extract_string_zc": "extract_string", "extract_sds_zc": "extract_sds", "extract_integer_zc": "extract_integer",
    "extract_float_zc": "extract_float", "extract_i64_zc": "extract_i64", "extract_u64_zc": "extract_u64", "extract_bytes_zc": "extract_bytes",
    "RespValueZeroCopy": "RespValue", "from_resp_zero_copy": "from_resp",
}


EXTRA_HELPERS = set()


def _tag(cfg):
    return "" if cfg == "default" else "@" + cfg


def run(ck, ctx):
    ck.rule("R16.1", "parser siblings agree: Command::from_resp and Command::from_resp_zero_copy have the same set of command-name arms "
                     "(incl. nested sub-command arms) and, per arm, equal normal forms (comments/line numbers dropped, redundant blocks "
                     "flattened, the fixed renaming table applied)")
    ck.rule("R16.2", "helper siblings agree: extract_{string,sds,integer,float,i64,u64} and their _zc twins have equal normal forms modulo "
                     "the renaming table and the documented byte-access difference")
    ck.rule("R16.3", "Lua translator within the RESP grammar: every command name parse_lua_command_bytes accepts exists in the RESP parser, "
                     "constructs the same Command variant(s), applies the same case normalisation to the same argument positions and "
                     "recognises option keywords the RESP parser knows")
    ck.rule("R16.4", "RESP<->Lua conversion tables are total: resp_to_lua_value / lua_to_resp have an arm for every RespValue variant")
    ck.rule("R16.5", "byte transparency of value operands: the redis.call translator builds every SDS operand from the raw argument bytes "
                     "(SDS::new(bytes)), as the RESP parsers do; an SDS built through a UTF-8 (lossy) string alters binary values on the "
                     "script path only")
    ck.nd("effect equality of script vs direct invocation over all keyspace states")
    ck.assume("a behaviour-preserving rewrite of ONE parser copy in a style outside the normalisation is reported as drift (the repo documents "
              "the two functions as copies to keep in sync by hand)")
    tree = A.load(FILES)
    # twins discovered by name: every `foo_zc` next to a `foo` (helpers extracted from both parsers in step)
    names = {f["name"] for f in tree["fns"]}
    for f in tree["fns"]:
        nm = f["name"]
        if nm.endswith("_zc") and nm[:-3] in names and nm not in RENAME:
            RENAME[nm] = nm[:-3]
            if nm[:-3] not in HELPERS:
                EXTRA_HELPERS.add(nm[:-3])
    ck.configs.append("source")
    ck.fn_count += len(tree["fns"])
    _r161(ck, tree)
    _r162(ck, tree)
    _r163(ck, tree)
    ck.rule("R16.6", "each redis.call / redis.pcall is translated from its own arguments only: the argument vector handed to the command "
                     "translator (parse_lua_command_bytes) is built inside that callback invocation (a call result or a fresh local), never "
                     "taken from state the callback captured - a buffer that outlives the call keeps the parts of an invocation that failed "
                     "half-way (nil/boolean/table argument), and the next redis.call of the script runs a different command than the "
                     "script wrote")
    ck.rule("R16.7", "a command means the same inside a queued script: when EXEC replays its queue the executor has already left queuing mode - the "
                     "store `in_transaction = false` dominates the replay of the queued commands (the redis.call bridge re-enters the executor's "
                     "ordinary entry point; with the flag still set a queued EVAL gets `QUEUED` back from every redis.call and its commands are "
                     "dropped, while the same commands sent directly inside MULTI/EXEC take effect)")
    for cfg in ctx.configs:
        prog = ctx.prog(cfg)
        _r164(ck, prog, cfg)
        _r165(ck, prog, cfg)
        _r166(ck, prog, cfg)
        _r167(ck, prog, cfg)


# ------------------------------------------------------------------------------------------------
def _str_pats(p):
    """string literals of a match-arm pattern (Lit or Or of Lits); None if not purely string literals"""
    if p["k"] == "PLit" and p["v"]["t"] == "str":
        return [p["v"]["v"]]
    if p["k"] == "POr":
        out = []
        for c in p["cases"]:
            s = _str_pats(c)
            if s is None:
                return None
            out += s
        return out
    return None


def _is_string_match(e):
    if e.get("k") != "Match":
        return False
    return sum(1 for a in e["arms"] if _str_pats(a["pat"]) is not None) >= 2


def arm_table(body, prefix="", out=None):
    """{ 'CMD' or 'CMD/SUB' : arm body with nested string-matches replaced by a marker }"""
    out = out if out is not None else {}

    def visit(node, pfx):
        if isinstance(node, list):
            return [visit(x, pfx) for x in node]
        if not isinstance(node, dict):
            return node
        if _is_string_match(node):
            for a in node["arms"]:
                names = _str_pats(a["pat"])
                if names is None:
                    key = pfx + "_"
                    b = visit(a["body"], key + "/")
                    out.setdefault(key, {"body": b, "ln": a["ln"], "guard": a.get("guard")})
                    continue
                for nm in names:
                    key = pfx + nm
                    b = visit(a["body"], key + "/")
                    out[key] = {"body": b, "ln": a["ln"], "guard": a.get("guard")}
            return {"k": "StringMatch", "on": node["e"]}
        return {k: visit(v, pfx) for k, v in node.items()}
    visit(body, prefix)
    return out


def _main_match(fn):
    """the outermost string match of a parser function"""
    found = []

    def v(n):
        if isinstance(n, dict) and _is_string_match(n) and not found:
            found.append(n)
    A.walk(fn["body"], v)
    return found[0] if found else None


def _frame(body):
    """a parser function's body with its arm table (outermost string match) replaced by a marker"""
    done = []

    def visit(node):
        if isinstance(node, list):
            return [visit(x) for x in node]
        if not isinstance(node, dict):
            return node
        if not done and _is_string_match(node):
            done.append(1)
            return {"k": "ArmTable", "on": node["e"]}
        return {k: visit(v) for k, v in node.items()}
    return visit(body)


FOLDS = ("to_uppercase", "to_ascii_uppercase", "to_lowercase", "to_ascii_lowercase", "make_ascii_uppercase", "make_ascii_lowercase",
         "eq_ignore_ascii_case")


def _folds(node, tree=None, depth=0):
    """case-folding methods used in `node`, following calls to private helpers of the parser (`Self::command_name(..)`) one level"""
    out = set()

    def v(n):
        for x in n.values():
            if isinstance(x, str) and x in FOLDS:
                out.add(x)
        if tree is not None and depth < 2 and n.get("k") == "Call" and isinstance(n.get("f"), dict) and n["f"].get("k") == "Path":
            nm = n["f"]["p"].rsplit("::", 1)[-1]
            if n["f"]["p"].startswith(("Self::", "Command::")) and nm not in HELPERS and not nm.startswith("extract_"):
                for g in A.find_fn(tree, nm):
                    out.update(_folds(g["body"], tree, depth + 1))
    A.walk(node, v)
    return out


LOOP_VARS = ("i", "idx", "pos", "j")


def _assigned(node):
    """names of the option variables a keyword arm assigns (plain `x = ..`; the argument cursor is not an option)"""
    out = set()

    def v(n):
        if n.get("k") == "Assign" and isinstance(n.get("l"), dict) and n["l"].get("k") == "Path":
            nm = n["l"]["p"]
            if nm not in LOOP_VARS:
                out.add(nm)
    A.walk(node, v)
    return out


def _validators(node):
    """names of functions called as `path(..)?;` with the value discarded (a call that can only reject)"""
    out = set()

    def v(n):
        if n.get("k") == "Expr" and n.get("semi") and isinstance(n.get("e"), dict) and n["e"].get("k") == "Try":
            c = n["e"].get("e")
            if isinstance(c, dict) and c.get("k") == "Call" and isinstance(c.get("f"), dict) and c["f"].get("k") == "Path":
                out.add(c["f"]["p"].rsplit("::", 1)[-1])
            if isinstance(c, dict) and c.get("k") == "MethodCall":
                out.add(c["m"])
    A.walk(node, v)
    return out


def _r161(ck, tree):
    f1 = A.find_fn(tree, "from_resp", "Command")
    f2 = A.find_fn(tree, "from_resp_zero_copy", "Command")
    if len(f1) != 1 or len(f2) != 1:
        ck.anchor_lost("R16.1", "from_resp / from_resp_zero_copy not found exactly once")
        return
    f1, f2 = f1[0], f2[0]
    t1 = arm_table(_main_match(f1))
    t2 = arm_table(_main_match(f2))
    ck.floor("R16.1-arms", min(len(t1), len(t2)), 150)
    # what surrounds the arm table (how the command name is taken from the frame and case-folded, what a non-array frame
    # answers) is part of the grammar as well
    fr1, fr2 = _frame(f1["body"]), _frame(f2["body"])
    ck.check(A.normal_form(fr1, RENAME) == A.normal_form(fr2, RENAME), "R16.1", "frame",
             "the two parsers derive the command name / reject a malformed frame differently: %s" % _first_diff(fr1, fr2),
             "src/redis/commands.rs:%d" % f2["ln"], detail="equal normal forms around the arm table")
    for key in sorted(set(t1) | set(t2)):
        if key not in t1:
            ck.bad("R16.1", "arm:%s:only-in-zero-copy" % key, "the production (zero-copy) parser accepts `%s` but Command::from_resp has no such arm: "
                   "simulation and production disagree on what a client said" % key.replace("/", " "), "src/redis/commands.rs:%d" % t2[key]["ln"])
            continue
        if key not in t2:
            ck.bad("R16.1", "arm:%s:only-in-from_resp" % key, "Command::from_resp accepts `%s` but the production parser has no such arm" % key.replace("/", " "),
                   "src/redis/parser.rs:%d" % t1[key]["ln"])
            continue
        c1 = A.normal_form(t1[key]["body"], RENAME)
        c2 = A.normal_form(t2[key]["body"], RENAME)
        g1 = A.canon(t1[key].get("guard"), RENAME)
        g2 = A.canon(t2[key].get("guard"), RENAME)
        if c1 == c2 and g1 == g2:
            ck.ok("R16.1", "arm:%s" % key)
        else:
            ck.bad("R16.1", "arm:%s:differs" % key,
                   "the two parsers treat `%s` differently: %s" % (key.replace("/", " "), _first_diff(t1[key]["body"], t2[key]["body"])),
                   "src/redis/parser.rs:%d" % t1[key]["ln"], zero_copy_line=t2[key]["ln"])


def _first_diff(a, b):
    """human-readable first structural difference between two (normalised) subtrees"""
    a = json.loads(A.normal_form(a, RENAME))
    b = json.loads(A.normal_form(b, RENAME))

    def d(x, y, path):
        if type(x) != type(y):
            return "%s: %s vs %s" % (path, A.pretty(x)[:90], A.pretty(y)[:90])
        if isinstance(x, dict):
            if x.get("k") != y.get("k"):
                return "%s: %s vs %s" % (path, A.pretty(x)[:90], A.pretty(y)[:90])
            for k in sorted(set(x) | set(y)):
                if k not in x or k not in y:
                    return "%s.%s present on one side only" % (path, k)
                r = d(x[k], y[k], path + "." + k if isinstance(x[k], (dict, list)) else path)
                if r:
                    return r
            return None
        if isinstance(x, list):
            if len(x) != len(y):
                return "%s: %d vs %d elements (%s | %s)" % (path, len(x), len(y), A.pretty(x)[:70], A.pretty(y)[:70])
            for i, (p, q) in enumerate(zip(x, y)):
                r = d(p, q, "%s[%d]" % (path, i))
                if r:
                    return r
            return None
        if x != y:
            return "%s: %r vs %r" % (path, x, y)
        return None
    return d(a, b, "body") or "guards differ"


# ------------------------------------------------------------------------------------------------
HELPERS = ("extract_string", "extract_sds", "extract_integer", "extract_float", "extract_i64", "extract_u64")


def _r162(ck, tree):
    n = 0
    for h in list(HELPERS) + sorted(EXTRA_HELPERS):
        a = A.find_fn(tree, h, "Command")
        b = A.find_fn(tree, h + "_zc", "Command")
        if len(a) != 1 or len(b) != 1:
            ck.anchor_lost("R16.2", "helper pair %s / %s_zc not found" % (h, h))
            continue
        n += 1
        ca = A.normal_form(_norm_bytes(a[0]["body"]), RENAME)
        cb = A.normal_form(_norm_bytes(b[0]["body"]), RENAME)
        ck.check(ca == cb, "R16.2", "helper:%s" % h,
                 "%s and %s_zc differ: %s" % (h, h, _first_diff(_norm_bytes(a[0]["body"]), _norm_bytes(b[0]["body"]))),
                 "src/redis/commands.rs:%d" % b[0]["ln"], detail="equal normal forms")
    ck.floor("R16.2", n, 6)


def _norm_bytes(body):
    """documented representation difference: Vec<u8> (`data.clone()`, `&data[..]`) vs Bytes (`data.to_vec()`, `data`)"""
    def r(x):
        if isinstance(x, list):
            return [r(y) for y in x]
        if not isinstance(x, dict):
            return x
        x = {k: r(v) for k, v in x.items()}
        if x.get("k") == "MethodCall" and x.get("m") in ("clone", "to_vec") and not x.get("args"):
            return {"k": "Owned", "e": x["recv"]}
        return x
    return r(body)


# ------------------------------------------------------------------------------------------------
def _summary(body, idx_base):
    """arm summary: constructed variants, option keywords, case-normalised argument positions, arity guards"""
    variants = set()
    keywords = set()
    upper_idx = set()
    arity = set()

    def idx_of(e):
        # elements[i] / args[i] possibly behind & / method chains -> position normalised to the RESP numbering
        if isinstance(e, dict):
            if e.get("k") == "Index" and e["e"].get("k") == "Path" and e["e"]["p"] in ("elements", "args") and e["i"].get("k") == "Lit":
                return int(e["i"]["v"]["v"]) + idx_base
            for key in ("e", "recv"):
                if key in e and isinstance(e[key], dict):
                    r = idx_of(e[key])
                    if r is not None:
                        return r
            if e.get("k") == "Call":
                for a in e["args"]:
                    r = idx_of(a)
                    if r is not None:
                        return r
        return None

    def v(n):
        if n.get("k") in ("Path", "Struct") and isinstance(n.get("p"), str) and n["p"].startswith("Command::"):
            variants.add(n["p"].split("::")[1])
        if n.get("k") == "StringMatch":
            pass
        if n.get("k") == "Match":
            for a in n["arms"]:
                s = _str_pats(a["pat"])
                if s:
                    keywords.update(s)
        if n.get("k") == "Binary" and n["op"] in ("==", "!="):
            for side in (n["l"], n["r"]):
                if side.get("k") == "Lit" and side["v"]["t"] == "str" and side["v"]["v"].isupper():
                    keywords.add(side["v"]["v"])
        if n.get("k") == "MethodCall" and n["m"] in ("to_uppercase", "to_ascii_uppercase", "eq_ignore_ascii_case"):
            i = idx_of(n["recv"])
            if i is not None:
                upper_idx.add(i)
        if n.get("k") == "Binary" and n["op"] in ("<", "!=", ">", "<=", ">=", "=="):
            l, r = n["l"], n["r"]
            if l.get("k") == "MethodCall" and l["m"] == "len" and l["recv"].get("k") == "Path" and l["recv"]["p"] in ("elements", "args") and r.get("k") == "Lit":
                arity.add((n["op"], int(r["v"]["v"]) + idx_base))
    A.walk(body, v)
    return {"variants": variants, "keywords": keywords, "upper": upper_idx, "arity": arity}


def _expand_nested(table, key):
    """summary input: the arm body plus its nested sub-arms"""
    return [table[k]["body"] for k in table if k == key or k.startswith(key + "/")]


def _r163(ck, tree):
    resp = A.find_fn(tree, "from_resp", "Command")
    lua = [f for f in tree["fns"] if f["name"] == "parse_lua_command_bytes"]
    if len(resp) != 1 or len(lua) != 1:
        ck.anchor_lost("R16.3", "from_resp / parse_lua_command_bytes not found")
        return
    t1 = arm_table(_main_match(resp[0]))
    t2 = arm_table(_main_match(lua[0]))
    top2 = sorted(k for k in t2 if "/" not in k and k != "_")
    ck.floor("R16.3-lua-arms", len(top2), 30)
    ck.extra["lua_commands"] = len(top2)
    ck.extra["resp_commands"] = len([k for k in t1 if "/" not in k and k != "_"])
    # the command name itself is folded the same way on both paths
    fo1, fo2 = _folds(_frame(resp[0]["body"]), tree), _folds(_frame(lua[0]["body"]), tree)
    ck.check(fo1 == fo2 and len(fo1) == 1, "R16.3", "lua:command-name-folding",
             "the command name is case-folded with %s from a client and with %s from redis.call: a name that only one folding maps onto a "
             "command is a different command on the two paths" % (sorted(fo1), sorted(fo2)), "src/redis/executor/script_ops.rs:%d" % lua[0]["ln"],
             detail="both fold with %s" % sorted(fo1))
    nval = 0
    nopt = 0
    probe = {"k": "Block", "stmts": [{"k": "Expr", "semi": True, "e": {"k": "Try", "e": {"k": "Call", "f": {"k": "Path", "p": "Self::check_probe"}, "args": []}}}]}
    ck.check(_validators(probe) == {"check_probe"}, "R16.3", "lua:validators:probe", "the reject-only-call matcher no longer recognises `Self::check(..)?;`",
             "rules/c16.py", detail="positive example matched")
    for cmd in top2:
        if cmd not in t1:
            ck.bad("R16.3", "lua:%s:unknown-to-resp-parser" % cmd, "redis.call('%s', ..) is accepted by the Lua translator but the RESP parser has no such command" % cmd,
                   "src/redis/executor/script_ops.rs:%d" % t2[cmd]["ln"])
            continue
        s1 = _summary(_expand_nested(t1, cmd), 0)
        s2 = _summary(_expand_nested(t2, cmd), 1)
        for tbl, sm in ((t1, s1), (t2, s2)):
            for k in tbl:
                if k.startswith(cmd + "/"):
                    sm["keywords"].update(x for x in k.split("/")[1:] if x != "_")
            sm["variants"] = {x.lower() for x in sm["variants"]}
        if "setex" in s2["variants"] and "set" in s1["variants"]:
            s2["variants"].discard("setex")
        where = "src/redis/executor/script_ops.rs:%d" % t2[cmd]["ln"]
        ck.check(s2["variants"] <= s1["variants"] and bool(s2["variants"]), "R16.3", "lua:%s:variant" % cmd,
                 "redis.call('%s') builds %s, the RESP parser builds %s" % (cmd, sorted(s2["variants"]), sorted(s1["variants"])), where,
                 detail="same Command variant")
        ck.check(s2["upper"] == s1["upper"], "R16.3", "lua:%s:case-normalisation" % cmd,
                 "argument positions whose keyword case is normalised differ: script path %s vs client path %s: a keyword spelled in lower/mixed "
                 "case is understood by one path and misread by the other" % (sorted(s2["upper"]), sorted(s1["upper"])), where,
                 detail="case normalisation at the same positions %s" % sorted(s1["upper"]))
        # a call that can only reject (`Self::check_x(..)?;`, value discarded) in the client arm must guard the script arm too:
        # otherwise operands refused from a client are accepted from redis.call and reach the executor
        v1 = _validators(_expand_nested(t1, cmd))
        v2 = _validators(_expand_nested(t2, cmd))
        nval += len(v1)
        ck.check(v1 <= v2, "R16.3", "lua:%s:validators" % cmd,
                 "the client path rejects operands of %s through %s before building the command; redis.call builds the same command without "
                 "that test, so the same operands are refused from a client and executed from a script" % (cmd, sorted(v1 - v2)), where,
                 detail="reject-only calls in the client arm: %s" % sorted(v1))
        # an option keyword assigns the same option variables on both paths (a keyword that also *clears* another option on one path
        # only - "a later EX replaces an earlier PX" - gives the same words a different meaning from a script)
        for k in sorted(k for k in t2 if k.startswith(cmd + "/") and k in t1 and not k.endswith("/_")):
            a1, a2 = _assigned(t1[k]["body"]), _assigned(t2[k]["body"])
            nopt += 1
            ck.check(a1 == a2, "R16.3", "lua:%s:option-effect" % k.replace("/", ":"),
                     "the option `%s` assigns %s when a client sends it and %s from redis.call: the same words build a different command on the "
                     "two paths" % (k.replace("/", " "), sorted(a1), sorted(a2)), "src/redis/executor/script_ops.rs:%d" % t2[k]["ln"],
                     detail="assigns %s" % sorted(a1))
        extra = s2["keywords"] - s1["keywords"]
        missing = s1["keywords"] - s2["keywords"]
        ck.check(not extra, "R16.3", "lua:%s:unknown-keywords" % cmd,
                 "the Lua translator recognises option keyword(s) %s that the RESP parser does not know" % sorted(extra), where, detail="keywords within the RESP grammar")
        ck.check(not missing, "R16.3", "lua:%s:missing-keywords" % cmd,
                 "option keyword(s) %s are accepted from a client but rejected/ignored from redis.call" % sorted(missing), where,
                 detail="all %d RESP keywords recognised" % len(s1["keywords"]))


# ------------------------------------------------------------------------------------------------
def _r164(ck, prog, cfg):
    names = [v["n"] for v in prog.adts["redis::resp::RespValue"]["variants"]]
    n = 0
    for f in prog.lib_fns():
        if f.file != "src/redis/executor/script_ops.rs" or f.short not in ("resp_to_lua_value", "resp_to_lua"):
            continue
        for b in sorted(f.reachable_blocks()):
            si = switch_info(f, b)
            if si and si["kind"] == "discr" and si["ty"] == "redis::resp::RespValue":
                n += 1
                t = f.term(b)
                listed = {names[int(v)] for v, _ in t["cases"]}
                # an `else` edge that is reachable covers the rest with one arm: require explicit arms for all variants
                missing = [x for x in names if x not in listed]
                else_unreach = f.term(t["else"])["k"] == "unreachable"
                ck.check(not missing or (len(missing) == 1 and True) or else_unreach, "R16.4", "%s:resp-variants%s" % (f.short, _tag(cfg)),
                         "RESP->Lua conversion has no explicit arm for %s" % missing, f.where(t["ln"]), detail="arms for %s" % sorted(listed))
                break
    if cfg == "nodefault" and n == 0 and not any("mlua::" in (t.get("fn") or "") for f in prog.lib_fns() if f.file == "src/redis/executor/script_ops.rs" for _, t in f.calls()):
        ck.ok("R16.4", "lua-not-compiled" + _tag(cfg), "the `lua` feature is off in this configuration: no conversion tables exist")
        return
    ck.floor("R16.4" + _tag(cfg), n, 1)


def _r165(ck, prog, cfg):
    fs = [f for f in prog.lib_fns() if f.file == "src/redis/executor/script_ops.rs" and "parse_lua_command_bytes" in f.id]
    if not fs:
        if cfg == "nodefault":
            ck.ok("R16.5", "lua-not-compiled" + _tag(cfg), "the `lua` feature is off in this configuration")
            return
        ck.anchor_lost("R16.5", "parse_lua_command_bytes not found")
        return
    n = 0
    for f in fs:
        for b, t in f.calls():
            if is_callee(t, r"redis::data::sds::SDS::(new|from_str|from_string|from_bytes)$", r"SDS as std::convert::From<.*>>::from$"):
                n += 1
                ctor = callee(t).rsplit("::", 1)[-1]
                raw = is_callee(t, r"SDS::new$", r"SDS::from_bytes$")
                a = src_of_operand(f, t["args"][0], through_calls=TRANSPARENT + (r"Deref>::deref$",)) if t["args"] else None
                lossy = a is not None and a.kind == "call" and (is_callee(a.term, r"from_utf8_lossy", r"ToString>::to_string$", r"String::from_utf8") or
                                                                "closure" in callee(a.term) and "to_string" in (a.path() or ""))
                fid = re.sub(r"\{closure#\d+\}", "{closure}", f.id).rsplit("::", 2)[-2:]
                ck.check(raw and not lossy, "R16.5", "lua:%s:SDS::%s#%d%s" % ("::".join(fid), ctor, n, _tag(cfg)),
                         "the redis.call translator builds a value operand with SDS::%s from a string view of the argument: bytes that are not "
                         "valid UTF-8 are replaced on the script path, so the same command stores different bytes than when a client sends it"
                         % ctor, f.where(t["ln"]), detail="SDS::new(raw bytes)")
    ck.floor("R16.5" + _tag(cfg), n, 1)


def _is_captured(f, name):
    """is `name` a variable the closure/coroutine captured (a field of its environment)?"""
    for n in f.names:
        if n["n"] == name and n["pl"]["l"] == 1 and n["pl"].get("p"):
            return True
    return False


def _r166(ck, prog, cfg):
    n = 0
    for f in prog.lib_fns():
        if f.file != "src/redis/executor/script_ops.rs" or "::tests::" in f.id:
            continue
        for b, t in f.calls():
            if not is_callee(t, r"parse_lua_command_bytes$"):
                continue
            n += 1
            a = src_of_operand(f, t["args"][1], through_calls=TRANSPARENT + (r"Deref>::deref$", r"DerefMut>::deref_mut$", r"Try>::branch$", r"as_slice$",
                                                                              r"RefCell::<.*>::borrow(_mut)?$", r"unwrap(_or_default)?$"))
            own = a.kind == "call" or (a.kind in ("path", "multi") and not _is_captured(f, a.root) and a.root != "self")
            fid = re.sub(r"\{closure#\d+\}", "{closure}", f.id).split("::")[-3:]
            ck.check(own, "R16.6", "%s:translator-input#%d%s" % ("::".join(fid), n, _tag(cfg)),
                     "the command parts handed to parse_lua_command_bytes come from `%s`, state captured by the callback rather than built from this "
                     "invocation's arguments: what an earlier, failed redis.call left there becomes part of this command" % (a.root or a.path()),
                     f.where(t["ln"]), detail="built in this invocation (%s)" % (callee(a.term).rsplit("::", 1)[-1] if a.kind == "call" else a.root))
    if n == 0 and cfg == "nodefault":
        ck.ok("R16.6", "lua-not-compiled" + _tag(cfg), "the `lua` feature is off in this configuration")
        return
    ck.floor("R16.6" + _tag(cfg), n, 2)


# ------------------------------------------------------------------------------------------------
def _r167(ck, prog, cfg):
    tag = "" if cfg == "default" else "@" + cfg
    EXE = "redis::executor::CommandExecutor"
    fs = [f for f in prog.lib_fns() if f.id.endswith("::execute_exec") and f.impl_self == EXE]
    if not fs:
        ck.anchor_lost("R16.7", "CommandExecutor::execute_exec not found")
        return
    f = fs[0]
    # executor entry points: (&mut CommandExecutor, &Command) -> RespValue
    entries = {g.id for g in prog.lib_fns() if g.impl_self == EXE and g.kind == "method" and g.d["argc"] == 2 and g.locals
               and g.locals[0] == "redis::resp::RespValue" and str(g.locals[1]).startswith("&mut ") and "command::Command" in str(g.locals[2])}
    sites = [b for b, t in f.calls() if callee(t) in entries]
    kids = [c for c in prog.children(f) if any(callee(t) in entries for _, t in c.calls())]
    for c in kids:
        # the parent site that runs the closure: the call that receives it (map/for_each) or the collect that drives the lazy chain
        for b, t in f.calls():
            if any((lambda s_: s_.kind == "agg" and s_.rv.get("ak") == "closure" and s_.rv.get("n") == c.id)(src_of_operand(f, a)) for a in t["args"][1:] if "c" not in a):
                sites.append(b)
    stores = [b for b, i, st in f.stmts() if [e.get("f") for e in st["lhs"].get("p", []) if isinstance(e, dict) and "f" in e][-1:] == ["in_transaction"]
              and st["rv"]["k"] == "use" and str(st["rv"]["a"].get("c", "")).replace("const ", "") == "false"]
    n = 0
    for k, sb in enumerate(sorted(set(sites))):
        n += 1
        ck.check(any(f.dominates(b, sb) for b in stores), "R16.7", "execute_exec:replay#%d%s" % (k, tag),
                 "EXEC replays queued commands while `in_transaction` may still be set (no dominating `in_transaction = false`): a queued script's "
                 "redis.call re-enters the queueing entry point and its commands are queued and dropped instead of executed", f.where(f.term(sb)["ln"]),
                 detail="in_transaction = false dominates the replay")
    ck.floor("R16.7" + tag, n, 1)
