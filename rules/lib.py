"""Reusable analyses over mirfacts: access paths, provenance, edge facts, must-dataflow."""
import re
from .facts import callee, callee_names, op_place, op_local, place_fields, place_str


# ---------------------------------------------------------------------------------------------
# access paths / provenance
# ---------------------------------------------------------------------------------------------

class Src:
    """Where a value comes from (intra-procedural, through single-definition temporaries).
    kind: 'path'  -> root (name or _N) + fields tuple           (a place rooted in a param/user var)
          'call'  -> term (the defining call terminator), site, fields (projection applied to result)
          'const' -> text
          'agg'   -> rvalue
          'rv'    -> other rvalue (bin/un/discr/cast...)
          'multi' -> several definitions (user variable assigned more than once)
    """
    __slots__ = ("kind", "root", "fields", "term", "site", "rv", "text", "local", "cty", "pv")

    def __init__(self, kind, **kw):
        self.kind = kind
        self.root = kw.get("root")
        self.fields = tuple(kw.get("fields", ()))
        self.term = kw.get("term")
        self.site = kw.get("site")
        self.rv = kw.get("rv")
        self.text = kw.get("text")
        self.local = kw.get("local")
        self.cty = kw.get("cty")
        self.pv = kw.get("pv")

    def path(self):
        if self.kind == "path":
            return ".".join((self.root,) + self.fields)
        if self.kind == "call":
            return "call(%s)%s" % (callee(self.term), "".join("." + f for f in self.fields))
        if self.kind == "const":
            return "const(%s)" % self.text
        return self.kind

    def __repr__(self):
        return "<Src %s>" % self.path()


def _proj_fields(p):
    out = []
    for e in p.get("p", []):
        if isinstance(e, dict):
            if "f" in e:
                out.append(e["f"])
            elif "dc" in e:
                out.append("<" + e["dc"] + ">")
            elif "ix" in e or "cix" in e or "sub" in e:
                out.append("[]")
    return out


def _named_prefix(fn, place):
    """longest debug-name whose place is a prefix of `place` -> (name, remaining projection list)"""
    best = None
    pp = place.get("p", [])
    for n in fn.names:
        npl = n["pl"]
        if npl["l"] != place["l"]:
            continue
        np_ = npl.get("p", [])
        if len(np_) <= len(pp) and pp[:len(np_)] == np_:
            if best is None or len(np_) > best[1]:
                best = (n["n"], len(np_))
    if best is None:
        return None
    return best[0], pp[best[1]:]


def src_of_place(fn, place, depth=0, through_calls=()):
    """Provenance of a place."""
    nm = _named_prefix(fn, place)
    l = place["l"]
    if nm is not None and (l <= fn.d["argc"] or "p" in place and fn.kind in ("closure", "coroutine") and l == 1):
        # parameter or captured upvar with a debug name
        name, rest = nm
        return Src("path", root=name, fields=_proj_fields({"p": rest}), local=l)
    defs = fn.defs().get(l, [])
    if l <= fn.d["argc"] and not defs:
        root = nm[0] if nm else "_%d" % l
        rest = nm[1] if nm else place.get("p", [])
        return Src("path", root=root, fields=_proj_fields({"p": rest}), local=l)
    if len(defs) == 1 and depth < 40:
        bi, si, kind, payload = defs[0]
        extra = _proj_fields(place)
        if kind == "assign":
            rv = payload
            k = rv["k"]
            if k == "use":
                s = src_of_operand(fn, rv["a"], depth + 1, through_calls)
                return _extend(s, extra)
            if k in ("ref", "rawptr"):
                s = src_of_place(fn, rv["pl"], depth + 1, through_calls)
                return _extend(s, extra)
            if k == "cast" and rv["ck"].startswith(("PointerCoercion", "PtrToPtr", "Transmute")):
                s = src_of_operand(fn, rv["a"], depth + 1, through_calls)
                return _extend(s, extra)
            if k == "agg":
                return Src("agg", rv=rv, site=(bi, si), fields=extra, local=l)
            return Src("rv", rv=rv, site=(bi, si), fields=extra, local=l)
        else:
            t = payload
            cn = callee(t)
            for pat in through_calls:
                if re.search(pat, cn) and t["args"]:
                    s = src_of_operand(fn, t["args"][0], depth + 1, through_calls)
                    return _extend(s, extra)
            return Src("call", term=t, site=(bi, si), fields=extra, local=l)
    # `(x as Some).0` where x has several definitions of which exactly one builds that variant (an inlined helper returning
    # None on its early exits and Some(v) at the end): the payload is that definition's operand
    pp = place.get("p", [])
    if len(defs) > 1 and depth < 40:
        # several copies of one and the same local (the return sites of an inlined helper all assign `dest = move ret`)
        srcs = set()
        for d in defs:
            if d[2] == "assign" and d[3]["k"] == "use" and "c" not in d[3]["a"]:
                q = op_place(d[3]["a"])
                srcs.add(q["l"] if q is not None and "p" not in q else None)
            else:
                srcs.add(None)
        if len(srcs) == 1 and None not in srcs:
            x = list(srcs)[0]
            if x != l:
                np_ = {"l": x}
                if pp:
                    np_["p"] = pp
                return src_of_place(fn, np_, depth + 1, through_calls)
    if len(defs) > 1 and depth < 40 and len(pp) >= 2 and isinstance(pp[0], dict) and "dc" in pp[0] and isinstance(pp[1], dict) and "f" in pp[1]:
        var = pp[0]["dc"]
        cands = [d for d in defs if d[2] == "assign" and d[3]["k"] == "agg" and d[3].get("n", "").endswith("::" + var)]
        # `?` inside the helper builds the failing variant through FromResidual::from_residual: never the variant asked for
        others_same = [d for d in defs if d not in cands and not (d[2] == "assign" and d[3]["k"] == "agg") and
                       not (d[2] == "call" and var in ("Some", "Ok") and is_callee(d[3], r"FromResidual.*from_residual$"))]
        if len(cands) == 1 and not others_same and pp[1]["f"].isdigit() and int(pp[1]["f"]) < len(cands[0][3].get("ops", [])):
            s = src_of_operand(fn, cands[0][3]["ops"][int(pp[1]["f"])], depth + 1, through_calls)
            return _extend(s, _proj_fields({"p": pp[2:]}))
    if nm is not None:
        name, rest = nm
        return Src("path", root=name, fields=_proj_fields({"p": rest}), local=l)
    if not defs:
        return Src("path", root="_%d" % l, fields=_proj_fields(place), local=l)
    return Src("multi", local=l, fields=_proj_fields(place))


def _extend(s, extra):
    if not extra:
        return s
    n = Src(s.kind, root=s.root, fields=tuple(s.fields) + tuple(extra), term=s.term, site=s.site, rv=s.rv,
            text=s.text, local=s.local, cty=s.cty, pv=s.pv)
    return n


def src_of_operand(fn, o, depth=0, through_calls=()):
    if "c" in o:
        return Src("const", text=o["c"], cty=o.get("t"), pv=o.get("pv"))
    return src_of_place(fn, op_place(o), depth, through_calls)


# transparent wrappers commonly sitting between a field and its use
TRANSPARENT = (r"Option<.*>::as_mut$", r"Option<.*>::as_ref$", r"::deref$", r"::deref_mut$", r"::borrow$",
               r"::borrow_mut$", r"::as_mut$", r"::as_ref$", r"Option<T>::as_mut$", r"Option<T>::as_ref$",
               r"::clone$", r"::as_deref$", r"::as_deref_mut$", r"::as_str$", r"::as_bytes$", r"::as_slice$")


def recv_path(fn, t, idx=0, through=TRANSPARENT):
    """access path string of a call's idx-th argument (receiver)."""
    if len(t["args"]) <= idx:
        return ""
    return src_of_operand(fn, t["args"][idx], through_calls=through).path()


def is_callee(t, *pats):
    names = callee_names(t)
    for p in pats:
        for n in names:
            if re.search(p, n):
                return True
    return False


# ---------------------------------------------------------------------------------------------
# discriminant switches / edges
# ---------------------------------------------------------------------------------------------

def switch_info(fn, b):
    """For a block ending in a switch: what is tested.
    returns dict(kind='discr', place=..., ty=..., src=Src) | dict(kind='bool'/'int', src=Src of the operand) | None"""
    t = fn.term(b)
    if t["k"] != "switch":
        return None
    l = op_local(t["d"])
    if l is None:
        return {"kind": "other", "src": src_of_operand(fn, t["d"]), "local": None}
    # find def of l in this block (discriminant reads sit right before the switch)
    for s in reversed(fn.blocks[b]["st"]):
        if s["lhs"] == {"l": l}:
            rv = s["rv"]
            if rv["k"] == "discr":
                return {"kind": "discr", "place": rv["pl"], "ty": rv["t"], "src": src_of_place(fn, rv["pl"], through_calls=TRANSPARENT),
                        "local": l}
            break
    return {"kind": "val", "src": src_of_operand(fn, t["d"]), "local": l, "ty": t["dt"]}


def variant_index(prog, ty, variant):
    """variant index for well-known enums"""
    if ty.startswith("std::result::Result<"):
        return {"Ok": 0, "Err": 1}[variant]
    if ty.startswith("std::option::Option<"):
        return {"None": 0, "Some": 1}[variant]
    base = ty.split("<")[0]
    a = prog.adts.get(base)
    if a:
        for i, v in enumerate(a["variants"]):
            if v["n"] == variant:
                return i
    return None


def edge_targets(fn, b, value):
    """target block(s) of switch at b for `value` (string int); falls to else if not listed."""
    t = fn.term(b)
    for v, tgt in t["cases"]:
        if v == str(value):
            return tgt
    return t["else"]


# ---------------------------------------------------------------------------------------------
# generic forward must-dataflow (facts are hashable tokens; join = intersection)
# ---------------------------------------------------------------------------------------------

def must_forward(fn, transfer_block, edge_gen=None, entry_facts=frozenset()):
    """transfer_block(b, in_facts:set) -> out_facts:set  (applied to whole block incl. terminator effects)
    edge_gen(b, succ, out_facts) -> facts for that edge (default: out_facts)
    returns IN facts per block (None for unreachable)."""
    rpo = fn.rpo()
    IN = {b: None for b in rpo}
    IN[0] = frozenset(entry_facts)
    OUT = {}
    changed = True
    it = 0
    while changed:
        changed = False
        it += 1
        for b in rpo:
            if b != 0:
                acc = None
                for p in fn.pred(b):
                    if p not in OUT:
                        continue
                    o = OUT[p]
                    if edge_gen is not None:
                        o = edge_gen(p, b, o)
                    acc = set(o) if acc is None else (acc & o)
                if acc is None:
                    continue
                acc = frozenset(acc)
                if IN[b] != acc:
                    IN[b] = acc
                    changed = True
            if IN[b] is None:
                continue
            o = frozenset(transfer_block(b, set(IN[b])))
            if OUT.get(b) != o:
                OUT[b] = o
                changed = True
        if it > 200:
            break
    return IN, OUT


def all_paths_hit(fn, start_site, is_hit_block, stop_at_return=True, avoid_blocks=()):
    """True iff every path from just after start_site reaches a block b with is_hit_block(b, from_index) before
    a return.  start_site = (block, idx).  is_hit_block(b, i0) tests statements/terminator of b from index i0.
    Paths ending in unreachable/diverging blocks count as fine (no return reached)."""
    b0, i0 = start_site
    if is_hit_block(b0, i0 + 1):
        return True, None
    seen = set()
    work = []
    if fn.term(b0)["k"] == "return":
        return False, [b0]
    for s in fn.succ(b0):
        work.append((s, [b0, s]))
    while work:
        b, path = work.pop()
        if b in seen or b in avoid_blocks:
            continue
        seen.add(b)
        if is_hit_block(b, 0):
            continue
        if fn.term(b)["k"] == "return":
            return False, path
        for s in fn.succ(b):
            if s not in seen:
                work.append((s, path + [s]))
    return True, None


def path_lines(fn, path):
    out = []
    for b in path:
        ln = fn.term(b).get("ln")
        if ln and (not out or out[-1] != ln):
            out.append(ln)
    return out
