"""C09 — Always-fsync WAL: a write reported durable survives a crash at any instant.

Structural clauses decided (see DESIGN.md §3 C09):
 R09.1 ack-after-sync, R09.2 no writer with unsynced appends is dropped silently,
 R09.3 sync reaches fsync of the file that append writes, R09.4 write_durable returns only the ack.
"""
import re
from .facts import callee, callee_names, op_local, op_place
from .lib import (src_of_operand, src_of_place, is_callee, switch_info, must_forward, all_paths_hit,
                  TRANSPARENT, recv_path)
from . import lib2

WAL_ACTOR = "streaming::wal_actor::WalActor::<S>::"
ROT = "streaming::wal::WalRotator::<S>::"


def run(ck, ctx):
    ck.rule("R09.1", "Always mode: every ack `send(v)` on a oneshot<Result<(),WalError>> reachable from run_always_mode "
                     "has v = Err(..) aggregate, or is dominated by the Ok edge of WalRotator::sync() in the same function")
    ck.rule("R09.5", "Always mode: on every path from a WalRotator::sync() call to return, self.pending_acks is taken/drained "
                     "(each sync outcome resolves exactly the acks accumulated for it)")
    ck.rule("R09.6", "recovery accepts everything the writer can fsync: the WAL entry decoder rejects a frame only for truncation or "
                     "checksum mismatch, never for a limit the write path does not enforce")
    ck.rule("R09.2", "every overwrite of WalRotator.current_writer happens while the writer is provably clean "
                     "(None, freshly created, or just synced Ok) or is followed on all paths by setting a poison flag that "
                     "makes the next WalRotator::sync() return Err")
    ck.rule("R09.3", "WalWriter::sync calls WalFileWriter::sync on the same field WalWriter::append_entry appends to; "
                     "WalRotator::sync reaches WalWriter::sync on current_writer and propagates its error; "
                     "LocalWalWriter::sync reaches File::sync_all/sync_data")
    ck.rule("R09.4", "write_durable: every Ok(..) it can return is the received ack value (no locally constructed Ok)")
    ck.rule("R09.7", "the server awaits durability before it answers: in ReplicatedShardedState::execute the Always edge of the fsync-policy "
                     "switch reaches the reply only through an awaited WalActorHandle::write_durable of the delta just produced (never the "
                     "fire-and-forget call), and every delta a shard returns reaches that switch when a WAL is configured")
    ck.rule("R09.8", "a restarted rotator never reuses a file name: WalRotator::new starts from the maximum sequence over *every* listed "
                     "name (Iterator::max over parse_wal_sequence of the whole listing - not the last/first element, which a stray file "
                     "sorting after the newest WAL file turns into 0), because creating an existing wal-N file truncates entries that "
                     "were fsynced and acknowledged in the previous run")
    ck.nd("the crash model (what the kernel persists after fsync) is trusted: fsync of a file covers every byte appended before it")
    ck.nd("behaviour for every fault sequence / batch boundary at run time (only the code shape on every path is decided)")
    ck.rule("R09.9", "what was fsynced is what recovery returns: the WAL reader yields an entry only after the length and CRC tests, stops a "
                     "file at its first undecodable entry, and the per-file recovery loop neither returns on an unreadable file nor ends "
                     "before the last file (a write reported durable lives in *some* file: a recovery that gives up at a damaged "
                     "neighbour loses it) - shared with C10 R10.1 / R10.3")
    from . import c10 as _c10t
    ck.rule("R09.13", _c10t.WRITER_SEQ_TEXT + " (shared with C10 R10.12: the deleted active file holds fsynced, acknowledged entries)")
    ck.rule("R09.12", _c10t.JUDGE_TEXT + " (shared with C10 R10.11)")
    ck.rule("R09.11", _c10t.NAME_TEXT + " (shared with C10 R10.10: an fsynced file that the start-up scan does not recognise is neither replayed nor protected from being re-created)")
    ck.rule("R09.10", "truncation never deletes an fsynced entry that has not been streamed: every WalStore::delete in truncate_before is "
                      "guarded by `not the active file` and by `max over ALL entries of the file <= the streamed mark` (append order is "
                      "arrival order of 16 independent shard clocks, not stamp order: the last entry is not the newest) - shared with C10 R10.4")
    for cfg in ctx.configs:
        prog = ctx.prog(cfg)
        ck.configs.append(cfg)
        _r091(ck, prog, cfg)
        _r092(ck, prog, cfg)
        _r093(ck, prog, cfg)
        _r094(ck, prog, cfg)
        _r097(ck, prog, cfg)
        _r098(ck, prog, cfg)
        from . import c10
        c10.r106(ck, prog, cfg, "R09.6")
        ck.fn_count += len(prog.fns)
        from . import c10 as _c10b
        from .core import Alias as _AliasB
        _c10b._r104(_AliasB(ck, "R10.4", "R09.10"), prog, cfg)
        from . import c10 as _c10
        from .core import Alias as _Alias
        _c10._r101(_Alias(ck, "R10.1", "R09.9", skip=("R10.2",)), prog, cfg)
        _c10._r103(_Alias(ck, "R10.3", "R09.9"), prog, cfg)
        _c10.r109(ck, prog, cfg, "R09.9")
        _c10.r1010(ck, prog, cfg, "R09.11")
        _c10.r1011(ck, prog, cfg, "R09.12")
        _c10.r1012(ck, prog, cfg, "R09.13")
        _c10.file_loop_rule(ck, prog, cfg, "R09.9")


def _tag(cfg):
    return "" if cfg == "default" else "@" + cfg


# ------------------------------------------------------------------------------------------------
def _r091(ck, prog, cfg):
    root = prog.one(WAL_ACTOR + "run_always_mode")
    scope = set()
    for r in prog.with_children(root):
        scope.add(r.id)
    reach = prog.reachable_from(list(scope))
    fns = [prog.fns[i] for i in reach if i in prog.fns and prog.fns[i].file == "src/streaming/wal_actor.rs"]
    n_ok_sites = 0
    n_err_sites = 0
    for fn in fns:
        for b, t in fn.calls():
            if not is_callee(t, r"oneshot::Sender::<.*Result<\(\), .*WalError>>::send$", r"oneshot::Sender<T>::send$"):
                continue
            if "WalError" not in (t.get("fnargs") or ""):
                continue
            arg = src_of_operand(fn, t["args"][1])
            key = "%s:send#%s%s" % (fn.id, _ord(fn, b, "send"), _tag(cfg))
            if arg.kind == "agg" and arg.rv["n"] == "std::result::Result::Err":
                n_err_sites += 1
                ck.ok("R09.1", key, "Err(..) ack")
                continue
            # must be on the Ok edge of rotator.sync()
            good = False
            for sb, st in fn.calls():
                if is_callee(st, r"WalRotator::<S>::sync$") and "p" not in st["dest"]:
                    for (swb, okt, errt) in lib2.ok_edges(fn, st["dest"]["l"]):
                        if fn.pred(okt) == [swb] and fn.dominates(okt, b):
                            good = True
            if good:
                n_ok_sites += 1
                ck.ok("R09.1", key, "ack on the Ok edge of WalRotator::sync()")
            else:
                ck.bad("R09.1", key, "ack value is not a constructed Err and the send is not dominated by the Ok edge of "
                       "WalRotator::sync(): a write may be reported durable before its fsync succeeded",
                       fn.where(t["ln"]), value=arg.path())
    # R09.5: every sync attempt consumes the pending acks (no ack survives into a later batch whose sync may
    # cover a different file)
    n5 = 0
    for fn in fns:
        for b, t in fn.calls():
            if not is_callee(t, r"WalRotator::<S>::sync$"):
                continue
            n5 += 1

            def hit(bb, i0, fn=fn):
                tt = fn.term(bb)
                if tt["k"] == "call" and is_callee(tt, r"mem::take", r"Vec::<.*>::drain$", r"Vec::<.*>::clear$", r"mem::replace"):
                    for a in tt["args"]:
                        if src_of_operand(fn, a).path() == "self.pending_acks":
                            return True
                return False
            okp, path = all_paths_hit(fn, (b, len(fn.blocks[b]["st"])), hit)
            ck.check(okp, "R09.5", "%s:sync#%s%s" % (fn.id, _ord(fn, b, "sync"), _tag(cfg)),
                     "a path from WalRotator::sync() to return leaves self.pending_acks untouched: acks of a batch whose fsync "
                     "failed (or was skipped) survive and are resolved by a later sync that may cover a different file",
                     fn.where(t["ln"]), detail="pending_acks taken on every path after sync()",
                     path_lines=[fn.term(x).get("ln") for x in (path or [])])
    ck.floor("R09.5" + _tag(cfg), n5, 1)
    ck.floor("R09.1" + _tag(cfg), n_ok_sites + n_err_sites, 2)
    ck.check(n_ok_sites >= 1, "R09.1", "ok-site-exists" + _tag(cfg), "no Ok-ack site found after sync (anchor lost)")


def _ord(fn, b, what):
    """stable ordinal of a call site among same-callee sites in the function (source order)"""
    sites = sorted((t["ln"], bb) for bb, t in fn.calls() if callee(t).endswith(what) or what in callee(t))
    for i, (ln, bb) in enumerate(sites):
        if bb == b:
            return i
    return -1


# ------------------------------------------------------------------------------------------------
def _is_cw(src):
    return src.kind == "path" and src.root == "self" and len(src.fields) >= 1 and src.fields[0] == "current_writer"


def _poison_fields(prog, ck, cfg):
    """bool fields F of WalRotator such that WalRotator::sync, when self.F is true, returns only Err."""
    fn = prog.one(ROT + "sync")
    out = set()
    for b in sorted(fn.reachable_blocks()):
        si = switch_info(fn, b)
        if not si or si["kind"] != "val" or si.get("ty") != "bool":
            continue
        s = si["src"]
        if not (s.kind == "path" and s.root == "self" and len(s.fields) == 1):
            continue
        t = fn.term(b)
        true_t = t["else"]
        region = {true_t} | fn.reach([true_t])
        rets_ok = False
        rets_err = False
        for rb in region:
            for st in fn.blocks[rb]["st"]:
                if st["lhs"] == {"l": 0}:
                    rv = st["rv"]
                    if rv["k"] == "agg" and rv["n"] == "std::result::Result::Err":
                        rets_err = True
                    else:
                        rets_ok = True
            tt = fn.term(rb)
            if tt["k"] == "call" and tt["dest"] == {"l": 0}:
                if is_callee(tt, r"FromResidual.*from_residual$"):
                    rets_err = True
                else:
                    rets_ok = True
        # the false side must not be dominated... (nothing to check); the true side must only produce Err
        if rets_err and not rets_ok and fn.pred(true_t) == [b]:
            out.add(s.fields[0])
    return out


def _r092(ck, prog, cfg):
    poison = _poison_fields(prog, ck, cfg)
    n_sites = 0
    for fn in prog.lib_fns():
        if "WalRotator" not in fn.id and not _touches_cw(fn):
            continue
        sites = _overwrite_sites(fn)
        if not sites:
            continue
        IN, OUT = _clean_flow(fn)
        for (b, idx, how, ln) in sites:
            n_sites += 1
            key = "%s:overwrite#%d%s" % (fn.id, _site_ord(sites, (b, idx)), _tag(cfg))
            facts_at = _facts_at(fn, IN, b, idx)
            if facts_at is not None and "CLEAN" in facts_at:
                ck.ok("R09.2", key, "writer clean (None / fresh / synced Ok) at %s" % how)
                continue
            # poison alternative
            def hit(bb, i0, fn=fn):
                blk = fn.blocks[bb]
                for j, st in enumerate(blk["st"]):
                    if j < i0:
                        continue
                    lhs = st["lhs"]
                    s = src_of_place(fn, lhs)
                    if s.kind == "path" and s.root == "self" and len(s.fields) == 1 and s.fields[0] in poison:
                        rv = st["rv"]
                        if rv["k"] == "use" and rv["a"].get("c") == "true":
                            return True
                return False
            okp, path = all_paths_hit(fn, (b, idx), hit)
            if poison and okp:
                ck.ok("R09.2", key, "dirty writer abandoned but poison flag %s set on all paths" % sorted(poison))
            else:
                ck.bad("R09.2", key,
                       "WalRotator.current_writer is overwritten (%s) while it may hold appended-but-unsynced entries and no "
                       "poison flag forces the next sync() to fail: a later sync() returns Ok and those entries are "
                       "acknowledged durable without ever being fsynced" % how, fn.where(ln), poison_fields=sorted(poison))
    ck.floor("R09.2" + _tag(cfg), n_sites, 3)


def _touches_cw(fn):
    for b in fn.blocks:
        for st in b["st"]:
            for e in st["lhs"].get("p", []):
                if isinstance(e, dict) and e.get("f") == "current_writer" and e.get("o", "").endswith("WalRotator"):
                    return True
        t = b["t"]
        if t["k"] == "drop":
            for e in t["pl"].get("p", []):
                if isinstance(e, dict) and e.get("f") == "current_writer" and e.get("o", "").endswith("WalRotator"):
                    return True
    return False


def _site_ord(sites, s):
    ss = sorted((x[3], x[0], x[1]) for x in sites)
    for i, (ln, b, idx) in enumerate(ss):
        if (b, idx) == s:
            return i
    return -1


def _is_cw_place(fn, pl):
    fs = [e for e in pl.get("p", []) if isinstance(e, dict) and "f" in e]
    if not fs:
        return False
    last = fs[-1]
    if last["f"] == "current_writer" and last.get("o", "").endswith("WalRotator"):
        # must be exactly the field (no deeper projection)
        tail = pl["p"][pl["p"].index(last) + 1:]
        return not any(isinstance(e, dict) and ("f" in e or "dc" in e) for e in tail)
    return False


MUTATING_OPTION = (r"Option::<.*>::take$", r"Option::<.*>::replace$", r"Option::<.*>::insert$", r"mem::replace", r"mem::take",
                   r"mem::swap", r"Option::<.*>::get_or_insert", r"Option::<.*>::take_if$")


def _overwrite_sites(fn):
    sites = []
    rb = fn.reachable_blocks()
    for b in sorted(rb):
        blk = fn.blocks[b]
        t = blk["t"]
        if blk["cleanup"]:
            continue
        if t["k"] == "drop" and _is_cw_place(fn, t["pl"]):
            sites.append((b, len(blk["st"]), "drop+assign", t["ln"]))
        if t["k"] == "call" and is_callee(t, *MUTATING_OPTION):
            for a in t["args"]:
                s = src_of_operand(fn, a)
                if _is_cw(s) and len(s.fields) == 1:
                    sites.append((b, len(blk["st"]), callee(t).rsplit("::", 1)[-1] + "()", t["ln"]))
    return sites


def _clean_flow(fn):
    from . import lib2

    # edges that generate CLEAN
    gen_edges = set()
    for b in fn.reachable_blocks():
        si = switch_info(fn, b)
        if si and si["kind"] == "discr" and si["ty"].startswith("std::option::Option<"):
            s = si["src"]
            if _is_cw(s) and len([f for f in s.fields if not f.startswith("<")]) == 1:
                from .lib import edge_targets
                gen_edges.add((b, edge_targets(fn, b, 0)))
    for b, t in fn.calls():
        if is_callee(t, r"WalWriter::<.*>::sync$") and "p" not in t["dest"]:
            s = src_of_operand(fn, t["args"][0], through_calls=TRANSPARENT)
            if _is_cw(s):
                for (swb, okt, errt) in lib2.ok_edges(fn, t["dest"]["l"]):
                    gen_edges.add((swb, okt))

    def transfer(b, facts):
        blk = fn.blocks[b]
        for st in blk["st"]:
            if _is_cw_place(fn, st["lhs"]):
                rv = st["rv"]
                src = src_of_operand(fn, rv["a"]) if rv["k"] == "use" else None
                fresh = False
                if src is not None and src.kind == "agg":
                    n = src.rv["n"]
                    if n == "std::option::Option::None":
                        fresh = True
                    elif n == "std::option::Option::Some":
                        inner = src_of_operand(fn, src.rv["ops"][0], through_calls=(r"Try>::branch$",))
                        if inner.kind == "call" and is_callee(inner.term, r"WalWriter::<.*>::new$"):
                            fresh = True
                        elif inner.kind == "path" or inner.kind == "multi":
                            # `let w = WalWriter::new(..)?; Some(w)`: follow the named local through `?`
                            fresh = lib2.local_from_call(fn, src.rv["ops"][0], r"WalWriter::<.*>::new$")
                if fresh:
                    facts.add("CLEAN")
                else:
                    facts.discard("CLEAN")
        t = blk["t"]
        if t["k"] == "call":
            if is_callee(t, r"WalWriter::<.*>::append_entry$"):
                facts.discard("CLEAN")
            else:
                # passing &mut self (whole rotator) or &mut current_writer to anything else but sync/readers
                for a in t["args"]:
                    pl = op_place(a)
                    if pl is None:
                        continue
                    s = src_of_operand(fn, a, through_calls=TRANSPARENT)
                    ty = fn.locals[pl["l"]] if "p" not in pl else ""
                    if s.kind == "path" and s.root == "self" and ty.startswith("&mut "):
                        if len(s.fields) == 0 and not is_callee(t, r"WalRotator::<S>::(sync)$"):
                            facts.discard("CLEAN")
                        elif _is_cw(s) and not is_callee(t, r"WalWriter::<.*>::(sync|size|sequence|entry_count|max_timestamp)$",
                                                         r"Option::<.*>::(as_mut|as_ref|is_some|is_none|expect|unwrap)$",
                                                         r"Option::<.*>::take$"):
                            facts.discard("CLEAN")
        return facts

    def edge(p, s, out):
        if (p, s) in gen_edges and fn.pred(s) == [p]:
            return frozenset(out | {"CLEAN"})
        return out

    return must_forward(fn, transfer, edge)


def _facts_at(fn, IN, b, idx):
    """facts holding right before site (b, idx): replay the block's statements up to idx."""
    if IN.get(b) is None:
        return None
    facts = set(IN[b])
    # statements before idx in the same block can only affect CLEAN via assignments to the field
    blk = fn.blocks[b]
    for st in blk["st"][:idx]:
        if _is_cw_place(fn, st["lhs"]):
            rv = st["rv"]
            src = src_of_operand(fn, rv["a"]) if rv["k"] == "use" else None
            if src is not None and src.kind == "agg" and src.rv["n"] == "std::option::Option::None":
                facts.add("CLEAN")
            else:
                facts.discard("CLEAN")
    return facts


# ------------------------------------------------------------------------------------------------
def _r093(ck, prog, cfg):
    w = "streaming::wal::WalWriter::<W>::"
    sync = prog.one(w + "sync")
    app = prog.one(w + "append_entry")

    def field_calls(fn, pat):
        out = []
        for b, t in fn.calls():
            if is_callee(t, pat):
                out.append((recv_path(fn, t), t))
        return out
    s_calls = field_calls(sync, r"WalFileWriter>::sync$")
    a_calls = field_calls(app, r"WalFileWriter>::append$")
    ck.check(len(s_calls) >= 1 and len(a_calls) >= 1, "R09.3", "writer-calls-exist" + _tag(cfg),
             "WalWriter::sync / append_entry no longer call WalFileWriter::sync / append", sync.where())
    if s_calls and a_calls:
        ck.check({p for p, _ in s_calls} == {p for p, _ in a_calls}, "R09.3", "same-file" + _tag(cfg),
                 "WalWriter::sync syncs %s but append_entry appends to %s" % ({p for p, _ in s_calls}, {p for p, _ in a_calls}),
                 sync.where(), detail="both operate on %s" % sorted({p for p, _ in s_calls}))
        # result of the inner sync must be what is returned
        for p, t in s_calls:
            ck.check(t["dest"] == {"l": 0} or lib2.flows_to_return(sync, t["dest"]), "R09.3", "writer-sync-result-returned" + _tag(cfg),
                     "WalWriter::sync does not return the WalFileWriter::sync result", sync.where(t["ln"]))
    # rotator.sync reaches writer.sync on current_writer, error propagated
    rs = prog.one(ROT + "sync")
    found = False
    for b, t in rs.calls():
        if is_callee(t, r"WalWriter::<.*>::sync$"):
            s = src_of_operand(rs, t["args"][0], through_calls=TRANSPARENT)
            if _is_cw(s):
                found = True
                prop = lib2.error_propagates(rs, t)
                ck.check(prop, "R09.3", "rotator-sync-propagates" + _tag(cfg),
                         "WalRotator::sync ignores the error of WalWriter::sync", rs.where(t["ln"]),
                         detail="error edge of writer.sync() reaches `return Err`")
    ck.check(found, "R09.3", "rotator-sync-calls-writer" + _tag(cfg), "WalRotator::sync no longer syncs current_writer", rs.where())
    # every non-simulated WalFileWriter impl's sync: the production one must reach File::sync_all / sync_data
    impls = [f for f in prog.lib_fns() if f.d.get("implements") == "streaming::wal_store::WalFileWriter::sync"]
    ck.floor("R09.3-impls" + _tag(cfg), len(impls), 3)
    for f in impls:
        selfty = f.d.get("impl_self", "")
        if "LocalWalWriter" in selfty:
            ok = any(is_callee(t, r"std::fs::File::sync_all$", r"std::fs::File::sync_data$") for _, t in f.calls())
            flush_only = any(is_callee(t, r"::flush$") for _, t in f.calls())
            ck.check(ok, "R09.3", "local-writer-fsync" + _tag(cfg),
                     "LocalWalWriter::sync does not call File::sync_all/sync_data%s" % (" (only flush)" if flush_only else ""),
                     f.where(), detail="File::sync_all reached")
            # result must be returned (possibly through map_err)
            for b, t in f.calls():
                if is_callee(t, r"std::fs::File::sync_all$", r"std::fs::File::sync_data$"):
                    ck.check(lib2.flows_to_return(f, t["dest"], through=(r"Result::<.*>::map_err", r"Try>::branch$")),
                             "R09.3", "local-writer-fsync-result" + _tag(cfg),
                             "result of File::sync_all is discarded", f.where(t["ln"]))
    # append of the production writer must write to the same file object that sync fsyncs
    la = [f for f in prog.lib_fns() if f.d.get("implements") == "streaming::wal_store::WalFileWriter::append"
          and "LocalWalWriter" in f.d.get("impl_self", "")]
    ls = [f for f in impls if "LocalWalWriter" in f.d.get("impl_self", "")]
    if la and ls:
        wa = {recv_path(la[0], t) for _, t in la[0].calls() if is_callee(t, r"Write>::write_all$", r"Write>::write$")}
        ws = {recv_path(ls[0], t) for _, t in ls[0].calls() if is_callee(t, r"File::sync_all$", r"File::sync_data$")}
        ck.check(wa and wa == ws, "R09.3", "local-writer-same-file" + _tag(cfg),
                 "LocalWalWriter::append writes %s but sync fsyncs %s" % (wa, ws), la[0].where(), detail="both on %s" % sorted(wa))


# ------------------------------------------------------------------------------------------------
def _r094(ck, prog, cfg):
    outer = prog.one("streaming::wal_actor::WalActorHandle::write_durable")
    bodies = prog.with_children(outer)
    n = 0
    for fn in bodies:
        if fn.kind != "coroutine":
            continue
        for b in sorted(fn.reachable_blocks()):
            for st in fn.blocks[b]["st"]:
                if st["lhs"] == {"l": 0}:
                    n += 1
                    rv = st["rv"]
                    key = "%s:ret#%d%s" % (fn.id, n, _tag(cfg))
                    if rv["k"] == "agg" and rv["n"] == "std::result::Result::Ok":
                        ck.bad("R09.4", key, "write_durable constructs Ok(..) locally instead of returning the WAL actor's ack",
                               fn.where(st["ln"]))
                    elif rv["k"] == "agg" and rv["n"] == "std::result::Result::Err":
                        ck.ok("R09.4", key, "Err(..) return")
                    elif rv["k"] == "use":
                        s = src_of_operand(fn, rv["a"])
                        # must come out of the awaited timeout(ack_rx) result: Ok(Ok(result)) pattern
                        good = s.kind in ("path", "multi", "call", "rv") and _from_resume(fn, rv["a"])
                        ck.check(good, "R09.4", key, "returned value does not originate in the awaited ack", fn.where(st["ln"]),
                                 detail="returned value = payload of the awaited ack (%s)" % s.path())
                    else:
                        ck.bad("R09.4", key, "unrecognised return value shape", fn.where(st["ln"]))
    ck.floor("R09.4" + _tag(cfg), n, 3)


def _from_resume(fn, o, depth=0):
    """value is a projection of the result of an `.await` (the poll result local of a yield loop)."""
    pl = op_place(o)
    if pl is None or depth > 20:
        return False
    # projection through Ok/Ok downcasts of a local defined from Poll::Ready payload
    l = pl["l"]
    defs = fn.defs().get(l, [])
    for (b, i, kind, payload) in defs:
        if kind == "assign":
            rv = payload
            if rv["k"] == "use":
                p2 = op_place(rv["a"])
                if p2 is not None:
                    for e in p2.get("p", []):
                        if isinstance(e, dict) and e.get("dc") == "Ready":
                            return True
                    if _from_resume(fn, rv["a"], depth + 1):
                        return True
    return False


# ------------------------------------------------------------------------------------------------
def _r097(ck, prog, cfg):
    from . import lib2
    from .lib import switch_info, edge_targets
    fn = prog.one("production::replicated_state::ReplicatedShardedState::<T>::execute::{closure#0}")
    sws = []
    for b in sorted(fn.reachable_blocks()):
        si = switch_info(fn, b)
        if si and si["kind"] == "discr" and si["ty"].endswith("wal_config::FsyncPolicy"):
            sws.append(b)
    ck.check(len(sws) == 1, "R09.7", "policy-switch" + _tag(cfg), "expected exactly one switch over FsyncPolicy in ReplicatedShardedState::execute, found %d" % len(sws), fn.where())
    if len(sws) != 1:
        return
    sw = sws[0]
    names = [v["n"] for v in prog.adts["streaming::wal_config::FsyncPolicy"]["variants"]]
    always_t = edge_targets(fn, sw, names.index("Always"))
    durable = [b for b, t in fn.calls() if is_callee(t, r"WalActorHandle::write_durable$")]
    ff = [b for b, t in fn.calls() if is_callee(t, r"WalActorHandle::write_fire_and_forget$")]
    ck.check(len(durable) >= 1, "R09.7", "write_durable-called" + _tag(cfg), "write_durable is not called", fn.where())
    done = set()
    for b in durable:
        aw = lib2.await_result(fn, b)
        if aw:
            done.add(aw[1])
    path = lib2.path_avoiding(fn, always_t, lambda x: fn.term(x)["k"] == "return", lambda x: x in done, (), from_succ=False)
    ck.check(bool(done) and path is None, "R09.7", "always:awaited-before-reply" + _tag(cfg),
             "with FsyncPolicy::Always a path answers the client without having awaited write_durable (the write is reported before it "
             "is durable)", fn.where(fn.term(sw)["ln"]), detail="awaited write_durable on every path of the Always edge")
    ck.check(not any(x in fn.reach([always_t], avoid=[sw]) and fn.dominates(always_t, x) for x in ff), "R09.7", "always:no-fire-and-forget" + _tag(cfg),
             "the Always edge uses write_fire_and_forget", fn.where(fn.term(sw)["ln"]), detail="fire-and-forget only under EverySecond/No")
    # what is made durable is the delta the shard just returned
    for b in durable:
        t = fn.term(b)
        o = t["args"][1]
        from_shard = False
        for _ in range(8):
            ss = src_of_operand(fn, o, through_calls=(r"Arc::<.*>::clone$", r"Clone>::clone$", r"Deref>::deref$"))
            if ss.kind != "call":
                break
            if is_callee(ss.term, r"ReplicatedShardHandle::execute(::\{closure#0\})?$") or "ReplicatedShardHandle::execute" in " ".join(callee_names(ss.term)):
                from_shard = True
                break
            if not ss.term["args"]:
                break
            o = ss.term["args"][0]
        ck.check(from_shard, "R09.7", "always:durable-delta-is-the-shard-delta" + _tag(cfg),
                 "the value handed to write_durable does not come from the shard's reply", fn.where(t["ln"]),
                 detail="delta from the awaited ReplicatedShardHandle::execute")
    # the policy switch is reached for every Some(delta) when a WAL handle exists: the only exits before it are `delta == None` and `wal_handle == None`
    shard_exec = [b for b, t in fn.calls() if is_callee(t, r"ReplicatedShardHandle::execute$")]
    ck.check(len(shard_exec) >= 1, "R09.7", "shard-execute-site" + _tag(cfg), "shard execute call not found", fn.where())
    for b in shard_exec[:1]:
        aw = lib2.await_result(fn, b)
        start = aw[1] if aw else b
        exempt = set()
        for sb in sorted(fn.reachable_blocks()):
            si = switch_info(fn, sb)
            if si and si["kind"] == "discr" and si["ty"].startswith("std::option::Option<"):
                if "ReplicationDelta" in si["ty"] or "WalActorHandle" in si["ty"]:
                    exempt.add((sb, edge_targets(fn, sb, 0)))
        path = lib2.path_avoiding(fn, start, lambda x: fn.term(x)["k"] == "return", lambda x: x == sw, exempt, from_succ=False)
        ck.check(path is None, "R09.7", "every-delta-reaches-the-wal" + _tag(cfg),
                 "a delta returned by the shard can bypass the WAL although a WAL handle is configured", fn.where(fn.term(b)["ln"]),
                 detail="only `no delta` and `no WAL` skip the WAL write")


def _running_max(f, o):
    """the same maximum as a hand-written loop:  let mut hi = 0; for name in &files { if let Some(s) = parse(name) { if s > hi { hi = s } } }
    -> (True, description) when the operand is such an accumulator over the whole listing"""
    from . import lib2
    from .lib import switch_info
    s0 = src_of_operand(f, o)
    l = s0.local
    if l is None or l <= f.d["argc"]:
        return None
    defs = f.defs().get(l, [])
    inits = [d for d in defs if d[2] == "assign" and d[3]["k"] == "use" and "c" in d[3]["a"]]
    ups = [d for d in defs if d[2] == "assign" and d[3]["k"] == "use" and "c" not in d[3]["a"]]
    if len(inits) != 1 or len(ups) != 1 or len(defs) != 2:
        return None
    ub = ups[0][0]
    x = src_of_operand(f, ups[0][3]["a"])
    if not (x.kind == "call" and is_callee(x.term, r"parse_wal_sequence$") and x.fields[-2:] == ("<Some>", "0")):
        return None
    # guarded by `candidate > accumulator`
    guarded = False
    for sb, _ in lib2.controlling_switches(f, ub):
        si = switch_info(f, sb)
        src = si["src"] if si else None
        if src is not None and src.kind == "rv" and src.rv["k"] == "bin" and src.rv["op"] in ("Gt", "Ge", "Lt", "Le"):
            a, b = src_of_operand(f, src.rv["a"]), src_of_operand(f, src.rv["b"])
            cand_first = a.kind == "call" and is_callee(a.term, r"parse_wal_sequence$") and b.local == l
            cand_second = b.kind == "call" and is_callee(b.term, r"parse_wal_sequence$") and a.local == l
            if (cand_first and src.rv["op"] in ("Gt", "Ge")) or (cand_second and src.rv["op"] in ("Lt", "Le")):
                tt, ft = lib2.bool_edges(f, sb)
                guarded = tt is not None and (ub == tt or ub in f.reach([tt], avoid=[sb]))
    if not guarded:
        return None
    # inside a loop over the whole listing
    for h, (none_t, some_t, nb) in lib2.loop_heads(f).items():
        if ub in f.reach([some_t], avoid=[h]) and not lib2.loop_cut(f, h):
            chain = [n for n, _ in lib2.iter_chain(f, f.term(nb)["args"][0])]
            srcl = src_of_operand(f, f.term(nb)["args"][0], through_calls=(r"IntoIterator>::into_iter$", r"Deref>::deref$", r"Try>::branch$", r"<impl \[.*\]>::iter$", r"Vec::<.*>::iter$"))
            if (srcl.kind == "call" and is_callee(srcl.term, r"::list$")) or "list" in chain:
                return True, ["running-max", "for", "list"]
    return None


def _r098(ck, prog, cfg):
    from . import lib2
    f = prog.one("streaming::wal::WalRotator::<S>::new")
    aggs = [st for b, i, st in f.stmts() if st["rv"]["k"] == "agg" and st["rv"].get("n", "").endswith("wal::WalRotator")]
    if len(aggs) != 1:
        ck.anchor_lost("R09.8", "WalRotator::new does not build exactly one WalRotator")
        return
    adt = prog.adts["streaming::wal::WalRotator"]["variants"][0]["fields"]
    idx = [i for i, fl in enumerate(adt) if fl["n"] == "current_sequence"]
    if not idx:
        ck.anchor_lost("R09.8", "WalRotator has no current_sequence field")
        return
    o = aggs[0]["rv"]["ops"][idx[0]]
    ch = lib2.iter_chain(f, o) if "c" not in o else []
    # iter_chain stops at non-iterator calls: walk through Option::unwrap_or & co. first
    s = src_of_operand(f, o, through_calls=(r"Option::<.*>::(unwrap_or|unwrap_or_default|unwrap_or_else|map_or)(::<.*>)?$",)) if "c" not in o else None
    if s is not None and s.kind in ("path", "multi") and s.local is not None and s.local > f.d["argc"]:
        # `match it.max() { Some(seq) => seq, None => 0 }`: unwrap_or written by hand - follow the non-constant arm
        live = [d for d in f.defs().get(s.local, []) if d[2] == "assign" and d[3]["k"] == "use" and "c" not in d[3]["a"]]
        consts = [d for d in f.defs().get(s.local, []) if d[2] == "assign" and d[3]["k"] == "use" and "c" in d[3]["a"]]
        if len(live) == 1 and len(live) + len(consts) == len(f.defs().get(s.local, [])):
            pl_ = op_place(live[0][3]["a"])
            if pl_ is not None:
                s2 = src_of_operand(f, {"cp": {"l": pl_["l"]}}, through_calls=(r"Option::<.*>::(unwrap_or|unwrap_or_default|unwrap_or_else|map_or)(::<.*>)?$",))
                while s2.kind in ("path", "multi") and s2.local is not None and s2.local > f.d["argc"]:
                    d2 = [d for d in f.defs().get(s2.local, []) if d[2] == "assign" and d[3]["k"] == "use" and "c" not in d[3]["a"]]
                    if len(d2) != 1 or op_place(d2[0][3]["a"]) is None or op_place(d2[0][3]["a"])["l"] == s2.local:
                        break
                    s2 = src_of_operand(f, {"cp": {"l": op_place(d2[0][3]["a"])["l"]}})
                s = s2
    names = []
    if s is not None and s.kind == "call":
        cur = s
        while cur.kind == "call" and len(names) < 12:
            names.append(callee(cur.term).rsplit("::", 1)[-1].split("<")[0] if not callee(cur.term).endswith(">") else re.sub(r"::<.*>$", "", callee(cur.term)).rsplit("::", 1)[-1])
            if not cur.term["args"]:
                break
            cur = src_of_operand(f, cur.term["args"][0], through_calls=(r"Deref>::deref$", r"Try>::branch$"))
    good = bool(names) and names[0] == "max" and "list" in names and not [n for n in names if n in ("last", "first", "take", "skip", "nth", "get", "pop", "rev")] \
        and any(n in ("filter_map", "map", "flat_map") for n in names)
    if not good and "c" not in o:
        good, names = _running_max(f, o) or (False, names)
    ck.check(good, "R09.8", "new:max-over-all-names" + _tag(cfg),
             "the rotator's starting sequence is not the maximum over every listed name (derivation: %s): if the element it looks at is not a "
             "WAL file the numbering restarts at 0 and the next rotation re-creates - truncates - a file holding acknowledged entries"
             % " <- ".join(names[:8]), f.where(aggs[0]["ln"]), detail="list() -> iter -> filter_map(parse_wal_sequence) -> max")
