"""C03 — shard count is unobservable: routing-function agreement, index provenance, fan-out tables."""
import re
from .facts import callee, op_place, op_local
from .lib import src_of_operand, src_of_place, is_callee, TRANSPARENT, switch_info
from . import effects, lib2

SA = "production::sharded_actor::"
STATE = SA + "ShardedActorState::<T>::"


def _tag(cfg):
    return "" if cfg == "default" else "@" + cfg


def run(ck, ctx):
    ck.rule("R03.1", "one routing function family: every function that maps a key to a shard index hashes it with the same "
                     "`Hash` impl (same Self type) and the same hasher type, and reduces modulo the shard count")
    ck.rule("R03.2", "every index into `shards` derives from the key it serves: hash_key*(key, num_shards) of the key that is sent, "
                     "a direct enumerate() of the per-shard bucket vector, a bucket-map key produced by hash_key, or the constant-0 "
                     "fallback under `get_primary_key() == None`")
    ck.rule("R03.3", "multi-key table completeness: every Command variant for which get_keys() can return two or more keys has its own "
                     "arm in ShardedActorState::execute (or is frozen as accepted with a reason)")
    ck.rule("R03.4", "keyspace-wide commands fan out: KEYS/SCAN/DBSIZE/FLUSHDB/FLUSHALL/INFO/RANDOMKEY arms iterate over all shards")
    ck.rule("R03.6", "one clock for every shard: every shard call made by ShardedActorState::execute is ShardHandle::execute(cmd, "
                     "virtual_time) with the virtual time read once at entry (no time-less fast-path message inside generic dispatch)")
    ck.rule("R03.7", "no shard-local shadow of process-wide state: the executor-local script cache is touched only when no shared script "
                     "cache is configured (with N shards a script cached by one shard's EVAL must be known to EVALSHA / SCRIPT EXISTS / "
                     "SCRIPT FLUSH on every shard)")
    ck.nd("equality of replies for arbitrary command sequences (needs execution); aggregation arithmetic")
    ck.rule("R03.8", "the batched pipelines answer like one shard: every key of a pipelined GET/SET batch is queued for its shard on every path "
                     "of the bucketing loop and each reply slot is filled from that key's own shard response (shared with C02 R02.7)")
    ck.rule("R03.9", "shard-local configuration stays behind the keyless CONFIG commands: the executor's ServerConfig (one copy per shard, "
                     "written by CONFIG SET, which the router sends to one shard only) is read and written solely by the CONFIG handlers; a keyed "
                     "command that consulted it would answer by the home shard's copy, which CONFIG SET never reached when N > 1")
    for cfg in ctx.configs:
        prog = ctx.prog(cfg)
        ck.configs.append(cfg)
        ck.fn_count += len(prog.fns)
        _r039(ck, prog, cfg)
        from . import c02 as _c02
        from .core import Alias as _Alias
        _c02._r027(_Alias(ck, "R02.7", "R03.8"), prog, cfg)
        _r031(ck, prog, cfg)
        _r032(ck, prog, cfg)
        _r033_034(ck, prog, cfg)
        _r036(ck, prog, cfg)
        _r037(ck, prog, cfg)


def _hash_sig(prog, fn, seen=None):
    """set of (Self type of Hash::hash, hasher type, hasher constructor) used by fn, following local delegation."""
    seen = seen or set()
    if fn.id in seen:
        return set()
    seen.add(fn.id)
    out = set()
    ctor = None
    for b, t in fn.calls():
        if is_callee(t, r"(DefaultHasher::new|AHasher as std::default::Default>::default|RandomState|::build_hasher)"):
            ctor = callee(t)
    for b, t in fn.calls():
        fa = t.get("fnargs") or ""
        m = re.match(r"^<(.+) as std::hash::Hash>::hash::<(.+)>$", fa)
        if m:
            out.add((m.group(1), m.group(2), ctor or "?", _input_sig(fn, t["args"][0])))
            continue
        c = prog.local_callee(fn, t)
        if c is not None and c.file == fn.file and c.kind in ("fn", "method") and c.short.startswith("hash_key"):
            sig = _input_sig(fn, t["args"][0])
            for (a, b2, c2, d2) in _hash_sig(prog, c, seen):
                out.add((a, b2, c2, sig or d2))
    return out


WHOLE = TRANSPARENT + (r"Deref>::deref$", r"str::as_bytes$", r"String::as_str$", r"AsRef<.*>>::as_ref$", r"String::as_bytes$", r"Borrow<.*>>::borrow$")


def _input_sig(f, operand):
    """'whole key' when the hashed value is the function's key parameter (seen through views such as as_bytes); otherwise a
    description of the transformation applied first (sub-slice, helper call, ...): routing siblings must apply the same one."""
    s = src_of_operand(f, operand, through_calls=WHOLE)
    if s.kind == "path" and s.local == 1 and not [x for x in s.fields if x not in ("*",)]:
        return "whole key"
    if s.kind == "call":
        return "transformed key (%s)" % callee(s.term).rsplit("::", 1)[-1]
    return "transformed key (%s)" % s.path()


def _r031(ck, prog, cfg):
    routers = [f for f in prog.lib_fns() if f.file == "src/production/sharded_actor.rs" and f.kind == "fn" and f.short.startswith("hash_key")]
    ck.floor("R03.1" + _tag(cfg), len(routers), 2)
    sigs = {}
    for f in routers:
        sigs[f.short] = _hash_sig(prog, f)
        # reduction modulo the shard count parameter
        mod_ok = False
        for b, i, st in f.stmts():
            rv = st["rv"]
            if rv["k"] == "bin" and rv["op"] == "Rem":
                d = src_of_operand(f, rv["b"])
                if d.kind == "path" and d.local == 2:
                    mod_ok = True
        # delegation: hash_key(k) = hash_key_bytes(k.as_bytes(), n)
        if not mod_ok:
            for b, t in f.calls():
                c = prog.local_callee(f, t)
                if c is not None and c.short.startswith("hash_key") and c.id != f.id:
                    mod_ok = True
        ck.check(mod_ok, "R03.1", "%s:modulo%s" % (f.short, _tag(cfg)), "%s does not reduce the hash modulo num_shards" % f.short, f.where())
    allsig = set()
    for s in sigs.values():
        allsig |= s
    ok = len(allsig) == 1 and all(len(s) == 1 for s in sigs.values())
    ck.check(ok, "R03.1", "routing-functions-agree" + _tag(cfg),
             "the key->shard functions hash differently: %s. The same key is sent to different shards depending on the entry path "
             "(fast/batch GET/SET vs generic dispatch), so a completed write is invisible to a later read"
             % {k: sorted(v) for k, v in sigs.items()}, routers[0].where() if routers else None,
             detail="all routing functions use %s" % sorted(allsig))


def _num_shards_src(fn, operand):
    s = src_of_operand(fn, operand)
    return (s.kind == "path" and s.fields[-1:] == ("num_shards",)) or (s.kind == "path" and s.root == "num_shards")


def _bucket_keys_from_hash(fn, prog=None):
    """all HashMap<usize,_>::entry(k) calls in fn (and in its closures: the fill loop may be a `for_each`) take k from hash_key*"""
    n = 0
    for g in (prog.with_children(fn) if prog is not None else [fn]):
        for b, t in g.calls():
            if is_callee(t, r"HashMap::<usize, .*>::entry$"):
                n += 1
                k = src_of_operand(g, t["args"][1])
                if not (k.kind == "call" and is_callee(k.term, r"sharded_actor::hash_key(_bytes)?$")):
                    return False
    return n > 0


def _r032(ck, prog, cfg):
    n = 0
    for f in prog.lib_fns():
        if f.file != "src/production/sharded_actor.rs":
            continue
        for b, t in f.calls():
            if not is_callee(t, r"Index<.*>>::index$", r"IndexMut<.*>>::index_mut$"):
                continue
            r = src_of_operand(f, t["args"][0], through_calls=TRANSPARENT)
            if not (r.kind == "path" and r.fields[-1:] == ("shards",)):
                continue
            n += 1
            i = src_of_operand(f, t["args"][1])
            key = "%s:shards[]#%d%s" % (f.id.replace(SA, ""), _ord(f, b), _tag(cfg))
            alts = [(i, b)]
            if i.kind in ("multi", "path") and i.local is not None and i.local > f.d["argc"] and not i.fields and len(f.defs().get(i.local, [])) >= 2:
                # `let idx = match key { Some(k) => hash_key(k, n), None => 0 };`: every alternative is judged where it is defined
                alts = []
                from .lib import Src
                for (db, di, kind, payload) in f.defs().get(i.local, []):
                    if kind == "call":
                        alts.append((Src("call", term=payload, site=(db, di), local=i.local), db))
                    elif kind == "assign" and payload["k"] == "use":
                        alts.append((src_of_operand(f, payload["a"]), db))
                    else:
                        alts.append((Src("rv", rv=payload, site=(db, di), local=i.local), db))
                n += len(alts) - 1
            ok = True
            why = ""
            for ai, ab in alts:
                ok1, why1 = _classify_index(prog, f, ai, ab, ck, key)
                if not ok1:
                    ok, why = False, why1
            ck.check(ok, "R03.2", key, "a shard is selected by an index that is not derived from the served key: %s" % why,
                     f.where(t["ln"]), detail="index = " + i.path()[:80])
    # per-shard bucket vectors (`vec![..; self.num_shards]`): the slot a key is put into is hash_key*(key, num_shards) - the same
    # function every other path uses - because the slot number is later used as the shard number (direct enumerate)
    nb = 0
    for f in prog.lib_fns():
        if f.file != "src/production/sharded_actor.rs":
            continue
        for b, t in f.calls():
            if not is_callee(t, r"IndexMut<.*>>::index_mut$", r"Index<.*>>::index$") or len(t["args"]) < 2:
                continue
            r = src_of_operand(f, t["args"][0], through_calls=TRANSPARENT + (r"DerefMut>::deref_mut$", r"Deref>::deref$"))
            if not (r.kind == "call" and is_callee(r.term, r"vec::from_elem")):
                continue
            cnt = r.term["args"][1] if len(r.term["args"]) > 1 else None
            if cnt is None or not _num_shards_src(f, cnt):
                continue
            nb += 1
            i = src_of_operand(f, t["args"][1])
            okb = i.kind == "call" and is_callee(i.term, r"sharded_actor::hash_key(_bytes)?$") and _num_shards_src(f, i.term["args"][1])
            ck.check(okb, "R03.2", "%s:bucket-slot#%d%s" % (f.id.replace(SA, ""), nb, _tag(cfg)),
                     "a key is put into a per-shard bucket whose number is not hash_key*(key, num_shards) (%s): the batch path sends the key to a "
                     "different shard than the single-key paths do" % i.path()[:80], f.where(t["ln"]), detail="slot = hash_key_bytes(key, num_shards)")
    ck.floor("R03.2-buckets" + _tag(cfg), nb, 2)
    ck.floor("R03.2" + _tag(cfg), n, 13)


def _classify_index(prog, f, i, b, ck, key):
    ok = False
    why = "index provenance not recognised (%s)" % i.path()
    if i.kind == "call" and is_callee(i.term, r"sharded_actor::hash_key(_bytes)?$"):
        ok = _num_shards_src(f, i.term["args"][1])
        why = "hash reduced by something other than num_shards"
        if ok:
            # the key that is hashed is the key that is sent (same root) for the direct single-key helpers
            hk = src_of_operand(f, i.term["args"][0], through_calls=TRANSPARENT + (r"Deref>::deref$", r"String::as_str$", r"AsRef<.*>>::as_ref$"))
            ck.extra.setdefault("hashed_keys", {})[key] = hk.path()
    elif i.kind == "call" and is_callee(i.term, r"Enumerate<.*> as std::iter::Iterator>::next$") and i.fields[-2:] == ("0", "0"):
        ok, why = _direct_enumerate(f, i.term)
    elif i.kind == "call" and is_callee(i.term, r"hash_map::(IntoIter|Iter)<.*> as std::iter::Iterator>::next$"):
        ok = _bucket_keys_from_hash(f, prog)
        why = "bucket map keys are not all produced by hash_key"
    elif i.kind == "path" and f.kind == "closure" and i.local == 2 and i.fields[:1] == ("0",):
        par = prog.fns.get(f.parent)
        ok = par is not None and _bucket_keys_from_hash(par, prog)
        why = "closure maps over buckets whose keys are not all produced by hash_key"
    elif i.kind == "const" and i.text == "0_usize":
        ok = False
        why = "constant shard 0 used outside the key-less fallback"
        for g in lib2.guards(f, b):
            si = g["si"]
            if si and si["kind"] == "discr" and si["src"].kind == "call" and is_callee(si["src"].term, r"Command::get_primary_key$") \
                    and (g["value"] == "0" or (g["value"] == "else" and "0" not in g["neg_values"])):
                ok = True

    return ok, why


def _ord(f, b):
    sites = sorted(bb for bb, t in f.calls() if is_callee(t, r"Index<.*>>::index$", r"IndexMut<.*>>::index_mut$"))
    return sites.index(b)


def _direct_enumerate(f, next_term):
    """the Enumerate iterator being advanced was built as into_iter(<Vec bucket vector>).enumerate() with nothing in between,
    and the bucket vector has num_shards slots"""
    it = src_of_operand(f, next_term["args"][0], through_calls=TRANSPARENT + (r"IntoIterator>::into_iter$",))
    # it should be call(enumerate)
    if not (it.kind == "call" and is_callee(it.term, r"Iterator>::enumerate$")):
        return False, "the index does not come from a plain enumerate() (%s)" % it.path()
    inner = src_of_operand(f, it.term["args"][0])
    if not (inner.kind == "call" and is_callee(inner.term, r"IntoIterator>::into_iter$", r"<impl \[.*\]>::iter$", r"Vec::<.*>::iter$")):
        return False, ("an iterator adaptor sits between the bucket vector and enumerate() (%s): positions no longer equal shard numbers"
                       % callee(inner.term) if inner.kind == "call" else inner.path())
    vec = src_of_operand(f, inner.term["args"][0])
    if vec.kind == "call" and is_callee(vec.term, r"vec::from_elem"):
        if _num_shards_src(f, vec.term["args"][1]):
            return True, ""
        return False, "bucket vector is not sized by num_shards"
    return False, "bucket vector provenance not recognised (%s)" % vec.path()


# variants accepted without a partitioning arm, with reason
MULTIKEY_ACCEPTED = {
    "BatchSet": "internal per-shard message built by the MSET fan-out (keys already on one shard)",
    "BatchGet": "internal per-shard message built by the MGET fan-out",
    "Watch": "the connection handler snapshots each watched key with its own GET (one key per message)",
    "Del": "arm exists for len>1; the single-key case falls to the primary-key arm",
}
KEYSPACE_WIDE = ("Keys", "Scan", "DbSize", "FlushDb", "FlushAll", "Info", "RandomKey")


def _multi_key_variants(prog):
    """variants whose get_keys arm can produce >= 2 keys: the arm clones a Vec<String>, iterates pairs, or builds a vec of 2+ fields"""
    gk = prog.one("redis::command::Command::get_keys")
    sw, table = effects.dispatch_table(prog, gk)
    adt = prog.adts["redis::command::Command"]
    multi = set()
    if sw is None:
        return None
    t = gk.term(sw)
    names = [v["n"] for v in adt["variants"]]
    tgs = sorted({tg for _, tg in t["cases"]} | {t["else"]})
    reach = {tg: ({tg} | gk.reach([tg])) for tg in tgs}
    common = set.intersection(*reach.values()) if reach else set()
    for v, tg in t["cases"]:
        name = names[int(v)]
        arm = reach[tg] - common
        many = False
        for x in arm:
            tt = gk.term(x)
            if tt["k"] == "call":
                if is_callee(tt, r"Vec<std::string::String> as std::clone::Clone>::clone$", r"Iterator>::collect::<std::vec::Vec<std::string::String>>$",
                             r"Vec::<std::string::String>::extend", r"slice::<impl \[std::string::String\]>::to_vec$",
                             r"Vec::<std::string::String>::push$"):
                    many = True
                if is_callee(tt, r"slice::<impl \[.*\]>::into_vec") :
                    # vec![a, b]: boxed array of N strings
                    a = src_of_operand(gk, tt["args"][0])
                    many = many or _array_len(gk, arm) >= 2
            for st in gk.blocks[x]["st"]:
                rv = st["rv"]
                if rv["k"] == "agg" and rv["ak"] == "array" and len(rv["ops"]) >= 2:
                    many = True
        if many:
            multi.add(name)
    return multi


def _array_len(fn, arm):
    m = 0
    for x in arm:
        for st in fn.blocks[x]["st"]:
            rv = st["rv"]
            if rv["k"] == "agg" and rv["ak"] == "array":
                m = max(m, len(rv["ops"]))
    return m


def _r033_034(ck, prog, cfg):
    ex = prog.one(STATE + "execute::{closure#0}")
    sw, table = effects.dispatch_table(prog, ex)
    if sw is None:
        ck.anchor_lost("R03.3", "ShardedActorState::execute has no dispatch over Command")
        return
    t = ex.term(sw)
    adt = prog.adts["redis::command::Command"]
    names = [v["n"] for v in adt["variants"]]
    listed = {names[int(v)] for v, _ in t["cases"]}
    multi = _multi_key_variants(prog)
    if multi is None:
        ck.anchor_lost("R03.3", "Command::get_keys has no dispatch over Command")
        return
    ck.floor("R03.3" + _tag(cfg), len(multi), 8)
    ck.extra.setdefault("multi_key_variants", sorted(multi))
    for v in sorted(multi):
        if v in MULTIKEY_ACCEPTED and v not in listed:
            ck.ok("R03.3", "multikey:%s%s" % (v, _tag(cfg)), "accepted: " + MULTIKEY_ACCEPTED[v])
            continue
        ck.check(v in listed, "R03.3", "multikey:%s%s" % (v, _tag(cfg)),
                 "Command::%s can name keys that live on different shards but has no partitioning arm in ShardedActorState::execute: it is "
                 "routed by its first key only, so with N>1 shards the other key is looked up on the wrong shard" % v, ex.where(t["ln"]),
                 detail="own arm exists")
    # keyspace-wide commands
    n = 0
    for v in KEYSPACE_WIDE:
        if v not in names:
            continue
        n += 1
        fan = False
        if v in listed:
            tg = [tg for vv, tg in t["cases"] if names[int(vv)] == v][0]
            arm = {x for x in ex.reachable_blocks() if ex.dominates(tg, x)} if ex.pred(tg) == [sw] else set()
            iters = set()
            for x in arm:
                tt = ex.term(x)
                if tt["k"] == "call" and is_callee(tt, r"<impl \[.*ShardHandle\]>::iter$", r"Vec::<.*ShardHandle>::iter$", r"IntoIterator>::into_iter$"):
                    r = src_of_operand(ex, tt["args"][0], through_calls=TRANSPARENT + (r"Deref>::deref$",))
                    if r.kind == "path" and "shards" in r.fields:
                        iters.add(x)
            fan = bool(iters)
            if fan:
                # the walk is over *all* shards: no adaptor narrows the shard iterator (filter by a `populated`/`dirty` flag, take, skip ..)
                narrowed = []
                for x in arm:
                    tt = ex.term(x)
                    if tt["k"] == "call" and tt["args"] and is_callee(tt, r"Iterator>?::(filter|filter_map|take|skip|take_while|skip_while|step_by|nth|last|find|find_map|position)(::<.*>)?$"):
                        chain = lib2.iter_chain(ex, tt["args"][0])
                        if any(ct is ex.term(i_) for _, ct in chain for i_ in iters) or \
                                any(src_of_operand(ex, tt["args"][0], through_calls=TRANSPARENT).term is ex.term(i_) for i_ in iters if src_of_operand(ex, tt["args"][0], through_calls=TRANSPARENT).kind == "call"):
                            narrowed.append((callee(tt).rsplit("::", 1)[-1].split("<")[0], tt["ln"]))
                if narrowed:
                    ck.bad("R03.4", "keyspace-wide:%s:narrowed%s" % (v, _tag(cfg)),
                           "Command::%s walks the shards through %s (line %s): shards that the adaptor leaves out are not asked, so a key that lives "
                           "there is missing from the answer (or survives a flush) - a one-shard server always asks its only shard"
                           % (v, narrowed[0][0], narrowed[0][1]), ex.where(narrowed[0][1]))
                    continue
                # ... on every path through the arm: no shortcut that answers from a single shard
                leak = lib2.path_avoiding(ex, tg, lambda x: x not in arm or ex.term(x)["k"] == "return", lambda x: x in iters, (), from_succ=False)
                if leak is not None:
                    lines = []
                    for x in leak:
                        ln = ex.term(x).get("ln")
                        if ln and (not lines or lines[-1] != ln):
                            lines.append(ln)
                    ck.bad("R03.4", "keyspace-wide:%s:shortcut%s" % (v, _tag(cfg)),
                           "Command::%s concerns the whole keyspace but a path through its arm answers without iterating over all shards "
                           "(lines %s): with N>1 shards that reply covers one shard only" % (v, lines[:10]), ex.where(lines[0] if lines else None))
                    continue
        ck.check(fan, "R03.4", "keyspace-wide:%s%s" % (v, _tag(cfg)),
                 "Command::%s concerns the whole keyspace but ShardedActorState::execute does not fan it out over all shards (it is "
                 "answered by shard 0 only)" % v, ex.where(t["ln"]), detail="arm iterates self.shards")
    ck.floor("R03.4" + _tag(cfg), n, 7)


def _r036(ck, prog, cfg):
    ex = prog.one(STATE + "execute::{closure#0}")
    bodies = prog.with_children(ex)
    n = 0
    for f in bodies:
        for b, t in f.calls():
            c = t.get("fn") or ""
            m = re.search(r"sharded_actor::ShardHandle::(\w+)$", c) or \
                re.search(r"ShardedActorState::<T>::(pooled_fast_\w+|fast_get|fast_set|fast_batch_\w+)$", c)
            if not m:
                continue
            n += 1
            meth = m.group(1)
            key = "%s:%s#%d%s" % (f.id.replace(STATE, ""), meth, n, _tag(cfg))
            if meth != "execute":
                ck.bad("R03.6", key, "generic dispatch sends a shard the time-less message ShardHandle::%s: that shard answers with the "
                       "clock of the last generic command it happened to receive, so expiry visibility depends on the shard count" % meth,
                       f.where(t["ln"]))
                continue
            vt = src_of_operand(f, t["args"][2])
            good = (vt.kind == "call" and is_callee(vt.term, r"get_current_virtual_time$")) or \
                   (vt.kind == "path" and (vt.root or "").startswith("virtual_time"))
            ck.check(good, "R03.6", key, "shard call does not pass the virtual time read at entry (%s)" % vt.path(), f.where(t["ln"]),
                     detail="ShardHandle::execute(cmd, virtual_time)")
    ck.floor("R03.6" + _tag(cfg), n, 10)


def _r037(ck, prog, cfg):
    fns = [f for f in prog.lib_fns() if f.file == "src/redis/executor/script_ops.rs"]
    n = 0
    for f in fns:
        for b, t in f.calls():
            if not t["args"] or "c" in t["args"][0]:
                continue
            r = src_of_operand(f, t["args"][0], through_calls=TRANSPARENT + (r"Deref>::deref$", r"DerefMut>::deref_mut$"))
            if not (r.kind == "path" and r.root == "self" and r.fields[:1] == ("script_cache",)):
                continue
            n += 1
            # must sit on the None edge of `self.shared_script_cache`
            guarded = False
            for g in lib2.guards(f, b):
                si = g["si"]
                if si and si["kind"] == "discr" and si["ty"].startswith("std::option::Option<") and si["src"].kind == "path" and \
                        si["src"].root == "self" and "shared_script_cache" in si["src"].fields:
                    if g["value"] == "0" or (g["value"] == "else" and "0" not in g["neg_values"]):
                        guarded = True
            meth = callee(t).rsplit("::", 1)[-1].split("<")[0]
            ck.check(guarded, "R03.7", "%s:script_cache.%s%s" % (re.sub(r"\{closure#\d+\}", "{closure}", f.id).rsplit("::", 1)[-1], meth, _tag(cfg)),
                     "the executor-local script cache is used (%s) although a shared script cache may be configured: with more than one shard the "
                     "script is known to one shard only (EVALSHA/SCRIPT EXISTS on another shard answer differently than with one shard)" % meth,
                     f.where(t["ln"]), detail="only on the `shared_script_cache == None` edge")
    if cfg != "nodefault" or n:
        ck.floor("R03.7" + _tag(cfg), n, 3)


# ------------------------------------------------------------------------------------------------
def _places_of(node, out):
    if isinstance(node, dict):
        if "l" in node and "p" in node:
            out.append(node)
        for v in node.values():
            _places_of(v, out)
    elif isinstance(node, list):
        for v in node:
            _places_of(v, out)


def _r039(ck, prog, cfg):
    EX = "redis::executor::CommandExecutor"
    adt = prog.adts.get(EX)
    cfg_fields = [x["n"] for x in adt["variants"][0]["fields"] if "ServerConfig" in x.get("t", "")] if adt else []
    if not cfg_fields:
        ck.anchor_lost("R03.9", "CommandExecutor has no ServerConfig field any more")
        return
    users = {}
    for f in prog.fns.values():
        out = []
        _places_of(f.d.get("blocks"), out)
        for pl in out:
            for e in pl["p"]:
                if isinstance(e, dict) and e.get("o") == EX and e.get("f") in cfg_fields:
                    users.setdefault(f.id, f)
    n = 0
    for fid, f in sorted(users.items()):
        n += 1
        ok = f.file == "src/redis/executor/config_ops.rs" or re.search(r"CommandExecutor::(new|with_shared_script_cache|default)$", fid)
        ck.check(bool(ok), "R03.9", "config-reader:%s%s" % (fid.rsplit("::", 1)[-1] if "{closure" not in fid else fid.rsplit("::", 2)[-2] + "::{closure}", _tag(cfg)),
                 "%s reads or writes the executor's per-shard ServerConfig outside the CONFIG handlers: CONFIG SET reaches one shard only, so with "
                 "more than one shard a command served by another shard sees a different configuration than a one-shard server" % fid, f.where(),
                 detail="ServerConfig touched only by config_ops")
    ck.floor("R03.9" + _tag(cfg), n, 2)
