"""C14 — encodings round-trip; damage is detected: writer/reader layout agreement, checksum coverage, validate-before-decode."""
import re
from .facts import callee, op_place, op_local
from .lib import src_of_operand, src_of_place, is_callee, TRANSPARENT, switch_info
from . import lib2

WIDTH = {"u8": 1, "i8": 1, "u16": 2, "i16": 2, "u32": 4, "i32": 4, "u64": 8, "i64": 8, "u128": 16, "usize": 8}
THR = TRANSPARENT + (r"Deref>::deref$",)

# (struct, writer fn suffix, reader fn suffix, file)
CODECS = [
    ("SegmentHeader", "streaming::segment::SegmentHeader::to_bytes", "streaming::segment::SegmentHeader::from_bytes", "HEADER_SIZE"),
    ("SegmentFooter", "streaming::segment::SegmentFooter::to_bytes", "streaming::segment::SegmentFooter::from_bytes", "FOOTER_SIZE"),
    ("CheckpointHeader", "streaming::checkpoint::CheckpointHeader::write_to", "streaming::checkpoint::CheckpointHeader::read_from", "CHECKPOINT_HEADER_SIZE"),
]


def _tag(cfg):
    return "" if cfg == "default" else "@" + cfg


def run(ck, ctx):
    ck.rule("R14.1", "writer/reader layout agreement: for every hand-written fixed codec the writer's field sequence (field, offset, width, "
                     "endianness) equals the byte ranges the reader decodes for the same field")
    ck.rule("R14.2", "constants agree: the declared size constant covers the sum of the written widths (padding included) and the reader "
                     "checks the input length against it; magic and version are compared on read")
    ck.rule("R14.3", "checksum coverage: every field a header decoder returns (other than the checksum itself) is fed to that header's CRC")
    ck.rule("R14.4", "validate-before-decode: every consumer of SegmentReader::deltas / CheckpointReader::load on the recovery, compaction "
                     "and checkpoint paths calls validate() successfully first")
    ck.rule("R14.5", "serde symmetry: each encode/decode pair (gossip JSON, WAL/segment bincode) uses the same format crate on the same "
                     "type; the only manual Serialize/Deserialize (SDS) writes raw bytes and reads raw bytes in every serializer")
    ck.rule("R14.6", "damage ends decoding: the WAL reader stops at the first undecodable entry and only yields entries that passed length "
                     "and CRC validation (shared with C10 R10.1)")
    ck.rule("R14.7", "what the writer can write the reader can read back: the WAL entry decoder rejects a frame only for truncation or checksum "
                     "mismatch, never for a size or shape limit the encoder/appender does not enforce (shared with C10 R10.6)")
    ck.rule("R14.8", "no field is left out of an encoding: for every struct of the replicated / persisted data model with a derived serde impl, "
                     "the generated `serialize` writes as many fields as the struct declares and the generated `visit_seq` reads as many "
                     "(`#[serde(skip)]` on a field of a CRDT - e.g. the OR-Set's tag counter - makes the decoded value behave differently "
                     "from the encoded one although it compares equal)")
    ck.rule("R14.13", READER_TEXT)
    from . import c10 as _c10j
    ck.rule("R14.16", _c10j.JUDGE_TEXT + " (shared with C10 R10.11: what was written intact must be read back)")
    ck.rule("R14.17", RECORD_LIMIT_TEXT)
    ck.rule("R14.15", "field coverage of every encoded type is the derive's: Serialize/Deserialize of the persisted and gossiped types are the "
                      "derive-generated impls (whose field counts R14.8 checks); the only hand-written pair is SDS (R14.5). A hand-written impl "
                      "for any other type is reported - it can leave a field out and rebuild it from another one on decode (e.g. a delta's "
                      "source_replica from the value's stamp), which is not the identity on all fields")
    ck.rule("R14.14", "what validate() vouched for is what gets decoded: the segment reader and its record iterator decode the record block exactly as "
                      "read/decompressed - no truncate/resize/drain/split/strip of those bytes (e.g. to a footer size field that no checksum "
                      "covers): damage to such a field would shorten the decoded stream silently instead of being detected")
    ck.rule("R14.9", "an encoder encodes what it was given: the checkpoint writer (and the manager in front of it) passes the state map it "
                     "received into the encoded CheckpointData unchanged - no retain/filter/remove on the way - and key_count is its length")
    ck.rule("R14.11", "encodings stay in serde's plain derived form: no Serialize/Deserialize impl of a replication or streaming type goes "
                      "through serde's buffered `Content` tree (internally tagged / untagged enums, #[serde(flatten)]) or deserialize_any: "
                      "under JSON the buffered form turns the integer keys of the per-replica maps (VectorClock, GCounter, PNCounter) into "
                      "strings that no longer decode, and bincode (WAL, segments, checkpoints) cannot decode a self-describing form at all")
    from . import bounds as _bounds
    ck.rule("R14.10", _bounds.TEXT % "the WAL, segment and checkpoint decoders")
    ck.nd("round-trip equality for all values (derive-generated serde and bincode/serde_json are trusted); detection probability of CRC32")
    from . import c12 as _c12w
    ck.rule("R14.12", _c12w.WRITER_TEXT + " (shared with C12 R12.8)")
    for cfg in ctx.configs:
        prog = ctx.prog(cfg)
        ck.configs.append(cfg)
        ck.fn_count += len(prog.fns)
        _c12w.writer_rule(ck, prog, cfg, "R14.12")
        from . import c10
        c10.r106(ck, prog, cfg, "R14.7")
        _layouts(ck, prog, cfg)
        _wal_layout(ck, prog, cfg)
        _r144(ck, prog, cfg)
        _r145(ck, prog, cfg)
        _r148(ck, prog, cfg)
        _r149(ck, prog, cfg)
        reader_rule(ck, prog, cfg, "R14.13")
        _r1415(ck, prog, cfg)
        record_limit_rule(ck, prog, cfg, "R14.17")
        from . import c10 as _c10q
        _c10q.r1011(ck, prog, cfg, "R14.16")
        from . import c10 as _c10r
        _c10r.r109(ck, prog, cfg, "R14.14", file="src/streaming/segment.rs", owners=("SegmentReader", "DeltaIterator"), what="segment reader", floor=5)
        _r1411(ck, prog, cfg)
        _bounds.rule(ck, prog, cfg, "R14.10", ("src/streaming/wal.rs", "src/streaming/segment.rs", "src/streaming/checkpoint.rs"),
                     "a truncated segment, checkpoint or WAL image", exempt={"CheckpointReader::<'a>::load": "load() reads the offsets validate() has checked; R14.4 requires a successful validate() before every load() on the recovery and checkpoint paths"}, floor=20, tag=_tag(cfg))
        from . import c10
        c10._r101(_Alias(ck, "R10.1", "R14.6"), prog, cfg)


class _Alias:
    """report another module's rule instances under this property's rule id"""

    def __init__(self, ck, src, dst):
        self.ck, self.src, self.dst = ck, src, dst

    def __getattr__(self, name):
        f = getattr(self.ck, name)
        if name in ("ok", "bad", "check", "floor"):
            def g(*a, **kw):
                a = list(a)
                idx = 1 if name == "check" else 0
                if isinstance(a[idx], str):
                    if a[idx].startswith(self.src):
                        a[idx] = a[idx].replace(self.src, self.dst, 1)
                    elif a[idx].startswith("R10.2"):
                        return True  # coverage of the WAL stamp is C10's known finding, not re-reported here
                return f(*a, **kw)
            return g
        return f


def _field_of(fn, s):
    if s.kind == "path" and s.root == "self" and s.fields:
        return s.fields[0]
    return None


def _writer_layout(prog, fn):
    """sequence of (field|'<pad>'|'<const>', width, enc) in CFG order for writer functions"""
    out = []
    for b in fn.rpo():
        t = fn.term(b)
        if t["k"] != "call":
            continue
        item = None
        if is_callee(t, r"Vec::<u8>::extend_from_slice$", r"Write>::write_all$", r"WalFileWriter>::append$"):
            x = src_of_operand(fn, t["args"][1], through_calls=THR)
            item = _chunk(fn, x)
        elif is_callee(t, r"Vec::<u8>::push$"):
            x = src_of_operand(fn, t["args"][1], through_calls=THR)
            f = _field_of(fn, x)
            item = (f or "<byte>", 1, "raw")
        elif is_callee(t, r"Vec::<u8>::resize$"):
            n = t["args"][1]
            item = ("<pad-to>", int(n["v"]) if "v" in n else None, "pad")
        if item is not None:
            out.append(item + (t["ln"],))
    return out


def _chunk(fn, x):
    f = _field_of(fn, x)
    if f is not None:
        # raw field (array / Vec)
        w = None
        ty = _field_type(fn, x)
        m = re.match(r"^\[u8; (\d+)\]$", ty or "")
        if m:
            w = int(m.group(1))
        return (f, w, "raw")
    if x.kind == "call" and is_callee(x.term, r"<impl (u8|u16|u32|u64|i64|usize)>::to_(le|be|ne)_bytes$"):
        m = re.search(r"<impl (\w+)>::to_(le|be|ne)_bytes$", callee(x.term))
        inner = src_of_operand(fn, x.term["args"][0], through_calls=THR)
        f = _field_of(fn, inner) or (inner.root if inner.kind == "path" else inner.path())
        return (f, WIDTH[m.group(1)], m.group(2))
    if x.kind == "agg" and x.rv["ak"] == "array":
        # `[self.version]`, `[self.version, self.flags]`
        names = []
        for o in x.rv["ops"]:
            s = src_of_operand(fn, o, through_calls=THR)
            names.append(_field_of(fn, s) or "<const>")
        return ("+".join(names), len(names), "raw")
    if x.kind == "rv" and x.rv["k"] == "repeat":
        n = re.match(r"^(\d+)", x.rv["n"].replace("_usize", ""))
        return ("<pad>", int(n.group(1)) if n else None, "pad")
    if x.kind == "const":
        m = re.match(r"^&?\[u8; (\d+)\]$", x.cty or "")
        if m:
            return ("<pad>" if "promoted" in (x.text or "") or (x.pv or "").startswith("[") else "<const>", int(m.group(1)), "pad")
    return ("<?%s>" % x.path()[:40], None, "?")


def _field_type(fn, s):
    # walk the original place to find the last field projection's type: re-resolve through the defs
    return _FT.get((fn.id, s.path()))


_FT = {}


def _index_field_types(fn):
    for b, i, st in fn.stmts():
        for pl in [st["lhs"]] + ([st["rv"]["pl"]] if "pl" in st["rv"] else []):
            fs = [e for e in pl.get("p", []) if isinstance(e, dict) and "f" in e]
            if fs:
                name = fn.name_of_local(pl["l"]) or ""
                if name == "self" or pl["l"] == 1:
                    _FT[(fn.id, "self." + ".".join(e["f"] for e in fs))] = fs[-1]["t"]


def _reader_layout(prog, fn, struct_name):
    """{field: (offset, width, enc)} from the struct aggregate the reader returns"""
    out = {}
    for b, i, st in fn.stmts():
        rv = st["rv"]
        if rv["k"] == "agg" and rv["n"].endswith("::" + struct_name):
            for fname, o in zip(rv["fs"], rv["ops"]):
                out[fname] = _decode_src(fn, o) + (st["ln"],)
    return out


def _decode_src(fn, o):
    s = src_of_operand(fn, o)
    enc = "raw"
    if s.kind == "call" and is_callee(s.term, r"<impl (u8|u16|u32|u64|i64|usize)>::from_(le|be|ne)_bytes$"):
        enc = re.search(r"from_(le|be|ne)_bytes$", callee(s.term)).group(1)
        s = src_of_operand(fn, s.term["args"][0])
    # expect/unwrap(try_into(index(range)))
    hops = 0
    while s.kind == "call" and hops < 6 and is_callee(s.term, r"Result::<.*>::(expect|unwrap)$", r"TryInto<.*>>::try_into$", r"TryFrom<.*>>::try_from$", r"Try>::branch$"):
        s = src_of_operand(fn, s.term["args"][0])
        hops += 1
    if s.kind == "call" and is_callee(s.term, r"Index<std::ops::Range<usize>>>::index$", r"Index<.*Range.*>>::index$"):
        r = src_of_operand(fn, s.term["args"][1])
        if r.kind == "agg" and r.rv["n"] == "std::ops::Range":
            a, b = r.rv["ops"]
            try:
                lo = int(a["c"].split("_")[0]); hi = int(b["c"].split("_")[0])
                return (lo, hi - lo, enc)
            except Exception:
                return (None, None, enc)
    if s.kind == "agg" and s.rv["ak"] == "array":
        idxs = []
        for e in s.rv["ops"]:
            p = op_place(e)
            c = _const_index(fn, e)
            idxs.append(c)
        if all(c is not None for c in idxs) and idxs == list(range(idxs[0], idxs[0] + len(idxs))):
            return (idxs[0], len(idxs), enc)
    c = _const_index(fn, o)
    if c is not None:
        return (c, 1, "raw")
    return (None, None, enc)


def _const_index(fn, o):
    """operand is `data[c]` with constant c"""
    pl = op_place(o)
    if pl is None:
        return None
    cur = pl
    for _ in range(4):
        for e in cur.get("p", []):
            if isinstance(e, dict) and "ix" in e:
                d = fn.defs().get(e["ix"], [])
                if len(d) == 1 and d[0][2] == "assign" and d[0][3]["k"] == "use" and "c" in d[0][3]["a"]:
                    try:
                        return int(d[0][3]["a"]["c"].split("_")[0])
                    except Exception:
                        return None
            if isinstance(e, dict) and "cix" in e:
                return e["cix"]
        d = fn.defs().get(cur["l"], []) if "p" not in cur else []
        if len(d) == 1 and d[0][2] == "assign" and d[0][3]["k"] == "use":
            nxt = op_place(d[0][3]["a"])
            if nxt is None:
                return None
            cur = nxt
        else:
            return None
    return None


def _const_value(prog, fn, name):
    for b, i, st in fn.stmts():
        rv = st["rv"]
        if rv["k"] == "repeat" and rv["a"].get("c", "").endswith("_u8"):
            m = re.match(r"^(\d+)", rv["n"].replace("_usize", ""))
            if m and fn.short == "read_from":
                return int(m.group(1))
    return _const_value2(prog, fn, name)


def _const_value2(prog, fn, name):
    for b, i, st in fn.stmts():
        for o in _ops(st["rv"]):
            if "c" in o and o["c"].endswith("::" + name) and "v" in o:
                return int(o["v"])
    for b, t in fn.calls():
        for o in t["args"]:
            if "c" in o and o["c"].endswith("::" + name) and "v" in o:
                return int(o["v"])
    return None


def _ops(rv):
    k = rv["k"]
    if k in ("use", "cast", "un", "repeat"):
        return [rv["a"]]
    if k == "bin":
        return [rv["a"], rv["b"]]
    if k == "agg":
        return rv["ops"]
    return []


def _layouts(ck, prog, cfg):
    n = 0
    for struct, wname, rname, cname in CODECS:
        w = prog.one(wname)
        r = prog.one(rname)
        _index_field_types(w)
        wl = _writer_layout(prog, w)
        rl = _reader_layout(prog, r, struct)
        # offsets from the writer
        off = 0
        wmap = {}
        total = 0
        unknown = False
        for (f, width, enc, ln) in wl:
            if enc == "pad" and f == "<pad-to>":
                total = max(off, width or 0)
                continue
            if width is None:
                unknown = True
                break
            for i, part in enumerate(f.split("+")):
                wmap[part] = (off + i, 1 if "+" in f else width, enc, ln)
            off += width
        total = max(total, off)
        ck.check(not unknown and bool(wmap), "R14.1", "%s:writer-layout-derived%s" % (struct, _tag(cfg)),
                 "cannot derive the written layout of %s (unrecognised write: %s)" % (struct, [x for x in wl if x[1] is None][:2]), w.where())
        for fld, (roff, rwid, renc, rln) in sorted(rl.items()):
            n += 1
            if fld not in wmap:
                ck.bad("R14.1", "%s.%s:not-written%s" % (struct, fld, _tag(cfg)), "the reader decodes `%s` but the writer never writes it" % fld, r.where(rln))
                continue
            woff, wwid, wenc, wln = wmap[fld]
            ok = (roff, rwid) == (woff, wwid) and (renc == wenc or {renc, wenc} <= {"raw"})
            ck.check(ok, "R14.1", "%s.%s%s" % (struct, fld, _tag(cfg)),
                     "%s.%s is written at offset %s width %s (%s) but read at offset %s width %s (%s): every record is decoded into different "
                     "data than was encoded" % (struct, fld, woff, wwid, wenc, roff, rwid, renc), r.where(rln),
                     detail="@%s +%s %s" % (woff, wwid, wenc))
        for fld in wmap:
            if not fld.startswith("<") and fld not in rl:
                ck.bad("R14.1", "%s.%s:not-read%s" % (struct, fld, _tag(cfg)), "the writer writes `%s` but the reader never decodes it" % fld, w.where(wmap[fld][3]))
        # R14.2
        cval = _const_value(prog, w, cname) or _const_value(prog, r, cname)
        ck.check(cval is not None and cval >= total and total > 0, "R14.2", "%s:size-constant%s" % (struct, _tag(cfg)),
                 "%s = %s does not cover the %s bytes the writer emits" % (cname, cval, total), w.where(), detail="%s=%s >= %s" % (cname, cval, total))
        maxread = max([(o or 0) + (wd or 0) for (o, wd, e, l) in rl.values()] or [0])
        ck.check(cval is not None and maxread <= cval, "R14.2", "%s:reads-within-size%s" % (struct, _tag(cfg)),
                 "the reader touches byte %s beyond %s=%s" % (maxread, cname, cval), r.where(), detail="max read offset %s" % maxread)
        # R14.3 coverage
        cc = prog.find(wname.rsplit("::", 1)[0] + "::compute_checksum")
        if cc:
            cf = cc[0]
            covered = set()
            for b, t in cf.calls():
                if is_callee(t, r"crc32fast::Hasher::update$"):
                    x = src_of_operand(cf, t["args"][1], through_calls=THR)
                    item = _chunk(cf, x)
                    for part in item[0].split("+"):
                        covered.add(part)
            decoded = {f for f in rl if "checksum" not in f}
            missing = sorted(decoded - covered)
            ck.check(not missing, "R14.3", "%s:checksum-coverage%s" % (struct, _tag(cfg)),
                     "%s decodes %s but its checksum does not cover them: damage there is decoded as different data" % (struct, missing), cf.where(),
                     detail="covered: %s" % sorted(covered))
    ck.floor("R14.1" + _tag(cfg), n, 15)
    # CheckpointFooter: sequential style - widths in order
    fw = prog.one("streaming::checkpoint::CheckpointFooter::write_to")
    fr = prog.one("streaming::checkpoint::CheckpointFooter::read_from")
    ws = [(f, wd, enc) for (f, wd, enc, ln) in _writer_layout(prog, fw)]
    rs = []
    for b in fr.rpo():
        t = fr.term(b)
        if t["k"] == "call" and is_callee(t, r"<impl (u32|u64)>::from_(le|be)_bytes$"):
            m = re.search(r"<impl (\w+)>::from_(le|be)_bytes$", callee(t))
            rs.append((WIDTH[m.group(1)], m.group(2)))
    ck.check([(wd, e) for _, wd, e in ws] == rs, "R14.1", "CheckpointFooter:sequence" + _tag(cfg),
             "CheckpointFooter is written as %s but read as %s" % (ws, rs), fr.where(), detail=str(rs))
    # magic/version compared on read (validate)
    for struct, vname in (("SegmentHeader", "streaming::segment::SegmentHeader::validate"), ("CheckpointHeader", "streaming::checkpoint::CheckpointHeader::validate")):
        v = prog.one(vname)
        cmp_fields = set()
        for b, i, st in v.stmts():
            rv = st["rv"]
            if rv["k"] == "bin" and rv["op"] in ("Ne", "Eq"):
                for o in (rv["a"], rv["b"]):
                    s = src_of_operand(v, o, through_calls=THR)
                    if _field_of(v, s):
                        cmp_fields.add(_field_of(v, s))
        for b, t in v.calls():
            if is_callee(t, r"PartialEq.*>::(ne|eq)$"):
                for a in t["args"]:
                    s = src_of_operand(v, a, through_calls=THR)
                    if _field_of(v, s):
                        cmp_fields.add(_field_of(v, s))
        ck.check({"magic", "version", "header_checksum"} <= cmp_fields, "R14.2", "%s:validate-compares%s" % (struct, _tag(cfg)),
                 "%s::validate compares only %s (magic, version and checksum are all required)" % (struct, sorted(cmp_fields)), v.where(),
                 detail="compares %s" % sorted(cmp_fields))


def _wal_layout(ck, prog, cfg):
    enc = prog.one("streaming::wal::WalEntry::encode")
    dec = prog.one("streaming::wal::WalEntry::decode")
    _index_field_types(enc)
    wl = _writer_layout(prog, enc)
    seq = [(f, wd, e) for (f, wd, e, ln) in wl]
    rl = _reader_layout(prog, dec, "WalEntry")
    # expected: data_len u32 le @0, timestamp u64 le @4, checksum u32 le @12, data
    off = 0
    pos = {}
    for f, wd, e in seq:
        pos[f] = (off, wd, e)
        if wd is None:
            break
        off += wd
    ck.check("timestamp" in pos and "checksum" in pos, "R14.1", "WalEntry:writer-layout" + _tag(cfg), "cannot derive WalEntry::encode layout: %s" % seq, enc.where())
    for fld in ("timestamp", "checksum"):
        if fld in pos and fld in rl:
            roff, rwid, renc, rln = rl[fld]
            woff, wwid, wenc = pos[fld]
            ck.check((roff, rwid, renc) == (woff, wwid, wenc), "R14.1", "WalEntry.%s%s" % (fld, _tag(cfg)),
                     "WalEntry.%s is written at %s+%s (%s) but read at %s+%s (%s)" % (fld, woff, wwid, wenc, roff, rwid, renc), dec.where(rln),
                     detail="@%s +%s %s" % (woff, wwid, wenc))
    # the length prefix: first written chunk is a u32 le of data.len(); the reader's data_len comes from bytes 0..4 le
    first = seq[0] if seq else None
    ck.check(first is not None and first[1] == 4 and first[2] == "le", "R14.1", "WalEntry:length-prefix-written" + _tag(cfg),
             "the first chunk of an encoded entry is not a 4-byte little-endian length (%s)" % (first,), enc.where(), detail=str(first))
    lens = []
    for b, t in dec.calls():
        if is_callee(t, r"<impl u32>::from_(le|be)_bytes$"):
            s = _decode_src(dec, {"cp": t["dest"]}) if False else None
            a = src_of_operand(dec, t["args"][0])
            if a.kind == "agg" and a.rv["ak"] == "array":
                idx = [_const_index(dec, e) for e in a.rv["ops"]]
                lens.append((idx, re.search(r"from_(le|be)_bytes$", callee(t)).group(1)))
    ck.check(([0, 1, 2, 3], "le") in lens, "R14.1", "WalEntry:length-prefix-read" + _tag(cfg),
             "the decoder does not read the length from bytes 0..4 little-endian (%s)" % lens, dec.where(), detail="bytes 0..4 le")
    # overhead constant = 16
    ov = _const_value(prog, dec, "WAL_ENTRY_OVERHEAD") or _const_value(prog, enc, "WAL_ENTRY_OVERHEAD")
    fixed = sum(wd for f, wd, e in seq if wd is not None)
    ck.check(ov == fixed, "R14.2", "WalEntry:overhead-constant" + _tag(cfg), "WAL_ENTRY_OVERHEAD = %s but the fixed part written is %s bytes" % (ov, fixed), enc.where(),
             detail="overhead %s" % ov)


def _r144(ck, prog, cfg):
    n = 0
    for f in prog.fns.values():
        if f.file.endswith("_dst.rs") or "/tests" in f.file or f.crate != "lib" and not f.crate.startswith("bin:"):
            continue
        for b, t in f.calls():
            if is_callee(t, r"streaming::segment::SegmentReader::(<.*>::)?deltas$", r"streaming::checkpoint::CheckpointReader::(<.*>::)?load$"):
                if f.id.startswith("streaming::segment::SegmentReader") or f.id.startswith("streaming::checkpoint::CheckpointReader"):
                    continue
                n += 1
                vals = [(vb, vt) for vb, vt in f.calls() if is_callee(vt, r"(SegmentReader|CheckpointReader)::(<.*>::)?validate$")]
                ok = any(lib2.dominated_by_ok(f, vb, b, awaited=False) for vb, _ in vals)
                fid = re.sub(r"\{closure#\d+\}", "{closure}", f.id)
                ck.check(ok, "R14.4", "%s:%s%s" % (fid, callee(t).rsplit("::", 1)[-1], _tag(cfg)),
                         "stored data is decoded without a successful validate() first: a truncated or bit-flipped object is decoded into "
                         "different data instead of being reported", f.where(t["ln"]), detail="validate()? dominates decode")
    ck.floor("R14.4" + _tag(cfg), n, 3)


def _r145(ck, prog, cfg):
    # gossip
    ser = prog.one("replication::gossip::GossipMessage::serialize")
    de = prog.one("replication::gossip::GossipMessage::deserialize")
    s_call = [t.get("fnargs") for b, t in ser.calls()]
    d_call = [t.get("fnargs") for b, t in de.calls()]
    ok = any(re.match(r"^serde_json::to_vec::<replication::gossip::GossipMessage>$", c or "") for c in s_call) and \
        any(re.match(r"^serde_json::from_slice::<'?_?,? ?replication::gossip::GossipMessage>$", c or "") or
            re.match(r"^serde_json::from_slice::<.*GossipMessage>$", c or "") for c in d_call)
    ck.check(ok, "R14.5", "gossip:json-both-ways" + _tag(cfg), "GossipMessage::serialize/deserialize are not serde_json on GossipMessage both ways (%s / %s)" % (s_call, d_call),
             ser.where(), detail="serde_json::to_vec / from_slice on GossipMessage")
    # WAL
    fd = prog.one("streaming::wal::WalEntry::from_delta")
    td = prog.one("streaming::wal::WalEntry::to_delta")
    s_call = [t.get("fnargs") or "" for b, t in fd.calls()]
    d_call = [t.get("fnargs") or "" for b, t in td.calls()]
    ok = any(re.match(r"^bincode::serialize::<.*ReplicationDelta>$", c) for c in s_call) and any(re.match(r"^bincode::deserialize::<.*ReplicationDelta>$", c) for c in d_call)
    ck.check(ok, "R14.5", "wal:bincode-both-ways" + _tag(cfg), "WalEntry::from_delta/to_delta are not bincode on ReplicationDelta both ways", fd.where(),
             detail="bincode::serialize / deserialize on ReplicationDelta")
    # SDS manual serde
    sers = [f for f in prog.lib_fns() if f.d.get("impl_self") == "redis::data::sds::SDS" and (f.d.get("implements") or "").endswith("Serialize::serialize")]
    des = [f for f in prog.lib_fns() if f.d.get("impl_self") == "redis::data::sds::SDS" and (f.d.get("implements") or "").endswith("Deserialize::deserialize")]
    ck.check(len(sers) == 1 and len(des) == 1, "R14.5", "sds:manual-impls-found" + _tag(cfg), "SDS Serialize/Deserialize impls not found (%d/%d)" % (len(sers), len(des)), None)
    for f in sers:
        names = [callee(t).rsplit("::", 1)[-1] for b, t in f.calls()]
        full = [t.get("fnargs") or callee(t) for b, t in f.calls()]
        bad = [x for x in names if x in ("is_human_readable", "to_string", "from_utf8_lossy", "serialize_str", "collect_str", "from_utf8")]
        ck.check("serialize_bytes" in names and not bad, "R14.5", "sds:serialize-raw-bytes" + _tag(cfg),
                 "SDS::serialize does not write the raw bytes in every serializer (calls %s): non-UTF-8 values are altered in some encoding" % names, f.where(),
                 detail="serialize_bytes(as_bytes())")
    for f in des:
        bodies = prog.with_children(f)
        names = [callee(t).rsplit("::", 1)[-1] for g in bodies for b, t in g.calls()]
        full = " ".join((t.get("fnargs") or "") for g in bodies for b, t in g.calls())
        bad = [x for x in names if x in ("is_human_readable", "from_utf8_lossy", "into_bytes", "deserialize_str", "deserialize_string")]
        ck.check(("Vec<u8>" in full or "deserialize_bytes" in names or "deserialize_byte_buf" in names) and not bad and "std::string::String as serde" not in full,
                 "R14.5", "sds:deserialize-raw-bytes" + _tag(cfg),
                 "SDS::deserialize does not read raw bytes in every deserializer (calls %s)" % names, f.where(), detail="Vec<u8>::deserialize")


MODEL_FILES = ("src/replication/lattice.rs", "src/replication/state/", "src/streaming/manifest.rs", "src/streaming/checkpoint.rs",
               "src/streaming/segment.rs", "src/streaming/wal.rs", "src/replication/gossip.rs", "src/replication/anti_entropy.rs", "src/redis/data/sds.rs")


def _r148(ck, prog, cfg):
    n = 0
    for f in prog.fns.values():
        if f.crate != "lib" or not f.file.startswith(MODEL_FILES):
            continue
        m = re.search(r"<impl .*_serde::Serialize for ([\w:]+)(<.*>)?>::serialize$", f.id)
        if m:
            adt = prog.adts.get(m.group(1))
            if not adt or adt.get("kind") != "struct":
                continue
            fields = adt["variants"][0]["fields"]
            calls = [callee(t) for _, t in f.calls()]
            wrote = sum(1 for c in calls if re.search(r"Serialize(Struct|TupleStruct)::serialize_field$", c))
            if any(re.search(r"Serializer::serialize_newtype_struct$", c) for c in calls):
                wrote = 1
            if any(re.search(r"Serializer::serialize_unit_struct$", c) for c in calls):
                wrote = 0
            # ... and writes each of them on every path: `#[serde(skip_serializing_if = ..)]` turns a field write into a branch
            # (serialize_field / skip_field); a positional format (bincode: WAL, segments, checkpoints) still reads the field back
            fw = [b for b, t in f.calls() if re.search(r"Serialize(Struct|TupleStruct)::serialize_field$", callee(t))]
            ends = [b for b, t in f.calls() if re.search(r"Serialize(Struct|TupleStruct)::end$", callee(t))]
            skips = [t["ln"] for _, t in f.calls() if re.search(r"Serialize(Struct|TupleStruct)::skip_field$", callee(t))]
            cond = [b for b in fw if ends and not all(f.dominates(b, e) for e in ends)]
            if skips or cond:
                n += 1
                ck.bad("R14.8", "%s:serialize-unconditional%s" % (m.group(1).rsplit("::", 1)[-1], _tag(cfg)),
                       "the derived Serialize of %s writes a field only under a condition (skip_serializing_if): the self-describing gossip format "
                       "copes, but the positional encodings (bincode: WAL entries, segments, checkpoints) decode the remaining bytes one field off - "
                       "the record validates and then fails to decode, or decodes to another value" % m.group(1).rsplit("::", 1)[-1], f.where())
            n += 1
            short = m.group(1).rsplit("::", 1)[-1]
            ck.check(wrote == len(fields), "R14.8", "%s:serialize-covers-all-fields%s" % (short, _tag(cfg)),
                     "the derived Serialize of %s writes %d of its %d fields (%s): a field is excluded from every encoding, so a decoded value "
                     "is not the value that was encoded" % (short, wrote, len(fields), [x["n"] for x in fields]), f.where(),
                     detail="%d/%d fields" % (wrote, len(fields)))
            continue
        m = re.search(r"<impl .*_serde::Deserialize<'de> for ([\w:]+)(<.*>)?>::deserialize::__Visitor(<.*>)? as .*Visitor<'de>>::visit_seq$", f.id)
        if m:
            adt = prog.adts.get(m.group(1))
            if not adt or adt.get("kind") != "struct":
                continue
            fields = adt["variants"][0]["fields"]
            read = sum(1 for _, t in f.calls() if re.search(r"SeqAccess::next_element(::<.*>)?$", t.get("fn") or callee(t)))
            n += 1
            short = m.group(1).rsplit("::", 1)[-1]
            ck.check(read == len(fields), "R14.8", "%s:deserialize-reads-all-fields%s" % (short, _tag(cfg)),
                     "the derived Deserialize of %s reads %d of its %d fields from a sequence encoding (bincode): a field is filled with a "
                     "default instead of the encoded value" % (short, read, len(fields)), f.where(), detail="%d/%d fields" % (read, len(fields)))
    ck.floor("R14.8" + _tag(cfg), n, 20)


def _r149(ck, prog, cfg):
    n = 0
    for f in prog.lib_fns():
        if f.file != "src/streaming/checkpoint.rs" or "{closure" in f.id and f.kind != "coroutine":
            continue
        params = [i for i in range(1, 1 + f.d["argc"]) if isinstance(f.locals[i], str) and
                  re.match(r"std::collections::HashMap<std::string::String, replication::state::replicated_value::ReplicatedValue", f.locals[i])]
        upvar_state = f.kind == "coroutine" and any(nm["n"] == "state" for nm in f.names)
        if not params and not upvar_state:
            continue
        n += 1
        short = re.sub(r"::\{closure#\d+\}", "", f.id).replace("streaming::checkpoint::", "")
        narrow = []
        for g in prog.with_children(f):
            for b, t in g.calls():
                if is_callee(t, r"HashMap::<std::string::String, .*ReplicatedValue.*>::(retain|remove|drain|clear|extract_if)(::<.*>)?$",
                             r"Iterator>?::(filter|filter_map|take|skip|take_while|skip_while)(::<.*>)?$"):
                    narrow.append((g, t))
        ck.check(not narrow, "R14.9", "%s:state-passed-whole%s" % (short, _tag(cfg)),
                 "%s narrows the state it was asked to encode (%s): keys are silently left out of the checkpoint, which validates and decodes "
                 "fine - the round trip through the checkpoint encoding loses them" % (short, callee(narrow[0][1]).rsplit("::", 1)[-1] if narrow else ""),
                 (narrow[0][0] if narrow else f).where(narrow[0][1]["ln"] if narrow else None), detail="no retain/filter/remove on the state map")
    ck.floor("R14.9" + _tag(cfg), n, 2)


def _r1411(ck, prog, cfg):
    BUF = re.compile(r"deserialize_any|deserialize_ignored_any|::de::content::|::ser::content::|TaggedContentVisitor|ContentDeserializer|ContentRefDeserializer|"
                     r"FlatMapDeserializer|FlatMapSerializer|TaggedSerializer|serialize_tagged_newtype|InternallyTaggedUnitVisitor|UntaggedUnitVisitor")
    n = hits = 0
    for f in prog.fns.values():
        if f.crate != "lib" or not re.search(r"Deserialize<'de> for|Serialize for|Visitor<'de> for", f.id):
            continue
        if not (f.file.startswith("src/replication/") or f.file.startswith("src/streaming/") or f.file == "src/redis/data/sds.rs"):
            continue
        n += 1
        for b, t in f.calls():
            cn = t.get("fnargs") or callee(t)
            m = BUF.search(cn)
            if not m:
                continue
            hits += 1
            ty = re.search(r" for ([\w:]+)", f.id)
            ck.bad("R14.11", "%s:%s%s" % ((ty.group(1) if ty else f.id).replace("replication::", "").replace("streaming::", ""), m.group(0).strip(":"), _tag(cfg)),
                   "the serde impl of %s uses %s: the value is (de)serialized through serde's buffered/self-describing representation - "
                   "JSON gossip frames with integer-keyed maps (vector clocks, counters) are written but can no longer be read back, "
                   "and bincode cannot read such a form at all" % (ty.group(1) if ty else f.id, m.group(0).strip(":")), f.where(t["ln"]))
            break
    ck.floor("R14.11:impls-scanned" + _tag(cfg), n, 100)
    if hits == 0:
        ck.ok("R14.11", "serde-impls-plain" + _tag(cfg), "%d derived/manual serde impl functions scanned" % n)


# ------------------------------------------------------------------------------------------------
READER_TEXT = ("a decoder returns what it decoded: the functions that hand a decoded checkpoint to recovery (CheckpointReader::load, "
               "CheckpointManager::load_checkpoint) return the deserialised CheckpointData itself - nothing removes, filters or rewrites "
               "entries of the decoded state on the way out (a tombstone dropped here is a persisted delete that recovery never sees: an "
               "older update of the key in a later segment or the WAL resurrects it)")
NARROW = (r"HashMap::<std::string::String, .*ReplicatedValue.*>::(retain|remove|drain|clear|extract_if|insert|entry|get_mut|iter_mut|values_mut)(::<.*>)?$",
          r"Iterator>?::(filter|filter_map|take|skip|take_while|skip_while)(::<.*>)?$")


def reader_rule(ck, prog, cfg, rid):
    n = 0
    for f in prog.lib_fns():
        if f.file != "src/streaming/checkpoint.rs" or "::tests::" in f.id:
            continue
        ret = str(f.locals[0]) if f.locals else ""
        body = f
        if f.kind == "coroutine":
            ret = str(f.d.get("ret", "")) or ret
        if "Result<streaming::checkpoint::CheckpointData" not in ret and not (f.kind == "coroutine" and re.search(r"::load_checkpoint::\{closure#0\}$", f.id)):
            continue
        n += 1
        short = re.sub(r"::\{closure#\d+\}", "", f.id).replace("streaming::checkpoint::", "")
        narrow = []
        for g in prog.with_children(body):
            for b, t in g.calls():
                if is_callee(t, *NARROW):
                    narrow.append((g, t))
        ck.check(not narrow, rid, "%s:decoded-state-returned-whole%s" % (short, _tag(cfg)),
                 "%s modifies the state it has just decoded (%s) before returning it: entries that were persisted in the checkpoint never reach "
                 "recovery" % (short, callee(narrow[0][1]).rsplit("::", 1)[-1] if narrow else ""),
                 (narrow[0][0] if narrow else f).where(narrow[0][1]["ln"] if narrow else None), detail="no retain/remove/filter on the decoded state")
    ck.floor(rid + _tag(cfg), n, 2)


def _r1415(ck, prog, cfg):
    derived = 0
    manual = []
    for f in prog.lib_fns():
        imp = f.d.get("implements") or ""
        if not (imp.endswith("Serialize::serialize") or imp.endswith("Deserialize::deserialize")) or "::tests::" in f.id:
            continue
        if re.search(r"::_::<impl ", f.id):
            derived += 1
        else:
            manual.append(f)
    for f in manual:
        m = re.match(r"<([\w:]+)(<.*?>)? as ", f.id)
        ty = m.group(1) if m else f.id
        ok = ty == "redis::data::sds::SDS"
        ck.check(ok, "R14.15", "manual-serde:%s:%s%s" % (ty.rsplit("::", 1)[-1], "ser" if "Serialize" in (f.d.get("implements") or "") else "de", _tag(cfg)),
                 "%s has a hand-written serde impl: its field coverage is not the derive's, so the encoding may omit or rebuild fields" % ty, f.where(),
                 detail="frozen: SDS writes/reads its raw bytes (R14.5)")
    ck.floor("R14.15" + _tag(cfg), derived, 40)


# ------------------------------------------------------------------------------------------------
RECORD_LIMIT_TEXT = ("what the segment writer can write the reader can read back: the record iterator decodes each record with the same unbounded "
                     "bincode configuration the writer encodes with - no `with_limit`, no comparison of a record's length with a constant - and "
                     "rejects a record only because it is truncated or does not decode (a read-side cap turns a successfully flushed large value "
                     "into `recovery failed` for the whole store)")


def record_limit_rule(ck, prog, cfg, rid):
    from . import bounds as _b
    from .facts import callee_names
    n = 0
    for f in prog.lib_fns():
        if f.file != "src/streaming/segment.rs" or "::tests::" in f.id:
            continue
        if not any(o in (f.d.get("impl_self") or "") or o in f.id for o in ("DeltaIterator", "SegmentReader")):
            continue
        n += 1
        bad = []
        for g in prog.with_children(f):
            for b, t in g.calls():
                nm = " ".join(callee_names(t))
                if re.search(r"Options>?::with_limit|config::.*::limit\b|::with_limit(::<.*>)?$", nm):
                    bad.append(("with_limit", t["ln"]))
            for b, i, st in g.stmts():
                rv = st["rv"]
                if rv["k"] == "bin" and rv["op"] in ("Gt", "Ge", "Lt", "Le"):
                    ca, cb = _b.const_val(g, rv["a"]), _b.const_val(g, rv["b"])
                    big = [c for c in (ca, cb) if c is not None and c >= 4096]
                    if big:
                        bad.append(("length compared with the constant %d" % big[0], st["ln"]))
        short = re.sub(r"::\{closure#\d+\}", "", f.id).replace("streaming::segment::", "")
        ck.check(not bad, rid, "%s:no-read-side-limit%s" % (short, _tag(cfg)),
                 "%s puts a size limit on what it will decode (%s) that the segment writer does not enforce: a record the writer accepted, checksummed "
                 "and the flush confirmed cannot be read back" % (short, bad[:2]), f.where(bad[0][1]) if bad else f.where(),
                 detail="plain bincode::deserialize, rejects only truncated/undecodable records")
    ck.floor(rid + _tag(cfg), n, 4)
