"""C02 — linearizable per-key history on one node: ownership, single-consumer, reply-pairing preconditions."""
import re
from .facts import callee, op_place, op_local
from .lib import src_of_operand, src_of_place, is_callee, TRANSPARENT, switch_info
from . import lib2, effects

SA = "production::sharded_actor::"
EXECUTOR_TY = "redis::executor::CommandExecutor"
# owning wrappers only: `RefCell<&mut CommandExecutor>` (Lua scope) is a scoped exclusive borrow inside one handler, not shared ownership
SHARING = re.compile(r"(std::sync::Arc|std::rc::Rc|std::sync::Mutex|std::sync::RwLock|parking_lot::\w*Mutex|parking_lot::\w*RwLock|std::cell::RefCell|tokio::sync::(Mutex|RwLock))<(?:[A-Za-z_:]+<)*redis::executor::CommandExecutor")


def _tag(cfg):
    return "" if cfg == "default" else "@" + cfg


def run(ck, ctx):
    ck.rule("R02.1", "exclusive ownership: on the production path a CommandExecutor is never placed behind Arc/Rc/Mutex/RwLock/RefCell; "
                     "the executor field of ShardActor/ReplicatedShardActor is projected only inside that actor's own impl; every "
                     "constructed actor is moved into exactly one tokio::spawn(actor.run())")
    ck.rule("R02.2", "one mailbox, one consumer: ShardActor::run awaits nothing but rx.recv() (a handler that awaited anything else "
                     "could interleave two commands of one shard); rx is touched only by run")
    ck.rule("R02.3", "single home for a key: shared with C03 R03.1/R03.2 (routing functions agree; every shard index derives from the key)")
    ck.rule("R02.4", "reply pairing for pooled slots: ResponsePool::release(slot) in a request path is dominated by the completion of "
                     "response_future(slot).await or by the failed-send edge; no handle whose Drop releases the slot still owns it across "
                     "that await (cancellation must not return a slot the actor may still write)")
    ck.rule("R02.5", "scatter-gather keeps positions: results that are zipped positionally with their per-shard batches are gathered in "
                     "submission order (join_all / sequential awaits), never in completion order (FuturesUnordered, buffer_unordered, select_all)")
    ck.rule("R02.6", "one command, one message: in ShardedActorState::execute an arm for a command that is neither multi-key nor "
                     "keyspace-wide sends at most one message to a shard on any path (a read-modify-write split into a GET message and a "
                     "SET message lets another client's command run in between: the command no longer takes effect at one instant)")
    ck.rule("R02.7", "batched pipelines pair every reply with its own request: each key of the batch is pushed into its shard's bucket on "
                     "every path of the bucketing loop, and the positional result vector is only written from shard responses - never read "
                     "back to fill another slot")
    ck.rule("R02.8", "slot hand-off protocol (no lost wake-up, no stale reply): ResponseSlot::send stores the value before it wakes the "
                     "waiter and does both under one lock acquisition; ResponseFuture::poll checks for the value and parks its waker "
                     "inside one critical section (a value stored between an unlocked check and the parking would never wake the "
                     "requester) and returns Ready only with the value taken out of the slot; ResponseSlot::reset empties the value; "
                     "a slot is pushed into the pool only fresh or after reset")
    ck.rule("R02.11", "connections share nothing through the buffer pool: a BytesMut that goes back into a buffer pool is fresh or cleared (or every pop "
                      "clears it) - bytes a previous connection left in a recycled read buffer are executed as if the next client had sent them, "
                      "and its own first command is swallowed: replies no client's history explains (shared with C04 R04.9)")
    ck.rule("R02.9", "a submitted command is awaited to its reply: in the request path (sharded_actor, replicated_shard_actor, response_pool, "
                     "replicated_state) a reply future is polled directly, never through a combinator that can complete without it (timeout, "
                     "select, abortable, now_or_never): the message stays in the shard's FIFO mailbox, so a caller that gives up is answered "
                     "`failed` for a command that still takes effect later, outside its invocation/response window")
    ck.rule("R02.10", "a shard's whole state is the executor it owns: code under src/redis/executor, src/redis/data and the command table reads "
                      "or writes no thread-local and no run-time-mutable static (a Lua interpreter, cache or counter kept there is shared by every "
                      "shard and client on the worker thread: replies would depend on what another key's command left behind, which no single "
                      "order over the keyspace explains)")
    ck.nd("the linearizability verdict over interleavings (tokio scheduler and mpsc FIFO order are trusted)")
    ck.nd("Lua script atomicity beyond 'runs inside one handler'")
    for cfg in ctx.configs:
        prog = ctx.prog(cfg)
        ck.configs.append(cfg)
        ck.fn_count += len(prog.fns)
        _r021(ck, prog, cfg)
        _r022(ck, prog, cfg)
        _r023(ck, prog, cfg)
        _r024(ck, prog, cfg)
        _r025(ck, prog, cfg)
        _r026(ck, prog, cfg)
        _r027(ck, prog, cfg)
        _r028(ck, prog, cfg)
        _r029(ck, prog, cfg)
        from . import c04 as _c04
        from .core import Alias as _Alias4
        _c04._r049(_Alias4(ck, "R04.9", "R02.11"), prog, cfg)
        _r0210(ck, prog, cfg)


PROD_PREFIXES = ("src/production/", "src/bin/", "src/redis/executor/", "src/streaming/", "src/replication/")


def _r021(ck, prog, cfg):
    n = 0
    # type scan: struct fields
    for k, a in prog.adts.items():
        for v in a["variants"]:
            for fl in v["fields"]:
                if EXECUTOR_TY in fl["t"]:
                    n += 1
                    ck.check(not SHARING.search(fl["t"]), "R02.1", "field:%s.%s%s" % (k, fl["n"], _tag(cfg)),
                             "a CommandExecutor is stored behind shared ownership / a lock (%s): more than one task can reach the keyspace, "
                             "so single-key commands are no longer serialised by the shard's mailbox" % fl["t"], None, detail=fl["t"])
    # type scan: locals in production code
    for f in prog.fns.values():
        if not f.file.startswith(PROD_PREFIXES):
            continue
        for ty in f.locals:
            if SHARING.search(ty):
                n += 1
                ck.bad("R02.1", "local:%s%s" % (re.sub(r"\{closure#\d+\}", "{closure}", f.id), _tag(cfg)),
                       "production code shares a CommandExecutor (%s)" % ty[:120], f.where())
                break
    # who may project the executor field
    for owner, impl_prefix in ((SA + "ShardActor", SA + "ShardActor::"),
                               ("production::replicated_shard_actor::ReplicatedShardActor", "production::replicated_shard_actor::ReplicatedShardActor::")):
        users = set()
        for f in prog.fns.values():
            hit = False
            for b, i, st in f.stmts():
                for pl in _places(st):
                    for e in pl.get("p", []):
                        if isinstance(e, dict) and e.get("f") == "executor" and e.get("o") == owner:
                            hit = True
            for b, t in f.calls():
                pass
            if hit:
                users.add(f.id)
        n += 1
        outside = sorted(u for u in users if not u.startswith(impl_prefix))
        ck.check(bool(users) and not outside, "R02.1", "executor-field-users:%s%s" % (owner.rsplit("::", 1)[-1], _tag(cfg)),
                 "the actor's executor field is accessed outside the actor's impl: %s" % outside, None, detail="%d user functions, all inside the impl" % len(users))
    # every actor construction flows into tokio::spawn(run)
    ctor = [f for f in prog.lib_fns() if f.file == "src/production/sharded_actor.rs"]
    spawned = 0
    built = 0
    for f in ctor:
        for b, t in f.calls():
            if is_callee(t, r"sharded_actor::ShardActor::(new|new_with_shared_scripts)$"):
                built += 1
                # result -> ShardActor::run(actor) -> tokio::spawn
                vals, refs = lib2.value_aliases(f, t["dest"]["l"]) if "p" not in t["dest"] else (set(), set())
                ok = False
                for b2, t2 in f.calls():
                    if is_callee(t2, r"sharded_actor::ShardActor::run$") and op_place(t2["args"][0]) is not None and op_place(t2["args"][0])["l"] in vals:
                        v2, _ = lib2.value_aliases(f, t2["dest"]["l"])
                        for b3, t3 in f.calls():
                            if is_callee(t3, r"tokio::spawn::", r"tokio::task::spawn::") and op_place(t3["args"][0]) is not None and op_place(t3["args"][0])["l"] in v2:
                                ok = True
                if ok:
                    spawned += 1
                ck.check(ok, "R02.1", "%s:actor-spawned#%d%s" % (re.sub(r"\{closure#\d+\}", "{closure}", f.id.replace(SA, "")), built, _tag(cfg)),
                         "a ShardActor is constructed but not moved into tokio::spawn(actor.run())", f.where(t["ln"]), detail="new -> run -> spawn")
    ck.floor("R02.1-actors" + _tag(cfg), built, 2)
    ck.floor("R02.1" + _tag(cfg), n, 4)


def _places(st):
    out = [st["lhs"]]
    rv = st["rv"]
    for k in ("a", "b"):
        if k in rv and isinstance(rv[k], dict):
            p = op_place(rv[k])
            if p is not None:
                out.append(p)
    if "pl" in rv:
        out.append(rv["pl"])
    for o in rv.get("ops", []):
        p = op_place(o)
        if p is not None:
            out.append(p)
    return out


def _r022(ck, prog, cfg):
    for name, owner in ((SA + "ShardActor::run::{closure#0}", "ShardActor"),
                        ("production::replicated_shard_actor::ReplicatedShardActor::run::{closure#0}", "ReplicatedShardActor")):
        f = prog.one(name)
        polls = [(b, t) for b, t in f.calls() if is_callee(t, r"Future>::poll$")]
        awaited = []
        for b, t in f.calls():
            if "p" in t["dest"]:
                continue
            aw = lib2.await_result(f, b)
            if aw is not None:
                awaited.append(callee(t))
        awaited = [a for a in awaited if not re.search(r"into_future$", a or "")]
        ck.check(len(polls) == 1 and len(awaited) == 1 and re.search(r"UnboundedReceiver::<.*>::recv$|UnboundedReceiver<T>::recv$", awaited[0] or ""),
                 "R02.2", "%s:only-awaits-recv%s" % (owner, _tag(cfg)),
                 "%s::run awaits %s: while a handler is suspended the actor task is not reading its mailbox, and a handler that awaits I/O "
                 "lets another command's effects interleave with a half-executed one" % (owner, awaited), f.where(),
                 detail="single await point: rx.recv()")
    # rx touched only by run
    users = set()
    for f in prog.fns.values():
        for b, i, st in f.stmts():
            for pl in _places(st):
                for e in pl.get("p", []):
                    if isinstance(e, dict) and e.get("f") == "rx" and e.get("o") == SA + "ShardActor":
                        users.add(f.id)
    bad = sorted(u for u in users if not re.search(r"ShardActor::(run|new|new_with_shared_scripts)", u))
    ck.check(bool(users) and not bad, "R02.2", "mailbox-single-consumer" + _tag(cfg), "the shard mailbox receiver is used by %s" % bad, None,
             detail="rx used by %s" % sorted(users))


def _r023(ck, prog, cfg):
    # delegate: run the C03 routing rules here as well (same instances)
    from . import c03
    c03._r031(ck, prog, cfg)
    # rename the rule ids? they are reported under R03.1 text; declare it
    ck.rule("R03.1", "routing functions agree (shared with C03)")


def _root_type(f, s):
    """declared type of the named variable a path source is rooted in (upvars of a coroutine carry their type in the name table)"""
    for n in f.names:
        if n["n"] != s.root:
            continue
        pl = n["pl"]
        if pl.get("p"):
            t = pl["p"][-1].get("t")
            if t:
                return t
        elif pl["l"] < len(f.locals):
            return f.locals[pl["l"]]
    if s.local is not None and s.local < len(f.locals):
        return f.locals[s.local]
    return None


def _r024(ck, prog, cfg):
    n = 0
    m0 = sum(1 for f in prog.lib_fns() if f.file.startswith("src/production/") for _, t in f.calls() if is_callee(t, r"ResponsePool::<.*>::release$"))
    for f in prog.lib_fns():
        if not f.file.startswith("src/production/"):
            continue
        rels = [(b, t) for b, t in f.calls() if is_callee(t, r"ResponsePool::<.*>::release$")]
        if not rels:
            continue
        fid = re.sub(r"\{closure#\d+\}", "{closure}", f.id.replace("production::", ""))
        if f.d.get("implements") == "std::ops::Drop::drop" or (f.parent and "Drop>::drop" in f.parent):
            # a Drop impl that releases: allowed only if no request path keeps the owner alive across the await (checked below)
            continue
        if f.kind != "coroutine":
            continue
        futs = [(b, t) for b, t in f.calls() if is_callee(t, r"response_pool::response_future::")]
        sends = [(b, t) for b, t in f.calls() if is_callee(t, r"UnboundedSender::<.*>::send$")]
        for k, (rb, rt) in enumerate(sorted(rels, key=lambda x: x[1]["ln"])):
            n += 1
            ok = False
            for fb, ft in futs:
                aw = lib2.await_result(f, fb)
                if aw is not None and f.dominates(aw[1], rb):
                    ok = True
            for sb, st_ in sends:
                for (swb, okt, errt) in lib2.ok_edges(f, st_["dest"]["l"]):
                    if f.pred(errt) == [swb] and f.dominates(errt, rb):
                        ok = True
            ck.check(ok, "R02.4", "%s:release#%d%s" % (fid, k, _tag(cfg)),
                     "a response slot is returned to the pool on a path where its reply has not been received (and the send did not "
                     "fail): the shard actor still holds the slot and will write an abandoned reply into it; the next requester that "
                     "reuses the slot reads someone else's reply", f.where(rt["ln"]), detail="release after await completion / failed send")
    ck.floor("R02.4" + _tag(cfg), n + m0, 1)
    # awaiting a response while a releasing-on-Drop owner still holds the slot
    dropper_types = set()
    for f in prog.lib_fns():
        if f.d.get("implements") == "std::ops::Drop::drop":
            if any(is_callee(t, r"ResponsePool::<.*>::release$") for g in prog.with_children(f) for _, t in g.calls()):
                dropper_types.add(f.d.get("impl_self", "").split("<")[0])
    ck.extra["release_on_drop_types"] = sorted(dropper_types)
    m = 0
    for f in prog.lib_fns():
        if not f.file.startswith("src/production/") or f.kind != "coroutine":
            continue
        for b, t in f.calls():
            if not is_callee(t, r"response_pool::response_future::"):
                continue
            m += 1
            s = src_of_operand(f, t["args"][0], through_calls=(r"::clone$",))
            bad = False
            why = ""
            if s.kind == "call":
                c = prog.local_callee(f, s.term)
                if c is not None and c.d.get("impl_self", "").split("<")[0] in dropper_types and not is_callee(s.term, r"Option::<.*>::take$"):
                    bad = True
                    why = "the slot is borrowed from a `%s` (via %s) that keeps owning it while the reply is awaited" % (c.d.get("impl_self", "").split("<")[0].rsplit("::", 1)[-1], c.short)
            if s.kind == "path" and s.fields and not bad:
                # the slot is read out of a field of a value that stays alive (and releases on Drop) while the reply is awaited
                ty = _root_type(f, s)
                if ty and ty.replace("&mut ", "").lstrip("&").split("<")[0] in dropper_types:
                    bad = True
                    why = "the slot is a clone of field `%s` of a `%s` that keeps owning it while the reply is awaited" % (
                        ".".join(s.fields), ty.split("<")[0].rsplit("::", 1)[-1])
            fid = re.sub(r"\{closure#\d+\}", "{closure}", f.id.replace("production::", ""))
            ck.check(not bad, "R02.4", "%s:await-without-releasing-owner%s" % (fid, _tag(cfg)),
                     "%s: if the request future is dropped (timeout, cancelled connection) Drop returns the slot to the pool while the shard "
                     "actor can still write into it" % why, f.where(t["ln"]), detail="slot moved out of any release-on-Drop owner before the await")
    ck.floor("R02.4-awaits" + _tag(cfg), m, 1)


UNORDERED = (r"FuturesUnordered", r"buffer_unordered", r"select_all", r"FuturesOrdered::<.*>::push_front", r"JoinSet")


def _r025(ck, prog, cfg):
    ex = prog.one(SA + "ShardedActorState::<T>::execute::{closure#0}")
    bodies = prog.with_children(ex)
    sw, table = effects.dispatch_table(prog, ex)
    n = 0
    names = [v["n"] for v in prog.adts["redis::command::Command"]["variants"]]
    if sw is None:
        ck.anchor_lost("R02.5", "no dispatch switch in ShardedActorState::execute")
        return
    t = ex.term(sw)
    for v, tg in t["cases"]:
        if ex.pred(tg) != [sw]:
            continue
        arm = {x for x in ex.reachable_blocks() if ex.dominates(tg, x)}
        calls = [ex.term(x) for x in sorted(arm) if ex.term(x)["k"] == "call"]
        zips = [c for c in calls if is_callee(c, r"Iterator>::zip::")]
        joins = [c for c in calls if is_callee(c, r"futures::future::join_all", r"future::join_all::")]
        unord = [c for c in calls if any(re.search(p, " ".join([c.get("fnargs") or "", c.get("fn") or ""])) for p in UNORDERED)]
        if not zips and not unord:
            continue
        n += 1
        ck.check(not (zips and unord), "R02.5", "execute[%s]:ordered-gather%s" % (names[int(v)], _tag(cfg)),
                 "the %s arm gathers per-shard replies in completion order (%s) and then zips them positionally with the batches: when "
                 "shards answer out of submission order, values land under the wrong keys" % (names[int(v)], callee(unord[0]).rsplit("::", 2)[-2] if unord else ""),
                 ex.where(zips[0]["ln"]) if zips else ex.where(), detail="join_all + zip")
    ck.floor("R02.5" + _tag(cfg), n, 1)
    # the pipelines: results[i] = resp with indices carried along; gathered with join_all
    for name in ("fast_batch_get_pipeline::{closure#0}", "fast_batch_set_pipeline::{closure#0}"):
        f = prog.one(SA + "ShardedActorState::<T>::" + name)
        calls = [t for b, t in f.calls()]
        unord = [c for c in calls if any(re.search(p, " ".join([c.get("fnargs") or "", c.get("fn") or ""])) for p in UNORDERED)]
        carries_idx = any(is_callee(c, r"Iterator>::zip::") for c in calls)
        ck.check(not unord or carries_idx, "R02.5", "%s:gather%s" % (name.split("::")[0], _tag(cfg)),
                 "batch pipeline gathers in completion order without carrying original indices", f.where(), detail="indices travel with each shard's results")


MSG = (r"sharded_actor::ShardHandle::\w+$", r"ShardedActorState::<T>::(pooled_fast_\w+|fast_get|fast_set|fast_batch_\w+)$")


def _r026(ck, prog, cfg):
    from . import c03, effects
    ex = prog.one(c03.STATE + "execute::{closure#0}")
    sw, _ = effects.dispatch_table(prog, ex)
    if sw is None:
        ck.anchor_lost("R02.6", "ShardedActorState::execute has no dispatch over Command")
        return
    allowed = set(c03._multi_key_variants(prog)) | set(c03.KEYSPACE_WIDE)
    names = [v["n"] for v in prog.adts["redis::command::Command"]["variants"]]
    arms = {}
    for v, tg in ex.term(sw)["cases"]:
        arms.setdefault(tg, []).append(names[int(v)])
    sends_in = {}
    for c in prog.children(ex):
        if any(is_callee(t, *MSG) for g in prog.with_children(c) for _, t in g.calls()):
            sends_in[c.id] = c
    n = 0
    for tg, vs in sorted(arms.items()):
        if ex.pred(tg) != [sw]:
            continue
        n += 1
        arm = {x for x in ex.reachable_blocks() if ex.dominates(tg, x)}
        ms = [b for b in arm if ex.term(b)["k"] == "call" and is_callee(ex.term(b), *MSG)]
        for b, i, st in ex.stmts():
            if b in arm and st["rv"]["k"] == "agg" and st["rv"].get("n") in sends_in:
                ms.append(b)
        rep = [(m1, m2) for m1 in ms for m2 in ms if m2 in ex.reach([m1])]
        single = [v for v in vs if v not in allowed]
        key = "execute[%s]%s" % ("|".join(sorted(vs)), _tag(cfg))
        if single and rep:
            m1, m2 = rep[0]
            ck.bad("R02.6", key, "the arm of %s sends more than one message to a shard on one path (lines %s and %s): the command is carried out "
                   "in several steps between which other clients' commands on the same key can run, so it does not take effect atomically"
                   % (single, ex.term(m1)["ln"], ex.term(m2)["ln"]), ex.where(ex.term(m1)["ln"]))
        else:
            ck.ok("R02.6", key, "%d message site(s)%s" % (len(ms), "" if single else " (multi-key / keyspace-wide)"))
    # everything else goes through the default arm: exactly one ShardHandle::execute
    ck.floor("R02.6" + _tag(cfg), n, 8)


def _r027(ck, prog, cfg):
    from . import c03
    n = 0
    for nm in ("fast_batch_get_pipeline", "fast_batch_set_pipeline"):
        f = prog.one(c03.STATE + nm + "::{closure#0}")
        heads = lib2.loop_heads(f)
        pushes = [b for b, t in f.calls() if is_callee(t, r"Vec::<\(usize, .*\)>::push$")]
        ck.check(len(pushes) >= 1, "R02.7", "%s:bucket-push%s" % (nm, _tag(cfg)), "no push of (position, key) into a per-shard bucket found", f.where())
        for pb in pushes[:1]:
            mine = [h for h, (none_t, some_t, nb) in heads.items() if pb == some_t or pb in f.reach([some_t], avoid=[h])]
            if not mine:
                ck.bad("R02.7", "%s:every-key-sent%s" % (nm, _tag(cfg)), "the bucket push is not inside the loop over the batch", f.where())
                continue
            h = min(mine, key=lambda h: len(f.reach([heads[h][1]], avoid=[h])))
            n += 1
            skip = lib2.iteration_skips(f, h, set(pushes))
            ck.check(skip is None, "R02.7", "%s:every-key-sent%s" % (nm, _tag(cfg)),
                     "an iteration of the bucketing loop can end without queueing its key for a shard: that request is never sent, and whatever "
                     "fills its reply slot is not the answer to it", f.where(f.term(pb)["ln"]), detail="push on every path of the loop body")
            lib2.whole_batch(ck, f, h, "R02.7", "%s:whole-batch%s" % (nm, _tag(cfg)), "the batch of keys")
        # the result vector (what is returned) is write-only until it is returned
        ret = src_of_operand(f, {"cp": {"l": 0}}, through_calls=TRANSPARENT)
        res_locals = set()
        for nmv in f.names:
            if nmv["n"] == "results" and "p" not in nmv["pl"]:
                res_locals.add(nmv["pl"]["l"])
        reads = []
        for b, t in f.calls():
            if is_callee(t, r"Vec<redis::resp::RespValue> as std::ops::Index<.*>>::index$", r"Vec::<redis::resp::RespValue>::(get|first|last|iter)$",
                         r"<impl \[redis::resp::RespValue\]>::(get|first|last|iter)$"):
                a = src_of_operand(f, t["args"][0], through_calls=TRANSPARENT + (r"Deref>::deref$",))
                if a.local in res_locals or (a.kind == "path" and a.root == "results"):
                    reads.append(t)
        ck.check(bool(res_locals) and not reads, "R02.7", "%s:slots-filled-from-responses%s" % (nm, _tag(cfg)),
                 "the positional result vector is read back (line %s) before it is returned: a reply slot is filled from another slot instead of "
                 "from the response to its own request" % (reads[0]["ln"] if reads else "?"), f.where(reads[0]["ln"] if reads else None),
                 detail="results[i] = response only")
    ck.floor("R02.7" + _tag(cfg), n, 2)


# ---------------------------------------------------------------------------------------------
def _slot_state(prog):
    """(state struct path, name of the reply field, name of the waker field) - found through the types, not the names: the state is
    whatever ResponseSlot keeps inside its Mutex; the waker field is the one whose type mentions Waker, the reply field the other"""
    a = prog.adts.get("production::response_pool::ResponseSlot")
    if not a:
        return None
    for v in a["variants"]:
        for fl in v["fields"]:
            m = re.search(r"Mutex<.*?(production::response_pool::\w+)<", fl["t"])
            if m and m.group(1) in prog.adts:
                st = prog.adts[m.group(1)]
                fs = [x for vv in st["variants"] for x in vv["fields"]]
                wk = [x["n"] for x in fs if "Waker" in x["t"]]
                vl = [x["n"] for x in fs if "Waker" not in x["t"] and x["t"].startswith("std::option::Option<")]
                if len(wk) == 1 and len(vl) == 1:
                    return m.group(1), vl[0], wk[0]
    return None


def _field_store(f, field, owner):
    """(block, stmt) of every assignment whose left side ends in `.field` of the slot state"""
    out = []
    for b, i, st in f.stmts():
        p_ = st["lhs"].get("p") or []
        if p_ and isinstance(p_[-1], dict) and p_[-1].get("f") == field and p_[-1].get("o", "") == owner:
            out.append((b, i, st))
    return out


def _r028(ck, prog, cfg):
    RP = "production::response_pool::"
    send = [f for f in prog.lib_fns() if f.id == RP + "ResponseSlot::<T>::send"]
    reset = [f for f in prog.lib_fns() if f.id == RP + "ResponseSlot::<T>::reset"]
    poll = [f for f in prog.lib_fns() if f.id.startswith("<" + RP + "ResponseFuture<T> as ") and f.id.endswith("::poll")]
    if not (send and reset and poll):
        ck.anchor_lost("R02.8", "ResponseSlot::send / ResponseSlot::reset / ResponseFuture::poll not found")
        return
    send, reset, poll = send[0], reset[0], poll[0]
    ss = _slot_state(prog)
    if ss is None:
        ck.anchor_lost("R02.8", "ResponseSlot no longer keeps {reply: Option<T>, waker: Option<Waker>} behind one Mutex")
        return
    OWNER, VAL, WAK = ss
    LOCK = r"Mutex::<.*%s<.*>>::lock$" % re.escape(OWNER)
    # -- send: one critical section; value stored before the wake
    locks = [(b, t) for b, t in send.calls() if is_callee(t, LOCK)]
    stores = _field_store(send, VAL, OWNER)
    wakes = [(b, t) for b, t in send.calls() if is_callee(t, r"std::task::Waker::(wake|wake_by_ref)$")]
    ck.check(len(locks) == 1 and len(stores) >= 1, "R02.8", "send:one-critical-section" + _tag(cfg),
             "ResponseSlot::send takes the slot lock %d times / stores the value %d times: storing the reply and taking the waker must be one "
             "critical section" % (len(locks), len(stores)), send.where(), detail="1 lock, value stored under it")
    for k, (wb, wt) in enumerate(wakes):
        ok = any(send.dominates(sb, wb) for sb, _, _ in stores)
        ck.check(ok, "R02.8", "send:store-before-wake#%d%s" % (k, _tag(cfg)),
                 "ResponseSlot::send wakes the waiting requester on a path where the reply has not been stored yet: the requester polls, "
                 "finds nothing, parks again - and nobody wakes it a second time", send.where(wt["ln"]), detail="value store dominates wake")
    ck.floor("R02.8:wake" + _tag(cfg), len(wakes), 1)
    # -- reset empties the value on every path
    def _is_none(f, st):
        rv = st["rv"]
        if rv["k"] == "use":
            sx = src_of_operand(f, rv["a"])
            rv = sx.rv if sx.kind == "agg" else rv
        return rv["k"] == "agg" and rv.get("n", "").endswith("Option::None")
    rst = [(b, i, st) for b, i, st in _field_store(reset, VAL, OWNER) if _is_none(reset, st)]
    exits = reset.exits()
    ck.check(bool(rst) and all(any(reset.dominates(b, e) for b, _, _ in rst) for e in exits), "R02.8", "reset:empties-value" + _tag(cfg),
             "ResponseSlot::reset does not set `value = None` on every path: a reply that arrived after its requester gave up stays in the "
             "slot and is handed to the next requester that acquires it", reset.where(), detail="value = None dominates return")
    # -- poll: one critical section; Pending only after the waker is parked under that lock; Ready carries the taken value
    plocks = [(b, t) for b, t in poll.calls() if is_callee(t, LOCK)]
    ck.check(len(plocks) == 1, "R02.8", "poll:one-critical-section" + _tag(cfg),
             "ResponseFuture::poll takes the slot lock %d times: a reply stored between the check for a value and the parking of the waker "
             "would never wake this requester (lost wake-up)" % len(plocks), poll.where(), detail="1 lock")
    wst = _field_store(poll, WAK, OWNER)
    pend = [(b, i, st) for b, i, st in poll.stmts() if st["rv"]["k"] == "agg" and st["rv"].get("n", "").endswith("Poll::Pending")]
    guard = plocks[0][1]["dest"]["l"] if plocks else None
    gdrops = [b for b in poll.reachable_blocks() if poll.term(b)["k"] == "drop" and poll.term(b).get("pl") == {"l": guard}]
    for k, (pb, _, pst) in enumerate(pend):
        parked = [sb for sb, _, _ in wst if poll.dominates(sb, pb)]
        # the guard must still be held when the waker is parked: no drop of the guard dominates the store
        early = [d for d in gdrops for sb in parked if poll.dominates(d, sb) and d != sb]
        ck.check(bool(parked) and not early, "R02.8", "poll:park-before-pending#%d%s" % (k, _tag(cfg)),
                 "ResponseFuture::poll returns Pending on a path where the waker was not stored in the slot under the lock that checked for the "
                 "value: the shard's reply will not wake this requester", poll.where(pst["ln"]), detail="waker stored under the lock, then Pending")
    ck.floor("R02.8:pending" + _tag(cfg), len(pend), 1)
    rdy = [(b, i, st) for b, i, st in poll.stmts() if st["rv"]["k"] == "agg" and st["rv"].get("n", "").endswith("Poll::Ready")]
    for k, (rb, _, rst_) in enumerate(rdy):
        src = src_of_operand(poll, rst_["rv"]["ops"][0]) if rst_["rv"].get("ops") else None
        took = False
        for b, t in poll.calls():
            if is_callee(t, r"Option::<.*>::take$") and poll.dominates(b, rb):
                r = src_of_operand(poll, t["args"][0], through_calls=TRANSPARENT + (r"DerefMut>::deref_mut$", r"Deref>::deref$"))
                if VAL in (r.fields or ()):
                    took = True
        ck.check(took, "R02.8", "poll:ready-takes-value#%d%s" % (k, _tag(cfg)),
                 "ResponseFuture::poll returns Ready with something other than the value taken out of the slot (a reply left in the slot is "
                 "delivered a second time to the slot's next user)", poll.where(rst_["ln"]), detail="Ready(value.take())")
    ck.floor("R02.8:ready" + _tag(cfg), len(rdy), 1)
    # -- pool: a slot goes back only fresh or reset
    n = 0
    for f in prog.lib_fns():
        if f.file != "src/production/response_pool.rs" or "::tests::" in f.id:
            continue
        for b, t in f.calls():
            if not is_callee(t, r"ArrayQueue::<std::sync::Arc<.*ResponseSlot<.*>>>::push$"):
                continue
            n += 1
            src = src_of_operand(f, t["args"][1])
            fresh = src.kind == "call" and is_callee(src.term, r"Arc::<.*ResponseSlot<.*>>::new$")
            was_reset = any(is_callee(tt, r"ResponseSlot::<.*>::reset$") and f.dominates(bb, b) for bb, tt in f.calls())
            ck.check(fresh or was_reset, "R02.8", "%s:pooled-slot-is-clean#%d%s" % (f.short, n, _tag(cfg)),
                     "a response slot is pushed into the pool without reset(): a late reply still sitting in it is what its next user receives",
                     f.where(t["ln"]), detail="fresh" if fresh else "reset() dominates the push")
    ck.floor("R02.8:push" + _tag(cfg), n, 2)


# ------------------------------------------------------------------------------------------------
REQ_FILES = ("src/production/sharded_actor.rs", "src/production/replicated_shard_actor.rs", "src/production/response_pool.rs",
             "src/production/replicated_state.rs")
ABANDON = (r"tokio::time::(timeout|timeout_at)\b", r"tokio::time::Timeout", r"future::(select|select_all|select_ok|abortable|try_select)\b",
           r"FutureExt>::now_or_never$", r"Abortable", r"future::(poll_immediate|maybe_done)\b", r"tokio::time::(sleep|sleep_until|interval)\b")
REPLY_FUT = r"tokio::sync::oneshot::Receiver<|response_pool::ResponseFuture|response_pool::PooledResponse"


def _r029(ck, prog, cfg):
    n = 0
    for f in prog.lib_fns():
        if f.file not in REQ_FILES or "test" in f.id:
            continue
        for b, t in f.calls():
            nm = callee(t) or ""
            if any(re.search(p, nm) for p in ABANDON) or "select" in str(t.get("x", "")):
                ck.bad("R02.9", "%s:%s%s" % (f.id.replace("production::", "").replace("::{closure#0}", ""), nm.rsplit("::", 1)[-1].split("<")[0], _tag(cfg)),
                       "the request path wraps a pending future in %s: when it fires first the caller is answered although the command it "
                       "submitted is still queued in the shard mailbox and will execute later (the reply and the effect fall into different "
                       "positions of the history)" % nm, f.where(t["ln"]))
            if is_callee(t, r"Future>::poll$"):
                ty = (t.get("selfty") or "") + " " + (t.get("fnargs") or "")
                if re.search(REPLY_FUT, ty):
                    n += 1
                    ck.ok("R02.9", "%s:awaits-reply#%d%s" % (f.id.replace("production::", "").replace("::{closure#0}", ""), n, _tag(cfg)),
                          detail="polls %s directly" % ty.split(" as ")[0][:80])
    ck.floor("R02.9" + _tag(cfg), n, 6)


def _static_refs(node, out):
    if isinstance(node, dict):
        if "static" in node and "sfrozen" in node:
            out.append(("static", node["static"], node["sfrozen"]))
        if node.get("k") == "tls" and "def" in node:
            out.append(("tls", node["def"], False))
        for v in node.values():
            _static_refs(v, out)
    elif isinstance(node, list):
        for v in node:
            _static_refs(v, out)


def _r0210(ck, prog, cfg):
    from .facts import callee_names
    n = 0
    for f in prog.lib_fns():
        if "test" in f.id or not (f.file.startswith("src/redis/executor/") or f.file.startswith("src/redis/data/")
                                   or f.file in ("src/redis/command.rs", "src/redis/commands.rs")):
            continue
        n += 1
        refs = []
        _static_refs(f.d.get("blocks"), refs)
        for b, t in f.calls(reachable_only=False):
            for nm in callee_names(t):
                m = re.search(r"std::thread::LocalKey::<(.*?)>::(with|set|get|take|replace|with_borrow|with_borrow_mut|try_with)\b", nm)
                if m:
                    refs.append(("tls", "thread_local<%s>" % m.group(1), False))
        for kind, name, frozen in sorted(set(refs)):
            if frozen:
                continue
            ck.bad("R02.10", "%s:%s%s" % (f.short if f.kind != "closure" else (f.parent or "").rsplit("::", 1)[-1], re.sub(r"::\{.*", "", name), _tag(cfg)),
                   "%s %s is used by %s: state kept there survives the command and is shared by every shard and connection served by the same "
                   "thread/process, so a reply can depend on an earlier command against a different key or by a different client"
                   % ("thread-local" if kind == "tls" else "the mutable static", name, f.id), f.where())
    ck.check(n >= 300, "R02.10", "scan" + _tag(cfg), "only %d executor/data functions were scanned" % n, None,
             detail="%d functions of the executor, data and command modules scanned for thread-local / mutable-static use" % n)
