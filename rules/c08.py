"""C08 — a node's stamps only grow, also across restart.

R08.1 who may write the Lamport clock (only monotone forms), R08.2 local stamps come from tick,
R08.3 every ingest of an external value advances the clock past it, R08.4 recovery is wired,
R08.5 every remote delta reaches the clock-advancing ingest on all paths.
"""
import re
from .facts import callee, op_place, op_local
from .lib import src_of_operand, src_of_place, is_callee, TRANSPARENT, all_paths_hit
from . import lib2

CLOCK = "replication::lattice::LamportClock"


def _tag(cfg):
    return "" if cfg == "default" else "@" + cfg


def run(ck, ctx):
    ck.rule("R08.1", "every store to LamportClock.time is `time = time + c` (c>=1) or `time = max(time, x) + c`; the only other "
                     "producers of a clock value stored into a node-clock field are LamportClock::new in a constructor")
    ck.rule("R08.2", "functions that receive `&mut LamportClock` and store `*clock` into a timestamp field do so only after "
                     "(reachable from) a ticking call on that clock (tick/LwwRegister::set/delete/...); LwwRegister stamps are "
                     "the result of clock.tick()")
    ck.rule("R08.3", "every insert of an externally produced ReplicatedValue into ShardReplicaState.replicated_keys is dominated "
                     "by LamportClock::update(&mut <node clock>, &<that value>.timestamp) (or by a local tick on the node clock, "
                     "or is a put-back of the value just removed)")
    ck.rule("R08.4", "recovery is wired: the server binary passes recovered checkpoint+deltas and the WAL replay to "
                     "apply_recovered_state before the client listener accepts; apply_recovered_state sends every checkpoint "
                     "entry to its shard and then applies the deltas")
    ck.rule("R08.5", "every path through apply_remote_delta_impl and the ApplyRemoteDelta arm reaches "
                     "ShardReplicaState::apply_remote_delta (no early exit before the clock advances)")
    ck.rule("R08.6", "a checkpoint keeps every stamp the node holds: the clock after a restart is re-derived from the recovered values, so "
                     "the snapshot that becomes the checkpoint is the shards' replicated_keys handed over whole - tombstones included; no "
                     "filter/retain between a shard's map and the checkpoint state, every shard asked (a dropped tombstone takes the stamp "
                     "of its DEL with it: the next write after a restart is stamped lower than the delete its peers still hold)")
    ck.rule("R08.7", "garbage collection does not make the node forget its own stamps: the shard clocks are not persisted - after a restart "
                     "they are re-derived from the recovered values - so wherever persisted deltas are discarded (compaction's tombstone "
                     "pass) the highest stamp seen must be persisted some other way (a clock / high-water field in the manifest or the "
                     "recovered state that recovery feeds into LamportClock::update)")
    ck.rule("R08.8", "peers never see a stamp the node can forget: in ReplicatedShardedState::execute the hand-over of a fresh delta to "
                     "gossip (queue_deltas) comes after the WAL write of that delta - no path leads from a queue_deltas call to "
                     "write_durable (with always-fsync a crash inside the group-commit window would otherwise restart the node below a "
                     "stamp its peers already hold)")
    ck.nd("that the resulting stamp supersedes on every replica additionally needs C07 (merge algebra)")
    ck.nd("per-field stamps inside hash values larger than the outer stamp (value-level)")
    ck.rule("R08.11", COVER_TEXT)
    ck.rule("R08.12", TICK_TEXT)
    ck.rule("R08.14", "a node stamps under its own identity for life: the replica id of a LamportClock is written only at construction - a clock that takes "
                      "over the id of a stamp it has seen issues stamps in another node's name, and 'greater than every stamp this node issued "
                      "before' stops being a statement about one sequence (shared with C07 R07.6)")
    ck.rule("R08.13", "compaction keeps a key's greatest stamp: in the per-key fold an entry is replaced only behind `key absent` or `incoming stamp > "
                      "stored stamp` (segment ids do not order ages: a compaction's output gets the newest id and carries the oldest data) - the shard "
                      "clocks are rebuilt from what the segments hold, so losing the newest delta of a key lets the node re-issue its stamp after a "
                      "restart (shared with C13 R13.1; the open merge-operator finding stays with C13)")
    ck.rule("R08.10", "the clocks are rebuilt from everything that was persisted: the recovered checkpoint and every recovered delta reach the shard "
                      "actors as the recovery manager returned them (no picking, collapsing or reordering on the way), through the merging ingest "
                      "that advances the clock past each of them - a delta dropped here can be the one that carries a shard's newest stamp "
                      "(shared with C11 R11.3)")
    ck.rule("R08.9", "the newest stamp wins wherever values meet: every merge function a delivered or recovered value passes through is a "
                     "certified lattice join that selects by the Lamport stamp only (the C07 certificate R07.0-R07.2, shared; the "
                     "associativity hazard R07.3 stays with C07/C06) - a merge that prefers one side for another reason (vector-clock "
                     "dominance, a causal fast path, a type preference) lets an older value beat an acknowledged newer write")
    from . import c07 as _c07
    _c07.certify(ck, rid=lambda r: "R08.9", floor_id="R08.9", skip_rules=("R07.3",))
    for cfg in ctx.configs:
        prog = ctx.prog(cfg)
        ck.configs.append(cfg)
        ck.fn_count += len(prog.fns)
        _r081(ck, prog, cfg)
        _r082(ck, prog, cfg)
        _r083(ck, prog, cfg)
        _r084(ck, prog, cfg)
        _r085(ck, prog, cfg)
        _r086(ck, prog, cfg)
        _r087(ck, prog, cfg)
        _r088(ck, prog, cfg)
        from . import c11 as _c11
        from .core import Alias as _Alias
        _c11._r113(_Alias(ck, "R11.3", "R08.10"), prog, cfg)
        r0811(ck, prog, cfg, "R08.11")
        r0812(ck, prog, cfg, "R08.12")
        from . import c07 as _c07i
        _c07i.r076(ck, prog, cfg, "R08.14")
        from . import c13 as _c13
        from .core import Only as _Only
        _c13._rules(_Only(ck, {"R13.1": "R08.13"}, skip_keys=("R13.1:compact:fold-operator",)), prog, cfg)


def _is_time_place(pl):
    fs = [e for e in pl.get("p", []) if isinstance(e, dict) and "f" in e]
    return bool(fs) and fs[-1]["f"] == "time" and fs[-1].get("o") == CLOCK and pl["p"][-1] is fs[-1]


def _is_branch_max(fn, local, own_path):
    """`local` has exactly two definitions, the clock's own time and another value, each under the edge of a comparison of the two that makes
    it the larger one (an `if a >= b { a } else { b }` maximum)"""
    from . import lib2
    from .lib import switch_info
    defs = [d for d in fn.defs().get(local, []) if d[2] == "assign" and d[3]["k"] == "use" and "c" not in d[3]["a"]]
    if len(defs) != 2 or len(fn.defs().get(local, [])) != 2:
        return False
    vals = [(d[0], src_of_operand(fn, d[3]["a"]).path()) for d in defs]
    if sum(1 for _, p_ in vals if p_ == own_path) != 1:
        return False
    NEG = {"Lt": "Ge", "Le": "Gt", "Gt": "Le", "Ge": "Lt", "Eq": "Ne", "Ne": "Eq"}
    FLIP = {"Lt": "Gt", "Le": "Ge", "Gt": "Lt", "Ge": "Le", "Eq": "Eq", "Ne": "Ne"}
    for db, vp in vals:
        good = False
        for sb, _ in lib2.controlling_switches(fn, db):
            si = switch_info(fn, sb)
            src = si["src"] if si else None
            if src is None or src.kind != "rv" or src.rv["k"] != "bin" or src.rv["op"] not in NEG:
                continue
            a, b = src_of_operand(fn, src.rv["a"]).path(), src_of_operand(fn, src.rv["b"]).path()
            if own_path not in (a, b) or a == b:
                continue
            op = src.rv["op"] if a == own_path else FLIP[src.rv["op"]]          # own OP other
            tt, ft = lib2.bool_edges(fn, sb)
            on_true = tt is not None and (db == tt or db in fn.reach([tt], avoid=[sb])) and not (ft is not None and (db == ft or db in fn.reach([ft], avoid=[sb])))
            on_false = ft is not None and (db == ft or db in fn.reach([ft], avoid=[sb])) and not (tt is not None and (db == tt or db in fn.reach([tt], avoid=[sb])))
            if not (on_true or on_false):
                continue
            rel = op if on_true else NEG[op]
            if vp == own_path and rel in ("Ge", "Gt", "Eq"):
                good = True
            if vp != own_path and rel in ("Le", "Lt", "Eq"):
                good = True
        if not good:
            return False
    return True


def _r081(ck, prog, cfg):
    n = 0
    for fn in prog.fns.values():
        for b, i, st in fn.stmts():
            lhs = st["lhs"]
            if _is_time_place(lhs):
                n += 1
                key = "%s:store-time#%d%s" % (fn.id, _nth(fn, b, i), _tag(cfg))
                rv = st["rv"]
                ok = False
                why = "store to LamportClock.time is not of a monotone form"
                if rv["k"] == "bin" and rv["op"] in ("Add", "AddUnchecked", "AddWithOverflow"):
                    a, c = rv["a"], rv["b"]
                    cval = c.get("c", "")
                    pos = cval.endswith("_u64") and cval.split("_")[0].isdigit() and int(cval.split("_")[0]) >= 1
                    base = src_of_operand(fn, a)
                    lhs_s = src_of_place(fn, lhs)
                    if pos and base.kind == "path" and base.path() == lhs_s.path():
                        ok = True
                    elif pos and base.kind == "call" and is_callee(base.term, r"<u64 as std::cmp::Ord>::max$"):
                        args = [src_of_operand(fn, x).path() for x in base.term["args"]]
                        ok = lhs_s.path() in args
                        if not ok:
                            why = "max(..) does not include the clock's own time"
                    elif pos and base.kind in ("multi", "path") and base.local is not None and base.local > fn.d["argc"] and _is_branch_max(fn, base.local, lhs_s.path()):
                        # max written out: `let hi = if self.time >= other.time { self.time } else { other.time }; self.time = hi + 1`
                        ok = True
                    elif not pos:
                        why = "increment is not a positive constant (%s)" % cval
                ck.check(ok, "R08.1", key, why + ": a node's clock could repeat or go backwards", fn.where(st["ln"]),
                         detail="monotone store")
    ck.floor("R08.1" + _tag(cfg), n, 2)
    # ... and the functions that take `&mut LamportClock` to advance it do so on *every* path (an `update` that returns early for
    # some stamps - own replica id, an "echo" - leaves the clock behind a value the node has just observed)
    adv = 0
    for fn in prog.lib_fns():
        if fn.d.get("impl_self") != CLOCK or fn.kind != "method" or fn.d.get("implements"):
            continue
        if not fn.locals or len(fn.locals) < 2 or str(fn.locals[1]) != "&mut " + CLOCK:
            continue
        stores = [b for b, i, st in fn.stmts() if _is_time_place(st["lhs"])]
        if not stores:
            continue
        adv += 1
        ok = all(any(fn.dominates(sb, e) for sb in stores) for e in fn.exits())
        ck.check(ok, "R08.1", "%s:advances-on-every-path%s" % (fn.id, _tag(cfg)),
                 "%s can return without storing a new time: the clock is not advanced past every stamp it is shown (after a restart the "
                 "recovered values a node wrote itself carry its own replica id - skipping those leaves the clock at 0 and the next write "
                 "is stamped below them)" % fn.short, fn.where(), detail="the time store dominates every return")
    ck.floor("R08.1:advancers" + _tag(cfg), adv, 2)
    # whole-value stores into node-clock fields
    clock_fields = _node_clock_fields(prog)
    ck.floor("R08.1-clockfields" + _tag(cfg), len(clock_fields), 1)
    m = 0
    for fn in prog.fns.values():
        for b, i, st in fn.stmts():
            lhs = st["lhs"]
            fs = [e for e in lhs.get("p", []) if isinstance(e, dict) and "f" in e]
            if not fs or lhs["p"][-1] is not fs[-1]:
                continue
            if (fs[-1].get("o"), fs[-1]["f"]) in clock_fields and fs[-1]["t"] == CLOCK:
                m += 1
                ck.bad("R08.1", "%s:overwrite-node-clock(%s)%s" % (fn.id, fs[-1]["f"], _tag(cfg)),
                       "a node clock field is overwritten wholesale outside its constructor: stamps may repeat or decrease",
                       fn.where(st["ln"]))
        # ... and into fields whose struct contains a node clock (`self.replica_state = ShardReplicaState::new(..)`): replacing the
        # containing state outside its constructor resets the clock just the same
        for b, i, st in fn.stmts():
            lhs = st["lhs"]
            fs = [e for e in lhs.get("p", []) if isinstance(e, dict) and "f" in e]
            if not fs or lhs["p"][-1] is not fs[-1]:
                continue
            owner_types = {o for (o, f_) in clock_fields}
            ft = fs[-1].get("t", "")
            if any(ft == o or ft.startswith(o + "<") for o in owner_types) and fn.kind in ("fn", "method", "closure", "coroutine"):
                # a constructor initialises through an aggregate, not through a field store of an existing value
                m += 1
                ck.bad("R08.1", "%s:replace-clock-owner(%s)%s" % (re.sub(r"\{closure#\d+\}", "{closure}", fn.id), fs[-1]["f"], _tag(cfg)),
                       "a value of type %s, which holds the node's Lamport clock, is replaced wholesale in running code: the clock restarts "
                       "from zero and stamps issued afterwards repeat or undercut earlier ones" % ft.rsplit("::", 1)[-1], fn.where(st["ln"]))
        # deref-assign through &mut LamportClock (`*clock = x`)
        for b, i, st in fn.stmts():
            lhs = st["lhs"]
            if lhs.get("p") == ["*"] and fn.locals[lhs["l"]] == "&mut " + CLOCK:
                ck.bad("R08.1", "%s:assign-through-clock-ref%s" % (fn.id, _tag(cfg)),
                       "`*clock = ..` overwrites a Lamport clock wholesale", fn.where(st["ln"]))
            # `*self = ShardReplicaState::new(..)` in a reset()/clear() method of the clock's owner: same thing one level up
            lt = fn.locals[lhs["l"]] if lhs.get("p") == ["*"] else ""
            if lt.startswith("&mut ") and any(lt[5:] == o or lt[5:].startswith(o + "<") for o in {o for (o, f_) in clock_fields}):
                ck.bad("R08.1", "%s:assign-through-owner-ref%s" % (re.sub(r"\{closure#\d+\}", "{closure}", fn.id), _tag(cfg)),
                       "`*self = ..` replaces a whole %s, which holds the node's Lamport clock, in running code: the clock restarts and stamps "
                       "issued afterwards repeat or undercut earlier ones (a FLUSHALL that resets the replication state makes the next "
                       "write lose against the pre-flush value on every peer)" % lt[5:].rsplit("::", 1)[-1], fn.where(st["ln"]))
        for b, t in fn.calls():
            if is_callee(t, r"^std::mem::(replace|swap|take)::<"):
                ta = (t.get("fnargs") or callee(t))
                mm = re.search(r"::<(.*)>$", ta)
                ty = mm.group(1) if mm else ""
                if ty == CLOCK or any(ty == o or ty.startswith(o + "<") for o in {o for (o, f_) in clock_fields}):
                    ck.bad("R08.1", "%s:mem-%s-clock-owner%s" % (re.sub(r"\{closure#\d+\}", "{closure}", fn.id), callee(t).split("::")[2].split("<")[0], _tag(cfg)),
                           "std::mem::%s swaps out a whole %s (it holds / is the node's Lamport clock) in running code" % (callee(t).split("::")[2], ty.rsplit("::", 1)[-1]),
                           fn.where(t["ln"]))
    ck.extra.setdefault("node_clock_fields", sorted("%s.%s" % x for x in clock_fields))


def _nth(fn, b, i):
    sites = [(bb, ii) for bb, ii, st in fn.stmts() if _is_time_place(st["lhs"])]
    return sites.index((b, i))


def _node_clock_fields(prog):
    """(owner adt, field) pairs of type LamportClock that are mutably borrowed into tick/update anywhere."""
    out = set()
    for fn in prog.fns.values():
        for b, i, st in fn.stmts():
            rv = st["rv"]
            if rv["k"] == "ref" and rv["mut"]:
                pl = rv["pl"]
                fs = [e for e in pl.get("p", []) if isinstance(e, dict) and "f" in e]
                if fs and pl["p"][-1] is fs[-1] and fs[-1]["t"] == CLOCK and fs[-1].get("o"):
                    out.add((fs[-1]["o"], fs[-1]["f"]))
    return out


TICKING = (r"LamportClock::tick$", r"LwwRegister::<.*>::(set|delete)$")


def _r082(ck, prog, cfg):
    n = 0
    # ticking callees: functions that take &mut LamportClock and (transitively) call tick on it on every path — approximated
    # by the frozen list TICKING plus any local function taking `&mut LamportClock` that passes it on (computed below)
    takes_clock = {}
    for fn in prog.lib_fns():
        for ai in range(1, fn.d["argc"] + 1):
            if fn.locals[ai] == "&mut " + CLOCK:
                takes_clock.setdefault(fn.id, []).append(ai)
    for fn in prog.lib_fns():
        if fn.id not in takes_clock or fn.id.endswith("LamportClock::tick") or fn.id.endswith("LamportClock::update"):
            continue
        cl = takes_clock[fn.id]
        # stores of *clock into a field
        for b, i, st in fn.stmts():
            rv = st["rv"]
            if rv["k"] != "use":
                continue
            p = op_place(rv["a"])
            if p is None or p.get("p") != ["*"] or p["l"] not in cl:
                # also allow a copy via temp
                s = src_of_operand(fn, rv["a"]) if p is not None else None
                if not (s is not None and s.kind == "path" and s.local in cl and s.fields == ()):
                    continue
                if fn.locals[p["l"]] != CLOCK:
                    continue
            lhs = st["lhs"]
            fs = [e for e in lhs.get("p", []) if isinstance(e, dict) and "f" in e]
            if not fs:
                continue
            n += 1
            key = "%s:stamp-store(%s)#%d%s" % (fn.id, fs[-1]["f"], n, _tag(cfg))
            dom = False
            for cb, t in fn.calls():
                passes = any((op_place(a) or {}).get("l") in cl or src_of_operand(fn, a).local in cl for a in t["args"] if "c" not in a)
                if not passes:
                    continue
                if is_callee(t, *TICKING) or (prog.local_callee(fn, t) is not None and prog.local_callee(fn, t).id in takes_clock
                                               and not is_callee(t, r"LamportClock::update$")):
                    # the ticking call must precede the stamp copy (reach it); all-paths is not required because the
                    # repo's `if !is_hash {make hash}; if let Hash = .. {tick}` idiom has an infeasible non-ticking path
                    if fn.site_dominates((cb, len(fn.blocks[cb]["st"])), (b, i)) or b in fn.reach([cb]):
                        dom = True
            ck.check(dom, "R08.2", key, "a stamp is copied from the clock without a dominating tick: two writes can carry the same stamp",
                     fn.where(st["ln"]), detail="tick dominates stamp copy")
    # the outer stamp of a ReplicatedValue follows every tick made on its behalf: after a call that ticks the clock for an inner
    # register, every path to return copies the clock into self.timestamp (observers advance their clocks from that outer stamp)
    for fn in prog.lib_fns():
        if fn.id not in takes_clock or fn.d.get("impl_self") != "replication::state::replicated_value::ReplicatedValue":
            continue
        cl = takes_clock[fn.id]
        stores = set()
        for b, i, st in fn.stmts():
            rv = st["rv"]
            fs = [e for e in st["lhs"].get("p", []) if isinstance(e, dict) and "f" in e]
            if rv["k"] == "use" and fs and fs[-1]["f"] == "timestamp" and len(fs) == 1:
                sx = src_of_operand(fn, rv["a"])
                if sx.kind == "path" and sx.local in cl:
                    stores.add(b)
        k = 0
        for cb, t in fn.calls():
            passes = any((op_place(a) or {}).get("l") in cl or src_of_operand(fn, a).local in cl for a in t["args"] if "c" not in a)
            if not passes:
                continue
            if not (is_callee(t, *TICKING) or (prog.local_callee(fn, t) is not None and prog.local_callee(fn, t).id in takes_clock
                                              and not is_callee(t, r"LamportClock::update$"))):
                continue
            n += 1
            k += 1
            path = lib2.path_avoiding(fn, cb, lambda x: fn.term(x)["k"] == "return", lambda x: x in stores)
            ck.check(path is None, "R08.2", "%s:outer-stamp-follows-tick#%d%s" % (fn.id.replace("replication::state::replicated_value::", ""), k, _tag(cfg)),
                     "%s ticks the clock for an inner register and can return without copying the clock into self.timestamp: the value's outer "
                     "stamp stays behind the stamp that decides merges, so a node that ingests it advances its clock too little and its next "
                     "write of the key loses" % fn.short, fn.where(t["ln"]), detail="self.timestamp = *clock on every path after the tick")
    # LwwRegister::set/delete: timestamp = clock.tick()
    for name in ("replication::lattice::LwwRegister::<T>::set", "replication::lattice::LwwRegister::<T>::delete"):
        fn = prog.one(name)
        found = False
        for b, i, st in fn.stmts():
            fs = [e for e in st["lhs"].get("p", []) if isinstance(e, dict) and "f" in e]
            if fs and fs[-1]["f"] == "timestamp" and st["rv"]["k"] == "use":
                s = src_of_operand(fn, st["rv"]["a"])
                found = True
                n += 1
                ck.check(s.kind == "call" and is_callee(s.term, r"LamportClock::tick$"), "R08.2",
                         "%s:timestamp-from-tick%s" % (fn.id, _tag(cfg)), "LwwRegister stamp does not come from clock.tick()",
                         fn.where(st["ln"]), detail="timestamp = clock.tick()")
        ck.check(found, "R08.2", "%s:timestamp-store-exists%s" % (fn.id, _tag(cfg)), "no timestamp store found (anchor lost)", fn.where())
    ck.floor("R08.2" + _tag(cfg), n, 4)


def _classify_stored(fn, b, value_operand):
    """how the value stored at block b relates to the node clock: ('ok', why) | ('external', updated: bool)"""
    site = (b, len(fn.blocks[b]["st"]))
    val = src_of_operand(fn, value_operand, through_calls=(r"::clone$",))
    if val.kind == "call" and is_callee(val.term, r"HashMap::<.*ReplicatedValue>::remove"):
        return "ok", "put-back of the value just removed"
    if val.kind == "call" and is_callee(val.term, r"Option::<.*ReplicatedValue>::(unwrap_or_else|unwrap_or|unwrap_or_default)\b"):
        inner = src_of_operand(fn, val.term["args"][0])
        if inner.kind == "call" and is_callee(inner.term, r"HashMap::<.*ReplicatedValue>::remove"):
            return "ok", "value = removed-or-fresh local state (stamps governed by R08.2)"
    if val.kind == "call" and is_callee(val.term, r"ReplicatedValue::(new|with_value)$"):
        return "ok", "fresh local value"
    local_tick = False
    upd = False
    for cb, ct in fn.calls():
        if not fn.site_dominates((cb, len(fn.blocks[cb]["st"])), site) or cb == b:
            continue
        for ai, a in enumerate(ct["args"]):
            s = src_of_operand(fn, a, through_calls=TRANSPARENT) if "c" not in a else None
            if s is None or not (s.fields and s.fields[-1] == "lamport_clock"):
                continue
            if is_callee(ct, r"LamportClock::update$"):
                if ai == 0 and len(ct["args"]) > 1:
                    o = src_of_operand(fn, ct["args"][1], through_calls=TRANSPARENT)
                    if o.fields and o.fields[-1] == "timestamp" and o.root != "self":
                        upd = True
            else:
                local_tick = True
    if local_tick:
        return "ok", "local write: node clock ticked before the insert"
    return "external", upd


def _r083(ck, prog, cfg):
    n = 0
    n_ext = 0
    for fn in prog.fns.values():
        if "/tests" in fn.file:
            continue
        for b, t in fn.calls():
            if not is_callee(t, r"HashMap::<std::string::String, replication::state::replicated_value::ReplicatedValue>::insert$"):
                continue
            recv = src_of_operand(fn, t["args"][0], through_calls=TRANSPARENT)
            if not (recv.fields and recv.fields[-1] == "replicated_keys"):
                continue
            # receiver must be a ShardReplicaState's map
            if not _is_shard_state_map(fn, t["args"][0]):
                continue
            key = "%s:insert#%d%s" % (fn.id, _ins_ord(fn, b), _tag(cfg))
            # a helper that stores a value it was handed: the obligation moves to every call site of the helper
            vs = src_of_operand(fn, t["args"][2], through_calls=(r"::clone$",))
            if vs.kind == "path" and vs.local is not None and 1 < vs.local <= fn.d["argc"] and not vs.fields and fn.kind in ("fn", "method"):
                callers = [(g, cb, ct) for g in prog.fns.values() if "/tests" not in g.file for cb, ct in g.calls() if prog.local_callee(g, ct) is fn]
                if callers:
                    for g, cb, ct in callers:
                        n += 1
                        st, info = _classify_stored(g, cb, ct["args"][vs.local - 1])
                        ckey = "%s:via:%s%s" % (key.replace(_tag(cfg), ""), g.id.rsplit("::", 1)[-1], _tag(cfg))
                        if st == "ok":
                            ck.ok("R08.3", ckey, info)
                        else:
                            n_ext += 1
                            ck.check(info, "R08.3", ckey,
                                     "an externally produced value is handed to %s, which stores it into replicated_keys, without advancing the "
                                     "node's Lamport clock past its stamp" % fn.short, g.where(ct["ln"]), detail="update dominates the call")
                    continue
            n += 1
            st, info = _classify_stored(fn, b, t["args"][2])
            if st == "ok":
                ck.ok("R08.3", key, info)
                continue
            n_ext += 1
            ck.check(info, "R08.3", key,
                     "an externally produced value is stored into replicated_keys without advancing the node's Lamport clock past "
                     "its stamp: the next local write can get a smaller stamp than a value this node has already seen and lose",
                     fn.where(t["ln"]), detail="LamportClock::update(&mut clock, &value.timestamp) dominates the insert")
    ck.floor("R08.3" + _tag(cfg), n, 6)
    ck.floor("R08.3-external" + _tag(cfg), n_ext, 2)


def _is_shard_state_map(fn, operand):
    """the &mut map operand is a projection `<x>.replicated_keys` with owner ShardReplicaState"""
    seen = 0
    o = operand
    while seen < 10:
        seen += 1
        pl = op_place(o)
        if pl is None:
            return False
        for e in pl.get("p", []):
            if isinstance(e, dict) and e.get("f") == "replicated_keys":
                return e.get("o", "").endswith("shard_state::ShardReplicaState")
        defs = fn.defs().get(pl["l"], [])
        if len(defs) != 1 or defs[0][2] != "assign":
            return False
        rv = defs[0][3]
        if rv["k"] in ("ref",):
            o = {"cp": rv["pl"]}
        elif rv["k"] == "use":
            o = rv["a"]
        else:
            return False
    return False


def _ins_ord(fn, b):
    sites = sorted((t["ln"], bb) for bb, t in fn.calls() if is_callee(t, r"HashMap::<.*ReplicatedValue>::insert$"))
    for i, (ln, bb) in enumerate(sites):
        if bb == b:
            return i
    return -1


def _r084(ck, prog, cfg):
    # apply_recovered_state: checkpoint loop then deltas
    ars = prog.one("production::replicated_state::ReplicatedShardedState::<T>::apply_recovered_state")
    sends = [(b, t) for b, t in ars.calls() if is_callee(t, r"ReplicatedShardHandle::apply_recovered_state$")]
    dels = [(b, t) for b, t in ars.calls() if is_callee(t, r"ReplicatedShardedState::<T>::apply_remote_deltas$")]
    ck.check(len(sends) == 1 and len(dels) == 1, "R08.4", "apply_recovered_state-shape" + _tag(cfg),
             "apply_recovered_state no longer forwards checkpoint entries and then deltas (%d,%d)" % (len(sends), len(dels)), ars.where())
    if sends and dels:
        # every exit passes through apply_remote_deltas; the delta application is not reachable *before* the checkpoint loop
        db = dels[0][0]
        ck.check(all(ars.dominates(db, e) for e in ars.exits()), "R08.4", "deltas-on-all-paths" + _tag(cfg),
                 "apply_recovered_state can return without applying the recovered deltas", ars.where(dels[0][1]["ln"]),
                 detail="apply_remote_deltas dominates every exit")
        ck.check(sends[0][0] not in ars.reach([db]), "R08.4", "checkpoint-before-deltas" + _tag(cfg),
                 "checkpoint entries are installed after the deltas (plain insert would overwrite merged state)",
                 ars.where(sends[0][1]["ln"]), detail="checkpoint loop precedes deltas")
        # the checkpoint loop has no filtering exit: every iteration over the recovered entries reaches the send
        heads = lib2.loop_heads(ars)
        sb_ = sends[0][0]
        mine = [h for h, (none_t, some_t, nb) in heads.items() if sb_ == some_t or sb_ in ars.reach([some_t], avoid=[h])]
        skip = lib2.iteration_skips(ars, mine[0], {sb_}) if mine else [sb_]
        if mine:
            lib2.whole_batch(ck, ars, mine[0], "R08.4", "checkpoint-loop-whole" + _tag(cfg), "the recovered checkpoint's entry list")
        ck.check(bool(mine) and skip is None, "R08.4", "every-checkpoint-entry-forwarded" + _tag(cfg),
                 "an entry of the recovered checkpoint can be skipped (not sent to its shard): its stamp never reaches the shard's clock and "
                 "its value is missing after the restart", ars.where(sends[0][1]["ln"]), detail="send on every path of the loop body")
    # handle side: the message is sent unconditionally
    h = prog.one("production::replicated_shard_actor::ReplicatedShardHandle::apply_recovered_state")
    hs = [(b, t) for b, t in h.calls() if is_callee(t, r"UnboundedSender::<.*>::send$")]
    ck.check(len(hs) == 1 and all(h.dominates(hs[0][0], e) for e in h.exits()), "R08.4", "handle-sends" + _tag(cfg),
             "ReplicatedShardHandle::apply_recovered_state does not always send the message", h.where())
    # server wiring: main must call apply_recovered_state / integration.recover before the accept loop
    mains = [f for f in prog.fns.values() if f.crate == "bin:server_persistent" and f.kind == "coroutine" and f.id.endswith("::main::{closure#0}")]
    if cfg == "default" or mains:
        ck.check(len(mains) == 1, "R08.4", "server-main" + _tag(cfg), "server_persistent main coroutine not found", None)
    for m in mains:
        rec = [(b, t) for b, t in m.calls() if is_callee(t, r"integration::StreamingIntegrationTrait::recover$", r"StreamingIntegration::<.*>::recover$")]
        wal = [(b, t) for b, t in m.calls() if is_callee(t, r"ReplicatedShardedState::<.*>::apply_recovered_state$")]
        acc = [(b, t) for b, t in m.calls() if is_callee(t, r"TcpListener::accept$")]
        ck.check(len(rec) >= 1, "R08.4", "main-calls-recover" + _tag(cfg), "main no longer calls StreamingIntegration::recover", m.where())
        ck.check(len(wal) >= 1, "R08.4", "main-replays-wal" + _tag(cfg), "main no longer applies the WAL replay via apply_recovered_state", m.where())
        ck.check(len(acc) >= 1, "R08.4", "main-accepts" + _tag(cfg), "accept loop not found in main (anchor lost)", m.where())
        for ab, at in acc:
            for rb, rt in rec:
                ck.check(m.dominates(rb, ab) or _all_paths_through(m, rb, ab), "R08.4", "recover-before-accept" + _tag(cfg),
                         "connections can be accepted on a path that skipped recovery", m.where(at["ln"]), detail="recover precedes accept")
                break
            break
    # integration.recover must hand the recovered state over
    for f in prog.lib_fns():
        if f.kind == "coroutine" and f.id.startswith("streaming::integration::") and f.id.endswith("::recover::{closure#0}"):
            calls = [(b, t) for b, t in f.calls() if is_callee(t, r"apply_recovered_state$")]
            ck.check(len(calls) >= 1, "R08.4", "%s:applies%s" % (f.id, _tag(cfg)), "integration recover does not apply the recovered state", f.where())


def _all_paths_through(fn, via, target):
    # target unreachable from entry when `via` is removed
    seen = {0}
    work = [0]
    while work:
        b = work.pop()
        if b == via:
            continue
        if b == target:
            return False
        for s in fn.succ(b):
            if s not in seen:
                seen.add(s)
                work.append(s)
    return True


def _r085(ck, prog, cfg):
    impl = prog.one("production::replicated_shard_actor::ReplicatedShardActor::apply_remote_delta_impl")
    calls = [(b, t) for b, t in impl.calls() if is_callee(t, r"ShardReplicaState::apply_remote_delta$")]
    ck.check(len(calls) == 1, "R08.5", "impl-calls-ingest" + _tag(cfg), "apply_remote_delta_impl does not call ShardReplicaState::apply_remote_delta exactly once", impl.where())
    if calls:
        cb = calls[0][0]
        ck.check(all(impl.dominates(cb, e) for e in impl.exits()), "R08.5", "impl-ingest-on-all-paths" + _tag(cfg),
                 "apply_remote_delta_impl has an exit that does not pass through ShardReplicaState::apply_remote_delta: a remote "
                 "delta can be observed (and dropped) without advancing the node's clock past its stamp",
                 impl.where(calls[0][1]["ln"]), detail="ingest dominates every exit")
    # the ingest function itself: update dominates every exit
    ing = prog.one("replication::state::shard_state::ShardReplicaState::apply_remote_delta")
    ups = [(b, t) for b, t in ing.calls() if is_callee(t, r"LamportClock::update$")]
    ck.check(len(ups) >= 1 and any(all(ing.dominates(ub, e) for e in ing.exits()) for ub, _ in ups), "R08.5",
             "ingest-updates-on-all-paths" + _tag(cfg),
             "ShardReplicaState::apply_remote_delta can return without LamportClock::update (conditional clock advance)",
             ing.where(), detail="update dominates every exit")
    # the actor arm: ApplyRemoteDelta -> apply_remote_delta_impl (enum dispatch): the impl is called from run
    run = prog.one("production::replicated_shard_actor::ReplicatedShardActor::run::{closure#0}")
    rc = [(b, t) for b, t in run.calls() if is_callee(t, r"ReplicatedShardActor::apply_remote_delta_impl$")]
    ck.check(len(rc) >= 1, "R08.5", "arm-calls-impl" + _tag(cfg), "the ApplyRemoteDelta arm no longer calls apply_remote_delta_impl", run.where())
    # routing layer: ReplicatedShardedState::apply_remote_deltas forwards every delta
    ards = prog.one("production::replicated_state::ReplicatedShardedState::<T>::apply_remote_deltas")
    fw = [(b, t) for b, t in ards.calls() if is_callee(t, r"ReplicatedShardHandle::apply_remote_delta$")]
    ck.check(len(fw) >= 1, "R08.5", "router-forwards" + _tag(cfg), "apply_remote_deltas no longer forwards deltas to the shards", ards.where())


NARROW = (r"Iterator>?::(filter|filter_map|take|skip|take_while|skip_while|step_by)(::<.*>)?$", r"HashMap::<.*>::(retain|remove|extract_if|drain)(::<.*>)?$")


def _r086(ck, prog, cfg):
    fs = [f for f in prog.lib_fns() if f.file == "src/production/replicated_state.rs" and re.search(r"ReplicatedShardedState::<T>::snapshot_state::\{closure#0\}$", f.id)]
    if len(fs) != 1:
        ck.anchor_lost("R08.6", "ReplicatedShardedState::snapshot_state not found")
        return
    f = fs[0]
    bodies = prog.with_children(f)
    narrow = [(g, t) for g in bodies for _, t in g.calls() if is_callee(t, *NARROW)]
    ck.check(not narrow, "R08.6", "snapshot_state:whole-shard-snapshots" + _tag(cfg),
             "the checkpoint snapshot is narrowed (%s) on its way from the shards: a value left out takes its stamp with it, and the restarted "
             "node's clock no longer dominates every stamp it issued" % (callee(narrow[0][1]).rsplit("::", 1)[-1] if narrow else ""),
             (narrow[0][0] if narrow else f).where(narrow[0][1]["ln"] if narrow else None), detail="no filter/retain/take in snapshot_state")
    exts = [(b, t) for b, t in f.calls() if is_callee(t, r"Extend<.*>>::extend$", r"HashMap::<.*>::(extend|insert)$")]
    heads = lib2.loop_heads(f)
    ok = False
    for b, t in exts:
        mine = [h for h, (none_t, some_t, nb) in heads.items() if b == some_t or b in f.reach([some_t], avoid=[h])]
        if mine and lib2.iteration_skips(f, mine[0], {b}) is None and not lib2.loop_cut(f, mine[0]):
            ok = True
    ck.check(ok, "R08.6", "snapshot_state:every-shard-merged-in" + _tag(cfg),
             "not every shard's snapshot is merged into the checkpoint state on every path", f.where(), detail="for shard_snapshot in results { snapshot.extend(shard_snapshot) }")
    asks = [(g, t) for g in bodies for _, t in g.calls() if is_callee(t, r"ReplicatedShardHandle::get_snapshot$")]
    ck.check(len(asks) >= 1, "R08.6", "snapshot_state:asks-shards" + _tag(cfg), "snapshot_state does not ask the shards (get_snapshot)", f.where())
    # the shard answers with its whole map
    run = [g for g in prog.lib_fns() if g.file == "src/production/replicated_shard_actor.rs" and re.search(r"ReplicatedShardActor::run::\{closure#0\}$", g.id)]
    good = False
    for g in run:
        for b, t in g.calls():
            if is_callee(t, r"oneshot::Sender::<std::collections::HashMap<std::string::String, .*ReplicatedValue>>::send$"):
                v = src_of_operand(g, t["args"][1], through_calls=TRANSPARENT)
                good = v.kind == "path" and v.fields[-2:] == ("replica_state", "replicated_keys") or (v.kind == "path" and v.fields[-1:] == ("replicated_keys",))
                ck.check(good, "R08.6", "GetSnapshot:whole-map" + _tag(cfg),
                         "the shard answers GetSnapshot with %s, not with a clone of its whole replicated_keys map" % v.path(), g.where(t["ln"]),
                         detail="replicated_keys.clone()")
    ck.check(bool(run) and good, "R08.6", "GetSnapshot:found" + _tag(cfg), "the GetSnapshot arm (send of the shard's map) was not found", None)


def _r087(ck, prog, cfg):
    fs = [f for f in prog.lib_fns() if re.search(r"streaming::compaction::Compactor::<S, T>::compact::\{closure#0\}$", f.id)]
    if len(fs) != 1:
        ck.anchor_lost("R08.7", "Compactor::compact not found")
        return
    f = fs[0]
    drops = [(g, t) for g in prog.with_children(f) for _, t in g.calls()
             if is_callee(t, r"HashMap::<std::string::String, .*ReplicationDelta.*>::(retain|remove|extract_if)(::<.*>)?$")]
    marks = []
    for name in ("streaming::manifest::Manifest", "streaming::manifest::SegmentInfo", "streaming::manifest::CheckpointInfo",
                 "streaming::recovery::RecoveredState"):
        adt = prog.adts.get(name)
        for v in (adt or {}).get("variants", []):
            for fld in v["fields"]:
                if "LamportClock" in fld["t"] or re.search(r"clock|high_water|max_stamp|lamport", fld["n"]):
                    marks.append("%s.%s" % (name.rsplit("::", 1)[-1], fld["n"]))
    if not drops:
        ck.ok("R08.7", "compact:no-drop-site" + _tag(cfg), "compaction discards no folded delta")
        return
    g, t = drops[0]
    ck.check(bool(marks), "R08.7", "compact:tombstone-gc-drops-stamps" + _tag(cfg),
             "compaction removes deltas from the persisted state (%s at line %s) while nothing else persists the clock: after a restart from the "
             "compacted segments the shard clock is re-derived from what is left, so the node can stamp a new write below a DEL it issued "
             "before the restart and its peers refuse the acknowledged write (witness: witness/kf_witness_5.rs)"
             % (callee(t).rsplit("::", 1)[-1], t["ln"]), g.where(t["ln"]), detail="clock persisted in %s" % marks)


def _r088(ck, prog, cfg):
    fn = prog.one("production::replicated_state::ReplicatedShardedState::<T>::execute::{closure#0}")
    qs = [(b, t) for b, t in fn.calls() if is_callee(t, r"::queue_deltas$")]
    ws = [(b, t) for b, t in fn.calls() if is_callee(t, r"WalActorHandle::write_(durable|fire_and_forget)$")]
    ck.check(len(qs) >= 1 and len(ws) >= 1, "R08.8", "execute:sites" + _tag(cfg),
             "queue_deltas / WAL write sites not found in ReplicatedShardedState::execute (%d, %d)" % (len(qs), len(ws)), fn.where())
    for k, (qb, qt) in enumerate(qs):
        later = [wt for wb, wt in ws if wb in fn.reach([qb])]
        ck.check(not later, "R08.8", "execute:gossip-after-wal#%d%s" % (k, _tag(cfg)),
                 "a delta is handed to gossip (line %s) before it is written to the WAL (line %s): peers can hold a stamp that a crash makes "
                 "this node forget, so a write acknowledged after the restart can be stamped at or below it" % (qt["ln"], later[0]["ln"] if later else "?"),
                 fn.where(qt["ln"]), detail="queue_deltas only after the WAL write")


# ------------------------------------------------------------------------------------------------
COVER_TEXT = ("a checkpoint covers exactly what its snapshot saw: the `last_segment_id` that CheckpointManager::create_checkpoint writes into the "
              "checkpoint and reports back (recovery skips every segment up to it) is the id its caller passed in together with the state - "
              "never a value re-read from the manifest at write time: a segment flushed between the snapshot and the write holds stamps the "
              "snapshot lacks, and declaring it covered makes recovery rebuild the clocks without them")


def r0811(ck, prog, cfg, rid):
    fs = [f for f in prog.lib_fns() if re.search(r"CheckpointManager::<.*>::create_checkpoint::\{closure#0\}$", f.id)]
    if not fs:
        ck.anchor_lost(rid, "CheckpointManager::create_checkpoint not found")
        return
    n = 0
    for f in fs:
        cap = {x["n"] for x in f.names if x["pl"].get("l") == 1 and x["pl"].get("p")}       # captured parameters of the async fn
        sinks = []
        for b, t in f.calls():
            if is_callee(t, r"CheckpointWriter::write$") and len(t["args"]) >= 4:
                sinks.append(("CheckpointWriter::write", t["args"][3], t["ln"]))
        adt = prog.adts.get("streaming::checkpoint::CheckpointResult")
        idx = [i for i, x in enumerate(adt["variants"][0]["fields"]) if x["n"] == "last_segment_id"] if adt else []
        for b, i, st in f.stmts():
            rv = st["rv"]
            if rv["k"] == "agg" and str(rv.get("n", "")).endswith("checkpoint::CheckpointResult") and idx and len(rv.get("ops", [])) > idx[0]:
                sinks.append(("CheckpointResult.last_segment_id", rv["ops"][idx[0]], st["ln"]))
        for k, (what, o, ln) in enumerate(sinks):
            n += 1
            s_ = src_of_operand(f, o)
            ok = s_.kind == "path" and s_.root == "last_segment_id" and "last_segment_id" in cap and not s_.fields
            ck.check(ok, rid, "create_checkpoint:%s%s" % (what, _tag(cfg)),
                     "create_checkpoint records a covered range (%s) that is not the `last_segment_id` its caller passed in with the snapshot (%s)"
                     % (what, s_.path()), f.where(ln), detail="the parameter itself")
    ck.floor(rid + _tag(cfg), n, 2)


# ------------------------------------------------------------------------------------------------
TICK_TEXT = ("every stamped mutation takes a fresh tick: the register mutators that stamp with the node clock (LwwRegister::set / delete, anything of "
             "LwwRegister that receives `&mut LamportClock`) call tick() on every path to their return and store its result, and a register built "
             "inside a function that holds the node clock (`LwwRegister::with_value(v, stamp)`) is given the result of tick(), never a copy of the "
             "clock as it stands: a mutation that re-uses the previous stamp ties with the write before it (peers keep the old value), and a "
             "mutator that skips the tick leaves the inner stamp behind the outer one its caller copies afterwards")
LWW = "replication::lattice::LwwRegister"


def r0812(ck, prog, cfg, rid):
    n = 0
    for fn in prog.lib_fns():
        if "::tests::" in fn.id:
            continue
        cl = [ai for ai in range(1, fn.d["argc"] + 1) if fn.locals[ai] == "&mut " + CLOCK]
        if not cl:
            continue
        if (fn.d.get("impl_self") or "").startswith(LWW) and fn.kind == "method":
            ticks = [b for b, t in fn.calls() if is_callee(t, r"LamportClock::tick$")]
            n += 1
            ok = bool(ticks) and all(any(fn.dominates(tb, e) for tb in ticks) for e in fn.exits())
            ck.check(ok, rid, "%s:ticks-on-every-path%s" % (fn.id.replace("replication::lattice::", ""), _tag(cfg)),
                     "%s can return without having taken a tick: the mutation keeps an old inner stamp while its caller copies the clock into the "
                     "outer stamp (inner < outer: same-type merges decide by the one, type conflicts by the other), or re-uses a stamp" % fn.short,
                     fn.where(), detail="tick() dominates every return")
        # registers built with an explicit stamp while the node clock is at hand
        for b, t in fn.calls():
            if is_callee(t, r"LwwRegister::<.*>::with_value$|LwwRegister<.*>::with_value$") and len(t["args"]) >= 2:
                n += 1
                s_ = src_of_operand(fn, t["args"][1])
                good = s_.kind == "call" and is_callee(s_.term, r"LamportClock::tick$")
                ck.check(good, rid, "%s:with_value-stamp#%d%s" % (fn.id.replace("replication::", ""), n, _tag(cfg)),
                         "a register is built with the stamp %s inside a function that holds the node clock: a copy of the clock is the stamp of the "
                         "previous write, so this write ties with it" % s_.path(), fn.where(t["ln"]), detail="stamp = clock.tick()")
    ck.floor(rid + _tag(cfg), n, 2)
