"""C17 — a failing command changes nothing; a read-only command changes nothing."""
from .facts import callee
import re
from .lib import is_callee, switch_info, src_of_operand, TRANSPARENT
from . import effects, lib2

EXEC = "redis::executor::CommandExecutor"


def _tag(cfg):
    return "" if cfg == "default" else "@" + cfg


def run(ck, ctx):
    ck.rule("R17.1", "every Command variant for which Command::is_read_only can return true dispatches (CommandExecutor::execute) "
                     "only to handlers with no visible write site in their transitive closure (writes = mutation of data / "
                     "expirations or of a stored value; the lazy-expiry purge in get_value* is invisible by design)")
    ck.rule("R17.2", "no write before an error return: in every handler no construction of an error reply is reachable (CFG, incl. "
                     "loop back edges) from a visible write site")
    ck.rule("R17.4", "connection-level rejections never reach execution: in try_execute_command the ACL-denied and parse-error arms "
                     "do not call state.execute")
    ck.nd("scripts (EVAL/EVALSHA): effects happen inside mlua callbacks; Redis itself keeps partial effects of a failing script")
    ck.rule("R17.5", "no write after the error reply was chosen: a visible write site reachable from the construction of an error reply "
                     "(the clean-up step that follows the `match`) must be excluded on that path by the types: it is guarded by "
                     "`value is variant V` while the error was chosen under `value is not V`")
    ck.rule("R17.6", "EXEC refuses before it replays: in execute_exec (executor) no error reply of EXEC itself is constructed at or "
                     "after the point where the queued commands start being executed (a refusal decided in the middle of the replay "
                     "answers an error while the commands before it have taken effect)")
    ck.assume("a variant classified read-only under *some* field condition is required to have a write-free handler "
              "(no correlation between pattern fields and handler branches)")
    ck.rule("R17.8", "a reply borrowed from another handler is checked before anything is written: when a handler obtains a RespValue from a sibling "
                     "handler (GETEX built on GET, SETNX on SET ..) and can return it, every write site it reaches after that call lies behind a test of "
                     "the reply that excludes its Error variant - otherwise the sibling's WRONGTYPE/ERR is passed on after the option has been applied "
                     "(GETEX list PERSIST answers WRONGTYPE and drops the TTL)")
    ck.rule("R17.7", "the shard router never has to undo: in ShardedActorState no function sends a shard a *mutating* command it built itself "
                     "(LPOP, RPUSH, SET ..: a Command variant outside is_read_only) and afterwards sends another command whose reply it can "
                     "return to the client - if the later step fails the earlier mutation has happened, and a compensating write does not restore "
                     "the state exactly (a popped single-element list loses its key and TTL before it is pushed back). Fan-out loops that send the "
                     "client's own command or its per-shard slices are not affected")
    for cfg in ctx.configs:
        prog = ctx.prog(cfg)
        ck.configs.append(cfg)
        ck.fn_count += len(prog.fns)
        writers = effects.writer_set(prog)
        _r171(ck, prog, cfg, writers)
        _r172(ck, prog, cfg, writers)
        _r174(ck, prog, cfg)
        _r175(ck, prog, cfg, writers)
        _r176(ck, prog, cfg)
        _r177(ck, prog, cfg)
        _r178(ck, prog, cfg, writers)


def read_only_variants(prog):
    fn = prog.one("redis::command::Command::is_read_only")
    adt = prog.adts["redis::command::Command"]
    names = [v["n"] for v in adt["variants"]]
    sw = None
    for b in sorted(fn.reachable_blocks()):
        si = switch_info(fn, b)
        if si and si["kind"] == "discr" and si["ty"] == "redis::command::Command":
            sw = b
            break
    if sw is None:
        return None
    t = fn.term(sw)
    true_blocks = set()
    for b, i, st in fn.stmts():
        if st["lhs"] == {"l": 0} and st["rv"]["k"] == "use" and st["rv"]["a"].get("c") == "true":
            true_blocks.add(b)
    out = set()
    listed = set()
    for v, tg in t["cases"]:
        listed.add(int(v))
        if tg in true_blocks or ({tg} | fn.reach([tg])) & true_blocks:
            out.add(names[int(v)])
    et = t["else"]
    if et in true_blocks or ({et} | fn.reach([et])) & true_blocks:
        for i, n in enumerate(names):
            if i not in listed:
                out.add(n)
    return out


def _r171(ck, prog, cfg, writers):
    ro = read_only_variants(prog)
    if ro is None:
        ck.anchor_lost("R17.1", "Command::is_read_only has no discriminant switch")
        return
    ex = prog.one(EXEC + "::execute")
    sw, table = effects.dispatch_table(prog, ex)
    if sw is None:
        ck.anchor_lost("R17.1", "CommandExecutor::execute has no dispatch switch over Command")
        return
    n = 0
    for v in sorted(ro):
        n += 1
        calls = table.get(v, [])
        bad = []
        for t in calls:
            c = prog.local_callee(ex, t)
            if c is not None and c.id in writers and c.short not in effects.EXEMPT_METHODS:
                bad.append(c.short)
        # writes directly inside the arm
        ck.check(not bad, "R17.1", "read-only:%s%s" % (v, _tag(cfg)),
                 "Command::%s is classified read-only but its handler %s can write the keyspace" % (v, sorted(set(bad))),
                 ex.where(calls[0]["ln"]) if calls else ex.where(),
                 detail="handlers %s are write-free" % sorted({(prog.local_callee(ex, t).short) for t in calls if prog.local_callee(ex, t) is not None}))
    ck.floor("R17.1" + _tag(cfg), n, 40)
    ck.extra.setdefault("read_only_variants", sorted(ro))
    ck.extra.setdefault("writer_methods", len(writers))


# stated "cannot happen" arms, confirmed by reading (one line of reason each)
BELIEFS = {
    ("execute_setbit", '"ERR internal error: expected string value"'):
        "the key was just verified to hold a string or created as one in the same function",
}

SKIP_HANDLERS = ("execute", "execute_read", "execute_eval", "execute_evalsha", "execute_script", "execute_exec")


def _r172(ck, prog, cfg, writers):
    n = 0
    for m in effects.executor_methods(prog):
        if m.short in effects.EXEMPT_METHODS or m.short in SKIP_HANDLERS:
            continue
        if not m.file.startswith("src/redis/executor/"):
            continue
        if m.file.endswith("script_ops.rs") or m.file.endswith("transaction_ops.rs"):
            continue
        for f in prog.with_children(m):
            ws = effects.write_sites(prog, f, writers)
            if not ws:
                continue
            errs = effects.error_sites(f)
            if not errs:
                continue
            n += 1
            hits = []
            for w in ws:
                region = f.reach([w["b"]])
                # a fallible data-structure method that validates before it mutates: its own Err edge is not "after a write"
                if w["kind"] == "value" and w["t"] is not None and "p" not in w["t"]["dest"]:
                    c = prog.local_callee(f, w["t"])
                    if c is not None and effects.validates_before_mutating(prog, c):
                        edges = lib2.ok_edges(f, w["t"]["dest"]["l"])
                        if edges:
                            region = set()
                            for (swb, okt, errt) in edges:
                                region |= {okt} | f.reach([okt], avoid=[swb])
                for eb, eln, etxt in errs:
                    if eb in region and (f.short, etxt) not in BELIEFS:
                        hits.append((w, eln, etxt))
            if hits:
                w, eln, etxt = hits[0]
                ck.bad("R17.2", "%s%s" % (f.id.replace("redis::executor::", ""), _tag(cfg)),
                       "an error reply (%s, line %d) can be returned after the keyspace was already written (%s at line %d): the "
                       "failing command leaves a partial effect" % (etxt, eln, w["what"], w["ln"]), f.where(w["ln"]),
                       all_pairs=[(x[0]["what"], x[0]["ln"], x[1]) for x in hits][:10])
            else:
                ck.ok("R17.2", "%s%s" % (f.id.replace("redis::executor::", ""), _tag(cfg)),
                      "%d write sites, %d error sites, no error reachable after a write" % (len(ws), len(errs)))
    # commands implemented inline in the dispatch arms of `execute` (e.g. SORT): same rule per arm
    ex = prog.one(EXEC + "::execute")
    sw, table = effects.dispatch_table(prog, ex)
    arms = {}
    if sw is not None:
        t = ex.term(sw)
        adt = prog.adts["redis::command::Command"]
        names = [v["n"] for v in adt["variants"]]
        for v, tg in t["cases"]:
            arms.setdefault(tg, []).append(names[int(v)])
    ws_all = effects.write_sites(prog, ex, writers)
    errs_all = effects.error_sites(ex)
    for tg, vs in sorted(arms.items()):
        if ex.pred(tg) != [sw]:
            continue
        arm = {x for x in ex.reachable_blocks() if ex.dominates(tg, x)}
        ws = [w for w in ws_all if w["b"] in arm and w["kind"] != "call"]
        errs = [e for e in errs_all if e[0] in arm]
        if not ws or not errs:
            continue
        n += 1
        hits = []
        for w in ws:
            region = ex.reach([w["b"]]) & arm
            for eb, eln, etxt in errs:
                if eb in region:
                    hits.append((w, eln, etxt))
        key = "execute[%s]%s" % ("|".join(sorted(vs)), _tag(cfg))
        if hits:
            w, eln, etxt = hits[0]
            ck.bad("R17.2", key, "an error reply (%s, line %d) can be returned after the keyspace was already written (%s at line %d): "
                   "the failing command leaves a partial effect" % (etxt, eln, w["what"], w["ln"]), ex.where(w["ln"]))
        else:
            ck.ok("R17.2", key, "%d write sites, %d error sites in the arm, no error reachable after a write" % (len(ws), len(errs)))
    ck.floor("R17.2" + _tag(cfg), n, 27)


def _r174(ck, prog, cfg):
    fn = prog.one("production::connection_optimized::OptimizedConnectionHandler::<S>::try_execute_command::{closure#0}")
    execs = [(b, t) for b, t in fn.calls() if is_callee(t, r"ShardedActorState::<T>::execute$")]
    acl = [(b, t) for b, t in fn.calls() if is_callee(t, r"check_acl_permission$")]
    ck.check(len(acl) >= 1, "R17.4", "acl-check-exists" + _tag(cfg), "check_acl_permission call not found", fn.where())
    for ab, at in acl:
        edges = lib2.ok_edges(fn, at["dest"]["l"])
        for (swb, okt, errt) in edges:
            region = {errt} | fn.reach([errt], avoid=[swb])
            okreg = {okt} | fn.reach([okt], avoid=[swb])
            leak = [b for b, t in execs if b in region and b not in okreg]
            ck.check(not leak, "R17.4", "acl-denied-does-not-execute" + _tag(cfg),
                     "a command denied by the ACL check is still executed", fn.where(at["ln"]), detail="Err edge reaches no state.execute")
    # the generic execute in the non-transaction default arm is dominated by the ACL Ok edge
    dom = 0
    for eb, et in execs:
        for ab, at in acl:
            if lib2.dominated_by_ok(fn, ab, eb, awaited=False):
                dom += 1
    ck.check(dom >= 1, "R17.4", "execute-after-acl-ok" + _tag(cfg), "no state.execute call is guarded by the ACL check", fn.where(),
             detail="%d execute site(s) dominated by ACL Ok" % dom)


def _vguards(prog, f, b, depth=0):
    """variants of redis::data::Value known (pos) / excluded (neg) at block b, seen through `matches!`-style flag variables"""
    from .facts import op_place
    names = [v["n"] for v in prog.adts["redis::data::value::Value"]["variants"]]
    pos, neg = set(), set()
    for g in lib2.guards(f, b):
        si = g["si"]
        if not si:
            continue
        if si["kind"] == "discr" and si["ty"] == "redis::data::value::Value":
            if g["value"] == "else":
                neg |= {names[int(v)] for v in g["neg_values"]}
            else:
                pos.add(names[int(g["value"])])
        elif si["kind"] == "val" and lib2.guard_is_true(g) and si.get("local") is not None and depth < 2:
            defs = f.defs().get(si["local"], [])
            if len(defs) == 1 and defs[0][2] == "assign" and defs[0][3]["k"] == "use" and "c" not in defs[0][3]["a"]:
                pl = op_place(defs[0][3]["a"])
                if pl is not None and "p" not in pl:
                    defs = f.defs().get(pl["l"], [])
            trues = [d for d in defs if d[2] == "assign" and d[3]["k"] == "use" and d[3]["a"].get("c", "").strip() in ("const true", "true")]
            others = [d for d in defs if d not in trues]
            if trues and all(d[2] == "assign" and d[3]["k"] == "use" and d[3]["a"].get("c", "").strip() in ("const false", "false") for d in others):
                ps = None
                for d in trues:
                    p2, _ = _vguards(prog, f, d[0], depth + 1)
                    ps = p2 if ps is None else ps & p2
                pos |= (ps or set())
    return pos, neg


def _r175(ck, prog, cfg, writers):
    from . import c01
    meths = effects.executor_methods(prog)
    n = 0
    for m, f in c01._bodies(prog, meths):
        es = effects.error_sites(f)
        if not es:
            continue
        ws = effects.write_sites(prog, f, writers)
        for k, (eb, ln, txt) in enumerate(es):
            epos, eneg = _vguards(prog, f, eb)
            for w in ws:
                if w["b"] not in f.reach([eb]):
                    continue
                if f.short in effects.EXEMPT_METHODS:
                    continue
                n += 1
                wpos, wneg = _vguards(prog, f, w["b"])
                if not wpos and w["kind"] == "call" and w["t"] is not None:
                    # a private helper: it writes only under the value variants that guard every one of its own write sites
                    h = prog.local_callee(f, w["t"])
                    if h is not None and h is not f and not h.short.startswith("execute"):
                        hw = effects.write_sites(prog, h, writers)
                        sets = [_vguards(prog, h, x["b"])[0] for x in hw]
                        if sets and all(sets):
                            wpos = set.intersection(*sets) if len({frozenset(x) for x in sets}) == 1 else set()
                excluded = bool(wpos & eneg) or bool(wpos and epos and not (wpos & epos))
                ck.check(excluded, "R17.5", "%s:error#%d->%s%s" % (f.short, k, w["what"].rsplit("::", 1)[-1], _tag(cfg)),
                         "after the error reply %s was chosen (line %s) the handler can still write (%s at line %s) and nothing ties that write "
                         "to a value type the error path excludes: a command that answers with an error changes the keyspace"
                         % (txt[:48], ln, w["what"].rsplit("::", 1)[-1], w["ln"]), f.where(w["ln"]), detail="write guarded by the variant the error arm excludes")
    ck.floor("R17.5" + _tag(cfg), n, 6)


def _r176(ck, prog, cfg):
    fs = [m for m in effects.executor_methods(prog) if m.short == "execute_exec"]
    if len(fs) != 1:
        ck.anchor_lost("R17.6", "execute_exec not found exactly once")
        return
    f = fs[0]
    replayers = {c.id for c in prog.children(f) if any(is_callee(t, r"CommandExecutor::execute$") for _, t in c.calls())}
    starts = [b for b, t in f.calls() if is_callee(t, r"CommandExecutor::execute$")]
    for b, i, st in f.stmts():
        rv = st["rv"]
        if rv["k"] == "agg" and rv.get("n") in replayers:
            starts.append(b)
    ck.check(bool(starts), "R17.6", "execute_exec:replay-found" + _tag(cfg), "the replay of the queued commands was not found in execute_exec", f.where())
    if not starts:
        return
    region = set(starts) | f.reach(starts)
    late = [(eb, eln, etxt) for eb, eln, etxt in effects.error_sites(f) if eb in region]
    ck.check(not late, "R17.6", "execute_exec:no-refusal-after-replay-started" + _tag(cfg),
             "EXEC can answer an error (%s, line %s) after queued commands have been executed: the transaction is reported as refused "
             "while part of it has taken effect" % ((late[0][2], late[0][1]) if late else ("", "")), f.where(late[0][1] if late else None),
             detail="%d error sites, all before the replay" % len(effects.error_sites(f)))


# ------------------------------------------------------------------------------------------------
def _built_variants(f, operand, depth=0):
    """Command variants a command operand can have been built as inside f (through multi-definition locals and closures' results)"""
    out = set()
    s_ = src_of_operand(f, operand, through_calls=TRANSPARENT + (r"Clone>::clone$",))
    if s_.kind == "agg" and str(s_.rv.get("n", "")).startswith("redis::command::Command::"):
        out.add(s_.rv["n"].rsplit("::", 1)[-1])
    elif s_.kind in ("multi", "path") and s_.local is not None and s_.local > f.d["argc"] and depth < 3:
        for d in f.defs().get(s_.local, []):
            if d[2] == "assign" and d[3]["k"] == "agg" and str(d[3].get("n", "")).startswith("redis::command::Command::"):
                out.add(d[3]["n"].rsplit("::", 1)[-1])
            elif d[2] == "assign" and d[3]["k"] == "use" and "c" not in d[3]["a"]:
                out |= _built_variants(f, d[3]["a"], depth + 1)
            elif d[2] == "call":
                out.add("?call:" + (callee(d[3]) or "").rsplit("::", 1)[-1])
    elif s_.kind == "call":
        out.add("?call:" + (callee(s_.term) or "").rsplit("::", 1)[-1])
    return out


def _r177(ck, prog, cfg):
    ro = read_only_variants(prog)
    n = 0
    for f in prog.lib_fns():
        if f.file != "src/production/sharded_actor.rs" or "ShardedActorState" not in f.id or "::tests::" in f.id:
            continue
        ex = [(b, t) for b, t in f.calls() if is_callee(t, r"ShardHandle::execute$") and len(t["args"]) >= 2]
        if not ex:
            continue
        n += 1
        # closures that build commands for this function (the `push` helper closure of a router arm)
        kid_variants = set()
        for k_ in prog.children(f):
            for b, i, st in k_.stmts():
                if st["rv"]["k"] == "agg" and str(st["rv"].get("n", "")).startswith("redis::command::Command::"):
                    kid_variants.add(st["rv"]["n"].rsplit("::", 1)[-1])
        built = {}
        for b, t in ex:
            vs = _built_variants(f, t["args"][1])
            if any(v.startswith("?call:") for v in vs):
                vs = {v for v in vs if not v.startswith("?call:")} | kid_variants
            built[b] = vs
        k = 0
        for b1, t1 in ex:
            w = sorted(v for v in built[b1] if v not in ro)
            if not w:
                continue
            later = [(b2, t2) for b2, t2 in ex if b2 != b1 and b2 in f.reach([b1])]
            for b2, t2 in later:
                ck.bad("R17.7", "%s:write(%s)-then-send#%d%s" % (re.sub(r"::\{closure#\d+\}", "", f.id).rsplit("::", 1)[-1], "|".join(w)[:40], k, _tag(cfg)),
                       "the router sends the mutating command %s to a shard (line %s) and afterwards another command (line %s) whose failure it reports "
                       "to the client: the first mutation stands (or is undone inexactly) although the command answered an error"
                       % ("/".join(w), t1["ln"], t2["ln"]), f.where(t2["ln"]))
                k += 1
    ck.check(n >= 3, "R17.7", "router-functions-scanned" + _tag(cfg), "only %d ShardedActorState functions with shard sends were found" % n, None,
             detail="%d functions of ShardedActorState send commands to shards; none builds a mutating command and sends again afterwards" % n)


# ------------------------------------------------------------------------------------------------
def _r178(ck, prog, cfg, writers):
    from .facts import op_local
    from .lib import edge_targets
    meths = effects.executor_methods(prog)
    ids = {m.id for m in meths if m.locals and m.locals[0] == "redis::resp::RespValue"}
    adt = prog.adts.get("redis::resp::RespValue")
    err_idx = [i for i, v in enumerate(adt["variants"]) if v["n"] == "Error"][0] if adt else None
    n = 0
    for f in meths:
        for b, t in f.calls():
            if callee(t) not in ids or callee(t) == f.id or "p" in t["dest"]:
                continue
            d = t["dest"]["l"]
            flows = d == 0 or any(st["lhs"] == {"l": 0} and st["rv"]["k"] == "use" and op_local(st["rv"]["a"]) == d for _, _, st in f.stmts())
            if not flows:
                continue
            n += 1
            ws = [w for w in effects.write_sites(prog, f, writers) if w["b"] in f.reach([b]) and not str(w["what"]).startswith("evict_expired")]
            bad = []
            for w in ws:
                safe = False
                for sb in sorted(f.reachable_blocks()):
                    si = switch_info(f, sb)
                    if si and si["kind"] == "discr" and si["place"].get("l") == d and not si["place"].get("p") and f.dominates(sb, w["b"]) and err_idx is not None:
                        et = edge_targets(f, sb, err_idx)
                        if w["b"] != et and w["b"] not in f.reach([et], avoid=[sb]):
                            safe = True
                if not safe:
                    bad.append(w)
            ck.check(not bad, "R17.8", "%s:reply-of(%s)%s" % (f.short, callee(t).rsplit("::", 1)[-1], _tag(cfg)),
                     "%s can return the reply of %s - possibly an error - after writing (%s) without having excluded the Error variant of that reply: "
                     "the command answers an error and has changed the keyspace" % (f.short, callee(t).rsplit("::", 1)[-1],
                                                                                   ", ".join("%s @%s" % (w["what"], w["ln"]) for w in bad[:3])),
                     f.where(t["ln"]), detail="writes after the call are behind `reply is not Error`")
    ck.ok("R17.8", "scan" + _tag(cfg), detail="%d borrowed replies among %d handlers" % (n, len(meths)))
