"""C11 — recovery returns exactly the merge of everything persisted: completeness clauses."""
import re
from .facts import callee, op_place, op_local
from .lib import src_of_operand, src_of_place, is_callee, TRANSPARENT, switch_info, edge_targets
from . import lib2

RM = "streaming::recovery::RecoveryManager::<S>::"
CHAIN_OK = (r"<impl \[.*SegmentInfo\]>::iter$", r"Vec::<.*SegmentInfo>::iter$", r"Iterator>::filter::", r"Iterator>::collect::<std::vec::Vec<&streaming::manifest::SegmentInfo>>$",
            r"IntoIterator>::into_iter$", r"Deref>::deref$", r"Iterator>::collect::<std::vec::Vec<&'?_? ?streaming::manifest::SegmentInfo>>$")


def _tag(cfg):
    return "" if cfg == "default" else "@" + cfg


def run(ck, ctx):
    ck.rule("R11.1", "no scalar filter on a multi-clock stream: recover_with_wal hands every intact WAL entry to the caller "
                     "(recover_entries_after is called with a constant 0 threshold or not at all); recover_entries_after itself examines "
                     "every entry of recover_all_entries and filters per entry only")
    ck.rule("R11.2", "every listed segment is loaded or the failure is returned: the segment list is manifest.segments, optionally "
                     "filtered by `id > checkpoint.last_segment_id` only when a checkpoint was loaded, collected into a Vec and sorted in "
                     "place (no keyed collection that could collapse entries); load_segment failures propagate")
    ck.rule("R11.3", "ingest by merge: recovered checkpoint entries are installed only by apply_recovered_state (checkpoint first, then "
                     "deltas through the merging apply_remote_delta); no other caller of the plain-insert path exists")
    ck.rule("R11.5", "WAL deltas are appended to the recovered deltas on every path of recover_with_wal")
    ck.rule("R11.6", "every persisted piece is replayed: the WAL replay visits every file (the per-file loop has no early exit), and every "
                     "entry of the recovered checkpoint - tombstones included - is stored into the shard's replication state before the "
                     "deltas are merged onto it")
    ck.nd("equality with the ground-truth merge for all partitions of updates; order independence is delegated to C07")
    ck.rule("R11.7", "every recovered delta is stored: recovery enters the node through the remote-delta ingest (apply_recovered_state -> "
                     "apply_remote_deltas -> apply_remote_delta_impl -> ShardReplicaState::apply_remote_delta); that path reaches the ingest "
                     "on every path and the ingest stores the (merged) value on every path - no early return for a delta that 'looks "
                     "redundant' (own replica id, stamp below the clock, tombstone for an unknown key): after a restart every recovered "
                     "delta is own-origin and the clock is rebuilt in replay order (shared with C06 R06.3 / C08 R08.5)")
    ck.rule("R11.8", "the WAL part of recovery returns every intact entry: entries are yielded only after length and CRC validation, a file "
                     "ends at its first undecodable entry and an unreadable file is skipped, not fatal (shared with C10 R10.1 / R10.3)")
    ck.rule("R11.9", "recovery is a fold of lattice joins: every merge function recovered updates pass through is certified commutative and "
                     "idempotent by shape (the C07 certificate R07.0-R07.2, shared; the type-change associativity hazard R07.3 stays "
                     "recorded with C07/C06) - segment order, duplicated updates and repeated recovery cannot change the result only if "
                     "the merge has these laws")
    from . import c07 as _c07
    _c07.certify(ck, rid=lambda r: "R11.9", floor_id="R11.9", skip_rules=("R07.3",))
    from . import c12 as _c12
    from . import c08 as _c08t, c10 as _c10t
    ck.rule("R11.11", _c08t.COVER_TEXT + " (shared with C08 R08.11: the segment declared covered is never replayed)")
    from . import c14 as _c14t
    ck.rule("R11.13", _c14t.READER_TEXT + " (shared with C14 R14.13)")
    from . import c12 as _c12it
    ck.rule("R11.14", _c12it.IDS_TEXT + " (shared with C12 R12.11)")
    ck.rule("R11.16", PREFIX_TEXT)
    ck.rule("R11.15", _c10t.JUDGE_TEXT + " (shared with C10 R10.11)")
    ck.rule("R11.12", _c10t.NAME_TEXT + " (shared with C10 R10.10)")
    ck.rule("R11.10", _c12.WRITER_TEXT + " (shared with C12 R12.8)")
    for cfg in ctx.configs:
        prog = ctx.prog(cfg)
        ck.configs.append(cfg)
        ck.fn_count += len(prog.fns)
        _c12.writer_rule(ck, prog, cfg, "R11.10")
        from . import c10 as _c10
        from .core import Alias as _Alias2
        _c10._r101(_Alias2(ck, "R10.1", "R11.8", skip=("R10.2",)), prog, cfg)
        _c10._r103(_Alias2(ck, "R10.3", "R11.8"), prog, cfg)
        _c10.r109(ck, prog, cfg, "R11.8")
        from . import c06, c08
        from .core import Alias
        c06._r063(Alias(ck, "R06.3", "R11.7"), prog, cfg)
        c08._r085(Alias(ck, "R08.5", "R11.7"), prog, cfg)
        _r111(ck, prog, cfg)
        _r112(ck, prog, cfg)
        _r113(ck, prog, cfg)
        c08.r0811(ck, prog, cfg, "R11.11")
        from . import c14 as _c14
        _c14.reader_rule(ck, prog, cfg, "R11.13")
        from . import c12 as _c12i
        _c12i.ids_rule(ck, prog, cfg, "R11.14")
        _c10.r1010(ck, prog, cfg, "R11.12")
        _c10.r1011(ck, prog, cfg, "R11.15")
        r1116(ck, prog, cfg, "R11.16")
        from . import c10
        c10.file_loop_rule(ck, prog, cfg, "R11.6")
        _r116(ck, prog, cfg)


def _r111(ck, prog, cfg):
    f = prog.one(RM + "recover_with_wal::{closure#0}")
    calls = [(b, t) for b, t in f.calls() if is_callee(t, r"WalRotator::<.*>::recover_entries_after$")]
    alls = [(b, t) for b, t in f.calls() if is_callee(t, r"WalRotator::<.*>::recover_all_entries$")]
    ck.check(len(calls) + len(alls) >= 1, "R11.1", "recover_with_wal:reads-wal" + _tag(cfg), "recover_with_wal no longer reads the WAL", f.where())
    for b, t in calls:
        th = src_of_operand(f, t["args"][1])
        ok = th.kind == "const" and re.match(r"^0_u64$", th.text or "") is not None
        ck.check(ok, "R11.1", "recover_with_wal:threshold" + _tag(cfg),
                 "WAL entries are filtered by one scalar high-water mark (%s = max over all segments) although stamps come from independent "
                 "per-shard Lamport clocks: an unflushed entry of a slow shard stamped below another shard's flushed stamp is dropped"
                 % th.path(), f.where(t["ln"]), detail="threshold is the constant 0 (replay everything; merge is idempotent)")
    # extend on all paths (only an emptiness test may skip it)
    ext = [(b, t) for b, t in f.calls() if is_callee(t, r"Extend<.*ReplicationDelta>>::extend", r"Vec::<.*ReplicationDelta>::(extend|append)")]
    ck.check(len(ext) >= 1, "R11.5", "recover_with_wal:extends" + _tag(cfg), "WAL deltas are not appended to the recovered deltas", f.where())
    for cb, ct in (calls + alls)[:1]:
        exempt = set()
        for sb in f.reachable_blocks():
            si = switch_info(f, sb)
            if si and si["kind"] == "val" and si["src"] is not None:
                s = si["src"]
                neg = False
                if s.kind == "rv" and s.rv["k"] == "un" and s.rv["op"] == "Not":
                    s = src_of_operand(f, s.rv["a"])
                    neg = True
                if s.kind == "call" and is_callee(s.term, r"Vec::<.*ReplicationDelta>::is_empty$"):
                    tt, ft = lib2.bool_edges(f, sb)
                    exempt.add((sb, ft if neg else tt))
        # start after the `?` on the WAL result
        vals, _ = lib2.value_aliases(f, ct["dest"]["l"], through=(r"Result::<.*>::map_err",))
        starts = []
        for v in vals:
            starts += [okt for (swb, okt, errt) in lib2.ok_edges(f, v)]
        starts = starts or [cb]
        extb = {b for b, _ in ext}
        for st in starts[-1:]:
            path = lib2.path_avoiding(f, st, lambda x: f.term(x)["k"] == "return", lambda x: x in extb, exempt, from_succ=False)
            ck.check(path is None, "R11.5", "recover_with_wal:extend-on-all-paths" + _tag(cfg),
                     "some path returns the recovered state without the WAL deltas", f.where(ct["ln"]), detail="extend unless empty")
    # recover_entries_after: per-entry filter over all entries
    g = prog.one("streaming::wal::WalRotator::<S>::recover_entries_after")
    ra = [(b, t) for b, t in g.calls() if is_callee(t, r"WalRotator::<S>::recover_all_entries$")]
    ck.check(len(ra) == 1, "R11.1", "recover_entries_after:source" + _tag(cfg), "recover_entries_after does not start from recover_all_entries", g.where())
    loops = [(b, t) for b, t in g.calls() if is_callee(t, r"IntoIterator>::into_iter$")]
    good = False
    why = "no loop over the entries"
    for lb, lt in loops:
        s = src_of_operand(g, lt["args"][0], through_calls=(r"Try>::branch$",))
        if s.kind == "call" and is_callee(s.term, r"recover_all_entries$"):
            good = True
        else:
            why = "the loop iterates %s, not the full entry list (a suffix/slice assumes stamps are monotone in append order)" % s.path()
    bad_calls = [callee(t).rsplit("::", 1)[-1] for b, t in g.calls() if is_callee(t, r"Iterator>::(rposition|position|skip|skip_while|take_while|rev)\b",
                                                                                   r"<impl \[.*\]>::(split_at|partition_point|binary_search)", r"Vec::<.*>::(split_off|drain|truncate)")]
    if bad_calls:
        good = False
        why = "entries are cut by position (%s) instead of being filtered one by one" % bad_calls
    ck.check(good, "R11.1", "recover_entries_after:examines-every-entry" + _tag(cfg),
             "recover_entries_after does not examine every WAL entry (%s): with interleaved shard clocks an entry after the cut with an "
             "older stamp, or before it with a newer one, is mis-filtered" % why, g.where(), detail="for entry in all entries { if ts >= t }")
    # the comparison may sit in the loop body or in a filter closure (captured threshold)
    cmps = [(h, st) for h in prog.with_children(g) for b, i, st in h.stmts() if st["rv"]["k"] == "bin" and st["rv"]["op"] in ("Ge", "Gt", "Le", "Lt")]
    okc = False
    bad_cmp = False

    def _thr(x):
        return x.kind == "path" and ((x.root or "") == "after_timestamp" or "after_timestamp" in (x.root or "") or "after_timestamp" in x.fields)
    for h, st in cmps:
        a, b2 = src_of_operand(h, st["rv"]["a"], through_calls=TRANSPARENT), src_of_operand(h, st["rv"]["b"], through_calls=TRANSPARENT)
        if st["rv"]["op"] == "Ge" and a.fields[-1:] == ("timestamp",) and _thr(b2):
            okc = True
        elif st["rv"]["op"] == "Le" and b2.fields[-1:] == ("timestamp",) and _thr(a):
            okc = True
        elif (_thr(a) and b2.fields[-1:] == ("timestamp",)) or (_thr(b2) and a.fields[-1:] == ("timestamp",)):
            bad_cmp = True
    okc = okc and not bad_cmp
    ck.check(okc, "R11.1", "recover_entries_after:comparator" + _tag(cfg),
             "the per-entry filter is not `entry.timestamp >= after_timestamp` (strictness matters: equal stamps are legal)", g.where(),
             detail="timestamp >= threshold")


def _chain(prog, fn, operand, depth=0, seen=None):
    """list of callee names between manifest.segments and `operand`; ('BAD', name) entries for disallowed steps"""
    seen = seen if seen is not None else set()
    out = []
    s = src_of_operand(fn, operand, through_calls=(r"Try>::branch$",))
    if depth > 12:
        return out
    if "segments" in s.fields:
        return [("ROOT", "manifest.segments")]
    if s.kind == "path":
        if "segments" in s.fields:
            out.append(("ROOT", s.path()))
        else:
            # a named variable with several definitions, or a parameter
            for (b, i, kind, payload) in fn.defs().get(s.local, []) if s.local is not None else []:
                if (s.local, b, i) in seen:
                    continue
                seen.add((s.local, b, i))
                if kind == "assign" and payload["k"] in ("use",):
                    out += _chain(prog, fn, payload["a"], depth + 1, seen)
                elif kind == "assign" and payload["k"] == "ref":
                    out += _chain(prog, fn, {"cp": payload["pl"]}, depth + 1, seen)
                elif kind == "call":
                    out += _chain_call(prog, fn, payload, depth, seen)
        return out
    if s.kind == "multi" and s.local is not None:
        for (b, i, kind, payload) in fn.defs().get(s.local, []):
            if (s.local, b, i) in seen:
                continue
            seen.add((s.local, b, i))
            if kind == "assign" and payload["k"] == "use":
                out += _chain(prog, fn, payload["a"], depth + 1, seen)
            elif kind == "call":
                out += _chain_call(prog, fn, payload, depth, seen)
        return out
    if s.kind == "call":
        return _chain_call(prog, fn, s.term, depth, seen)
    if s.kind == "agg":
        for o in s.rv["ops"]:
            if "c" not in o:
                out += _chain(prog, fn, o, depth + 1, seen)
    return out


def _chain_call(prog, fn, t, depth, seen):
    out = []
    c = prog.local_callee(fn, t)
    name = callee(t)
    if c is not None and c.file.startswith("src/streaming/recovery.rs"):
        # follow the helper's return value
        out.append(("HELPER", c.id))
        body = c
        kids = prog.children(c)
        for (b, i, kind, payload) in body.defs().get(0, []):
            if kind == "assign" and payload["k"] == "use":
                out += _chain(prog, body, payload["a"], depth + 1, set())
            elif kind == "call":
                out += _chain_call(prog, body, payload, depth + 1, set())
        return out
    if is_callee(t, *CHAIN_OK):
        out.append(("OK", name))
    else:
        out.append(("BAD", name))
    if t["args"]:
        out += _chain(prog, fn, t["args"][0], depth + 1, seen)
    return out


def _checkpoint_read_propagates(raw, entry, depth=0):
    """{found: n, steps: [(step name, propagates all the way to `entry`'s Err return?, where)]} for the checkpoint read reachable from entry"""
    out = {"found": 0, "steps": []}
    if depth > 3:
        return out
    for b, t in entry.calls():
        step = None
        if is_callee(t, r"checkpoint::CheckpointReader(::<.*>)?::(open|load|validate)$"):
            step = callee(t).rsplit("::", 1)[-1]
            okp = lib2.error_propagates(entry, t)
        elif is_callee(t, r"ObjectStore>::get$") and len(t["args"]) > 1:
            k = src_of_operand(entry, t["args"][1], through_calls=TRANSPARENT + (r"Deref>::deref$", r"String::as_str$"))
            if "checkpoint" in k.fields or (k.kind == "path" and "checkpoint" in (k.root or "")) or \
                    (k.kind == "path" and k.fields[-1:] == ("key",) and "CheckpointInfo" in str(entry.locals[k.local] if k.local is not None else "")):
                step = "get"
                okp = lib2.awaited_error_propagates(entry, b)
        if step:
            out["found"] += 1
            out["steps"].append((step, okp, entry.where(t["ln"])))
            continue
        # a helper of recovery.rs on the way: its own steps must propagate inside it, and this call must propagate its result
        c = raw.local_callee(entry, t)
        if c is not None and c.kind in ("fn", "method") and c.file == entry.file and c.id != entry.id and "RecoveryManager" in c.id:
            body = raw.fns.get(c.id + "::{closure#0}") if raw.fns.get(c.id + "::{closure#0}") is not None and raw.fns[c.id + "::{closure#0}"].kind == "coroutine" else c
            inner = _checkpoint_read_propagates(raw, body, depth + 1)
            if inner["found"]:
                up = lib2.awaited_error_propagates(entry, b) if body is not c else lib2.error_propagates(entry, t)
                out["found"] += inner["found"]
                for step, okp, where in inner["steps"]:
                    out["steps"].append((step, okp and up, where if not okp else entry.where(t["ln"])))
    return out


def _r112(ck, prog, cfg):
    n = 0
    for name in ("recover::{closure#0}", "recover_with_progress::{closure#0}"):
        f = prog.one(RM + name)
        short = name.split("::")[0]
        # a checkpoint the manifest names is read or recovery fails: the segments it covers are no longer listed, so treating a
        # failed read as "no checkpoint" silently drops every update only the checkpoint holds.  Decided on the un-inlined program:
        # each read step propagates its error inside the function that holds it, and every call on the way up to this entry does too.
        raw = getattr(prog, "base", prog)
        entry = raw.one(RM + name)
        res = _checkpoint_read_propagates(raw, entry)
        ck.check(res["found"] >= 3, "R11.2", "%s:checkpoint-read-found%s" % (short, _tag(cfg)),
                 "the read of the manifest's checkpoint (get + CheckpointReader::open/validate/load) was not found from %s" % short, f.where())
        for step, okp, where in res["steps"]:
            ck.check(okp, "R11.2", "%s:checkpoint-%s-error-propagates%s" % (short, step, _tag(cfg)),
                     "a checkpoint that cannot be read (%s fails) does not fail recovery: recovery continues as if there were no checkpoint "
                     "and returns Ok without the updates only the checkpoint holds" % step, where, detail="error of %s -> Err return of recovery" % step)
        loads = [(b, t) for b, t in f.calls() if is_callee(t, r"RecoveryManager::<S>::load_segment$")]
        ck.check(len(loads) == 1, "R11.2", "%s:load-call%s" % (short, _tag(cfg)), "load_segment call not found exactly once", f.where())
        for lb, lt in loads:
            n += 1
            ck.check(lib2.awaited_error_propagates(f, lb), "R11.2", "%s:load-error-propagates%s" % (short, _tag(cfg)),
                     "a segment that fails to load is skipped instead of failing recovery: its updates silently vanish", f.where(lt["ln"]),
                     detail="load_segment(..).await? ")
            # every loaded segment's deltas are appended to the result (per iteration: no `continue` past the extend)
            exts = {b for b, t in f.calls() if is_callee(t, r"Extend<.*>>::extend$", r"Vec::<.*ReplicationDelta>::(extend|append|push)")}
            heads = lib2.loop_heads(f)
            aw = lib2.await_result(f, lb)
            mine = [h for h, (none_t, some_t, nb) in heads.items() if lb == some_t or lb in f.reach([some_t], avoid=[h])]
            if aw and mine and exts:
                errs = {x for x in f.reachable_blocks() if lib2._err_assign_block(f, x)}
                h = mine[0]
                none_t, some_t, nb = heads[h]
                skip = lib2.path_avoiding(f, aw[1], lambda x: x == nb or f.term(x)["k"] == "return", lambda x: x in exts or x in errs, (), from_succ=False)
                ck.check(skip is None, "R11.2", "%s:loaded-deltas-appended%s" % (short, _tag(cfg)),
                         "an iteration of the segment loop can finish without appending the deltas it loaded to the recovered state",
                         f.where(lt["ln"]), detail="all_deltas.extend(segment_deltas) on every path of the iteration")
            else:
                ck.bad("R11.2", "%s:loaded-deltas-appended%s" % (short, _tag(cfg)), "segment loop / extend of the loaded deltas not found", f.where(lt["ln"]))
            # the loop feeding load_segment: into_iter over segments_to_load
            arg = src_of_operand(f, lt["args"][1])
            it = None
            if arg.kind == "call" and is_callee(arg.term, r"Iterator>::next$"):
                recv = src_of_operand(f, arg.term["args"][0], through_calls=TRANSPARENT)
                it = recv
            chain = []
            if it is not None and it.kind == "call" and is_callee(it.term, r"IntoIterator>::into_iter$"):
                chain = _chain(prog, f, it.term["args"][0])
            elif it is not None and it.kind in ("multi", "path") and it.local is not None:
                for (b, i, kind, payload) in f.defs().get(it.local, []):
                    if kind == "assign" and payload["k"] == "use":
                        s2 = src_of_operand(f, payload["a"])
                        if s2.kind == "call" and is_callee(s2.term, r"IntoIterator>::into_iter$"):
                            chain = _chain(prog, f, s2.term["args"][0])
            bad = [nm for k, nm in chain if k == "BAD"]
            roots = [nm for k, nm in chain if k == "ROOT"]
            ck.check(bool(roots) and not bad, "R11.2", "%s:segment-list-provenance%s" % (short, _tag(cfg)),
                     "the list of segments to load is not manifest.segments -> [filter id > checkpoint] -> Vec (steps: %s): a keyed or "
                     "truncating step can drop listed segments (e.g. two segments with equal min_timestamp collapsing in a map)"
                     % ([nm.rsplit("::", 2)[-2:] for nm in bad] or "root not found"), f.where(lt["ln"]),
                     detail="chain: " + " <- ".join(nm.rsplit("::", 1)[-1] for k, nm in chain)[:200])
        # the filter is applied only when a checkpoint was loaded, and is `id > last_checkpoint_segment`
        for scope in [f] + [x for k, nm in [] for x in []]:
            pass
        filt = []
        owners = [f]
        for k, nm in ([] if not loads else _chain(prog, f, {"cp": {"l": 0}}) and []):
            pass
        for g in [f] + [h for h in prog.lib_fns() if h.file == "src/streaming/recovery.rs" and h.kind in ("fn", "method") and "segments" in h.short]:
            for b, t in g.calls():
                if is_callee(t, r"Iterator>::filter::"):
                    clo = src_of_operand(g, t["args"][1])
                    if clo.kind == "agg" and clo.rv["ak"] == "closure":
                        cf = prog.fns.get(clo.rv["n"])
                        filt.append((g, b, t, cf))
        for g, b, t, cf in filt:
            n += 1
            okp = False
            if cf is not None:
                cmps = [st["rv"] for bb, i, st in cf.stmts() if st["rv"]["k"] == "bin" and st["rv"]["op"] in ("Gt", "Lt", "Ge", "Le", "Eq", "Ne")]
                branches = [bb for bb in cf.reachable_blocks() if cf.term(bb)["k"] == "switch"]
                calls = [callee(t2) for bb, t2 in cf.calls()]
                # the predicate is exactly one comparison: `s.id > last_checkpoint_segment` (no further conjunct, no call)
                if len(cmps) == 1 and not branches and not calls and cmps[0]["op"] == "Gt":
                    a = src_of_operand(cf, cmps[0]["a"])
                    if a.fields[-1:] == ("id",):
                        okp = True
            ck.check(okp, "R11.2", "%s:filter-predicate%s" % (short, _tag(cfg)), "the segment filter is not exactly `s.id > last_checkpoint_segment` (any further condition, e.g. on stamp ranges, can skip a "
                     "listed segment whose updates the checkpoint does not contain: stamps come from independent per-shard clocks)",
                     g.where(t["ln"]), detail="filter(id > checkpoint id)")
            guarded = False
            for gd in lib2.guards(g, b):
                s = gd["src"]
                if s is not None and s.kind == "call" and is_callee(s.term, r"Option::<.*>::is_some$") and lib2.guard_is_true(gd):
                    guarded = True
            ck.check(guarded or g is not f, "R11.2", "%s:filter-only-with-checkpoint%s" % (short, _tag(cfg)),
                     "segments are filtered by checkpoint id although no checkpoint was loaded on this path (segments with id 0.. would be "
                     "skipped)", g.where(t["ln"]), detail="filter under checkpoint_state.is_some()")
    ck.floor("R11.2" + _tag(cfg), n, 4)
    # load_segment: validate before deltas; every step propagates
    ls = prog.one(RM + "load_segment::{closure#0}")
    val = [(b, t) for b, t in ls.calls() if is_callee(t, r"SegmentReader::validate$")]
    dl = [(b, t) for b, t in ls.calls() if is_callee(t, r"SegmentReader::deltas$")]
    ck.check(len(val) == 1 and len(dl) == 1 and lib2.dominated_by_ok(ls, val[0][0], dl[0][0], awaited=False), "R11.2",
             "load_segment:validate-before-deltas" + _tag(cfg), "segment deltas are read without a successful validate()", ls.where(),
             detail="validate()? dominates deltas()")
    col = [(b, t) for b, t in ls.calls() if is_callee(t, r"Iterator>::collect::<std::result::Result<")]
    ck.check(len(col) == 1 and lib2.error_propagates(ls, col[0][1]), "R11.2", "load_segment:decode-errors-propagate" + _tag(cfg),
             "a delta that fails to decode does not fail the segment load", ls.where(), detail="collect::<Result<Vec,_>>()?")


def _r113(ck, prog, cfg):
    callers = []
    for f in prog.fns.values():
        for b, t in f.calls():
            if is_callee(t, r"ReplicatedShardHandle::apply_recovered_state$"):
                callers.append(f.id)
    ck.check(sorted(set(callers)) == ["production::replicated_state::ReplicatedShardedState::<T>::apply_recovered_state"], "R11.3",
             "plain-insert-path-callers" + _tag(cfg),
             "the plain-insert recovery message is sent from %s: it must only be sent by apply_recovered_state (to an actor that is still "
             "empty), otherwise it overwrites merged state" % sorted(set(callers)), None, detail="single caller")
    ars = prog.one("production::replicated_state::ReplicatedShardedState::<T>::apply_recovered_state")
    dels = [(b, t) for b, t in ars.calls() if is_callee(t, r"ReplicatedShardedState::<T>::apply_remote_deltas$")]
    ck.check(len(dels) == 1 and all(ars.dominates(dels[0][0], e) for e in ars.exits()), "R11.3", "deltas-through-merge-path" + _tag(cfg),
             "recovered deltas are not always applied through apply_remote_deltas", ars.where(), detail="apply_remote_deltas on all paths")
    for db, dt in dels:
        a = src_of_operand(ars, dt["args"][1])
        ck.check(a.kind == "path" and a.local is not None and a.local <= ars.d["argc"] and not a.fields, "R11.3", "deltas-handed-over-as-recovered" + _tag(cfg),
                 "apply_recovered_state does not pass the recovered deltas to apply_remote_deltas as it received them (%s): picking, "
                 "collapsing or reordering them replaces the merge of all persisted updates of a key by one of them" % a.path(),
                 ars.where(dt["ln"]), detail="apply_remote_deltas(deltas) with the parameter itself")
    # the hop before: StreamingIntegration::recover hands RecoveredState.{checkpoint_state, deltas} over untouched
    integ = prog.one("streaming::integration::StreamingIntegration::<S>::recover::{closure#0}")
    hand = [(b, t) for b, t in integ.calls() if is_callee(t, r"ReplicatedShardedState::<.*>::apply_recovered_state$")]
    ck.check(len(hand) == 1, "R11.3", "integration:hands-over" + _tag(cfg), "StreamingIntegration::recover does not call apply_recovered_state exactly once", integ.where())
    for hb, ht in hand:
        for idx, fld in ((1, "checkpoint_state"), (2, "deltas")):
            a = src_of_operand(integ, ht["args"][idx], through_calls=(r"Try>::branch$",))
            good = a.kind == "call" and "RecoveryManager::<S>::recover" in callee(a.term) and a.fields[-1:] == (fld,)
            ck.check(good, "R11.3", "integration:%s-as-recovered%s" % (fld, _tag(cfg)),
                     "StreamingIntegration::recover does not hand RecoveredState.%s to the node as the recovery manager returned it (%s)" % (fld, a.path()[-80:]),
                     integ.where(ht["ln"]), detail="recovered.%s passed through" % fld)
    # the merging ingest
    ing = prog.one("replication::state::shard_state::ShardReplicaState::apply_remote_delta")
    m = [(b, t) for b, t in ing.calls() if is_callee(t, r"ReplicatedValue::merge$")]
    ck.check(len(m) >= 1, "R11.3", "ingest-merges" + _tag(cfg), "ShardReplicaState::apply_remote_delta no longer merges with the existing value", ing.where(),
             detail="existing.merge(&delta.value)")


def _r116(ck, prog, cfg):
    """the ApplyRecoveredState arm of the shard actor stores every entry it is handed (no filter on the value)"""
    run = prog.one("production::replicated_shard_actor::ReplicatedShardActor::run::{closure#0}")
    names = [v["n"] for v in prog.adts["production::replicated_shard_actor::ReplicatedShardMessage"]["variants"]] \
        if "production::replicated_shard_actor::ReplicatedShardMessage" in prog.adts else []
    arm = None
    for sb in sorted(run.reachable_blocks()):
        si = switch_info(run, sb)
        if si and si["kind"] == "discr" and si["ty"].endswith("ReplicatedShardMessage") and names:
            for v, tg in run.term(sb)["cases"]:
                if names[int(v)] == "ApplyRecoveredState":
                    arm = (sb, tg)
    if arm is None:
        ck.anchor_lost("R11.6", "ApplyRecoveredState arm of ReplicatedShardActor::run not found")
        return
    sb, tg = arm
    region = {x for x in run.reachable_blocks() if run.dominates(tg, x)}
    ins = {b for b, t in run.calls() if b in region and is_callee(t, r"HashMap::<std::string::String, replication::state::replicated_value::ReplicatedValue>::insert$")}
    ck.check(bool(ins), "R11.6", "ApplyRecoveredState:stores" + _tag(cfg), "the arm does not insert the recovered value into replicated_keys", run.where(run.term(sb)["ln"]))
    if not ins:
        return
    skip = lib2.path_avoiding(run, tg, lambda x: x not in region or run.term(x)["k"] in ("return", "yield"), lambda x: x in ins, (), from_succ=False)
    lines = []
    for x in skip or []:
        ln = run.term(x).get("ln")
        if ln and (not lines or lines[-1] != ln):
            lines.append(ln)
    ck.check(skip is None, "R11.6", "ApplyRecoveredState:every-entry-stored" + _tag(cfg),
             "a recovered checkpoint entry can be dropped without being stored into the replication state (path through lines %s): an older "
             "update of that key replayed afterwards is then merged against nothing (a deleted key comes back)" % lines[:8],
             run.where(run.term(sb)["ln"]), detail="insert on every path of the arm")


# ------------------------------------------------------------------------------------------------
PREFIX_TEXT = ("the writer and the reader look for the manifest under the same name: wherever a ManifestManager is created for the persistence "
               "writer, the recovery reader, compaction or the integration layer, the prefix it is given is the configured prefix itself (the "
               "constructor's parameter or the owner's prefix field, borrowed/cloned at most) - not a trimmed, normalised or re-formatted copy: "
               "a writer that saves under `a/manifest.json` while recovery loads `a//manifest.json` recovers an empty store without an error")


def r1116(ck, prog, cfg, rid):
    n = 0
    for f in prog.lib_fns():
        if "::tests::" in f.id or f.file.endswith("_dst.rs") or not f.file.startswith("src/streaming/"):
            continue
        for b, t in f.calls():
            if not is_callee(t, r"ManifestManager::<.*>::new$") or len(t["args"]) < 2:
                continue
            n += 1
            s_ = src_of_operand(f, t["args"][1], through_calls=TRANSPARENT + (r"Deref>::deref$", r"String::as_str$", r"Clone>::clone$", r"ToString>::to_string$",
                                                                               r"ToOwned>::to_owned$", r"Borrow<.*>>::borrow$", r"AsRef<.*>>::as_ref$", r"From<.*>>::from$", r"Into<.*>>::into$"))
            good = s_.kind == "path" and (s_.local is not None and s_.local <= f.d["argc"] or s_.root in ("self",) or (s_.root or "").startswith("self"))
            if not good and s_.kind == "path" and f.kind in ("closure", "coroutine"):
                good = True            # captured parameter of the enclosing constructor
            short = re.sub(r"::\{closure#\d+\}", "", f.id).replace("streaming::", "")
            ck.check(good, rid, "%s:manifest-prefix%s" % (short, _tag(cfg)),
                     "%s creates its ManifestManager with a prefix derived through %s instead of the configured prefix as given: writer and reader can "
                     "end up looking at different manifest keys" % (short, s_.path()[-70:]), f.where(t["ln"]), detail="ManifestManager::new(store, <configured prefix>)")
    ck.floor(rid + _tag(cfg), n, 3)
