"""C13 — compaction never changes what recovery returns: operator, unit, RMW, removal-set clauses."""
import re
from .facts import callee, op_place, op_local
from .lib import src_of_operand, src_of_place, is_callee, TRANSPARENT, switch_info, edge_targets
from . import lib2

COMPACT = "streaming::compaction::Compactor::<S, T>::compact::{closure#0}"
SAVE = r"ManifestManager::<.*>::save$"
LOAD = r"ManifestManager::<.*>::(load|load_or_create)$"


def _tag(cfg):
    return "" if cfg == "default" else "@" + cfg


def run(ck, ctx):
    ck.rule("R13.1", "same combining operator as recovery: when the per-key fold of compaction meets a second delta of a key it "
                     "combines the two with ReplicatedValue::merge (what recovery/apply use), not by keeping one of them")
    ck.rule("R13.2", "unit discipline: no comparison mixes a wall-clock value (TimeSource::now_millis provenance) with a logical "
                     "Lamport time (LamportClock.time)")
    ck.rule("R13.4", "manifest read-modify-write is guarded: a manifest that was loaded, modified across await points and saved is "
                     "re-validated (reload + version comparison) immediately before the save")
    ck.rule("R13.5", "failures are not turned into deletion: a segment whose fetch or delta decoding failed is never added to the set "
                     "of segments that compaction removes from the manifest")
    ck.rule("R13.6", "removal set = what was read: manifest entries are dropped by membership (`ids.contains(&s.id)`) in the id list "
                     "derived from the segments actually folded, never by an ordering test on ids")
    ck.rule("R13.7", "tombstones are judged after the fold: is_tombstone-based dropping is applied to the folded per-key map, never "
                     "to raw deltas inside the segment read loop (an expired tombstone must still shadow older values of its key)")
    ck.rule("R13.8", "everything folded is written: each iteration of compaction's loop over the folded per-key map passes "
                     "SegmentWriter::write_delta, its error is propagated, and no adaptor filters the map on the way to the writer "
                     "(dropping is only done by the tombstone rule R13.7 before this loop)")
    ck.rule("R13.9", "the compaction input is an oldest-first prefix of the candidate list: after candidates are sorted by id only "
                     "prefix-preserving adaptors (take / take_while) may narrow the list; a filter/skip behind the sort lets a newer "
                     "tombstone be compacted (and dropped) while an older value of its key stays behind in a skipped segment")
    ck.rule("R13.10", "the tombstone TTL is the whole configured duration: the cutoff is `now - tombstone_ttl` with the TTL converted by "
                      "Duration::as_millis/as_secs (never a sub-second component such as subsec_millis, which is 0 for whole seconds)")
    ck.rule("R13.11", "compaction and concurrent flushes agree on the manifest (shared with C12 R12.1/R12.6): the segment a compaction registers "
                      "is the object it has just written successfully (no 'already exists, skip the upload'), and every writer of the "
                      "manifest - flush included - reloads it first and gives up when the reload fails (a cached copy is stale after a "
                      "compaction: saving it resurrects deleted inputs and overwrites the compacted object)")
    ck.nd("state equality for all layouts and interleavings")
    ck.rule("R13.12", "the stamp compaction orders by is advanced by every mutation: compaction keeps one delta per key by the value's outer "
                      "stamp (the open R13.1 finding: it does not merge), so a mutator of ReplicatedValue that changes the payload (e.g. DEL of "
                      "a hash tombstoning its fields) without copying the ticked clock into the outer stamp produces a delta that ties with "
                      "its predecessor and is dropped by compaction while recovery without compaction merges it in (shared with C08 R08.2)")
    from . import c12 as _c12w
    ck.rule("R13.13", _c12w.WRITER_TEXT + " (shared with C12 R12.8; compaction writes its output through the same writer)")
    from . import c06 as _c06t
    ck.rule("R13.14", _c06t.DELTA_TEXT + " (shared with C06 R06.10: compaction keeps one delta per key, so a partial delta erases the rest of the value)")
    from . import c12 as _c12i
    ck.rule("R13.16", _c12i.IDS_TEXT + " (shared with C12 R12.11: compaction is one of the two writers of the counter)")
    ck.rule("R13.18", "recovery folds what the segments hold, by stamp: the recovery manager loads every listed segment and hands over every delta it decoded "
                      "(the only filter is `id > checkpoint id` when a checkpoint was loaded) - it does not pre-select 'the newest delta per key' by "
                      "segment id: compaction gives its output the newest id although it carries the oldest data, so such a shortcut changes the "
                      "recovered state exactly when a compaction has run (shared with C11 R11.2)")
    ck.rule("R13.17", "compaction deletes only what it folded: the key handed to ObjectStore::delete in compaction code comes from the segment entries "
                      "compaction itself read and unlisted - never from a listing of the store (an object that no manifest references *yet* is a "
                      "concurrent flush's freshly uploaded segment: its manifest save follows, and then lists an object that is gone)")
    ck.rule("R13.15", "a manifest save that reports success has installed *its* manifest: put(temp) Ok-dominates rename(temp, manifest) and both "
                      "errors are propagated - a rename failure (e.g. NotFound because a concurrent writer consumed the shared temp object) is "
                      "never turned into success, or compaction deletes inputs that the installed manifest still lists (shared with C12 R12.3)")
    for cfg in ctx.configs:
        prog = ctx.prog(cfg)
        ck.configs.append(cfg)
        ck.fn_count += len(prog.fns)
        _c12w.writer_rule(ck, prog, cfg, "R13.13")
        from . import c08
        from .core import Alias
        c08._r082(Alias(ck, "R08.2", "R13.12"), prog, cfg)
        _rules(ck, prog, cfg)
        _r139(ck, prog, cfg)
        _r1310(ck, prog, cfg)
        from . import c12
        fns12 = [f for f in prog.lib_fns() if f.file in c12.FILES]
        c12._r121(ck, prog, fns12, cfg, rid="R13.11", floor=1)
        c12._r126(ck, prog, fns12, cfg, rid="R13.11", floor=4)
        from . import c12
        c12._r127(ck, prog, [f for f in prog.lib_fns() if f.file == "src/streaming/compaction.rs"], cfg, rid="R13.8", floor=1)
        from .core import Only as _Only
        c12._r123(_Only(ck, {"R12.3": "R13.15"}), prog, fns12, cfg)
        from . import c06 as _c06
        _c06.r0610(ck, prog, cfg, "R13.14")
        c12.ids_rule(ck, prog, cfg, "R13.16")
        _r1317(ck, prog, cfg)
        from . import c11 as _c11
        from .core import Only as _Only11
        _c11._r112(_Only11(ck, {"R11.2": "R13.18"}), prog, cfg)


def _wall_clock_locals(fn):
    """names of user variables whose provenance includes TimeSource::now_millis / SystemTime::now"""
    tainted = set()
    for b, t in fn.calls():
        if is_callee(t, r"TimeSource>::now_millis$", r"SystemTime::now$", r"Instant::now$") and "p" not in t["dest"]:
            tainted.add(t["dest"]["l"])
    changed = True
    while changed:
        changed = False
        for blk in fn.blocks:
            for st in blk["st"]:
                if "p" in st["lhs"]:
                    continue
                rv = st["rv"]
                ops = []
                if rv["k"] in ("use", "cast", "un"):
                    ops = [rv["a"]]
                elif rv["k"] == "bin":
                    ops = [rv["a"], rv["b"]]
                for o in ops:
                    p = op_place(o)
                    if p is not None and p["l"] in tainted and st["lhs"]["l"] not in tainted:
                        tainted.add(st["lhs"]["l"])
                        changed = True
            t = blk["t"]
            if t["k"] == "call" and "p" not in t["dest"] and is_callee(t, r"::saturating_(sub|add)$", r"::checked_(sub|add)$", r"::wrapping_", r"Option::<.*>::unwrap"):
                for a in t["args"]:
                    p = op_place(a)
                    if p is not None and p["l"] in tainted and t["dest"]["l"] not in tainted:
                        tainted.add(t["dest"]["l"])
                        changed = True
    names = set()
    for l in tainted:
        n = fn.name_of_local(l)
        if n:
            names.add(n)
    return tainted, names


def _rules(ck, prog, cfg):
    fn = prog.one(COMPACT)
    kids = prog.children(fn)
    # ---------------- R13.1
    gets = [(b, t) for b, t in fn.calls() if is_callee(t, r"HashMap::<std::string::String, .*ReplicationDelta>::(get|get_mut|entry|remove)\b")]
    ins = [(b, t) for b, t in fn.calls() if is_callee(t, r"HashMap::<std::string::String, .*ReplicationDelta>::insert$")]
    merges = [(b, t) for b, t in fn.calls() if is_callee(t, r"ReplicatedValue::merge$")]
    for k in kids:
        merges += [(b, t) for b, t in k.calls() if is_callee(t, r"ReplicatedValue::merge$")]
    ck.check(len(ins) >= 1 and len(gets) >= 1, "R13.1", "fold-exists" + _tag(cfg), "per-key fold (lookup + insert into the key map) not found", fn.where())
    ck.check(len(merges) >= 1, "R13.1", "compact:fold-operator" + _tag(cfg),
             "compaction folds two deltas of one key by keeping the one with the greater `timestamp.time` instead of "
             "ReplicatedValue::merge: per-field/per-element content of the other delta is lost (two replicas' hash deltas: recovery "
             "before = union of fields, after = one side)", fn.where(ins[0][1]["ln"]) if ins else fn.where(), detail="ReplicatedValue::merge used")
    # whatever the operator is, an existing entry is only replaced by a newer delta: every path of a fold iteration to the insert
    # passes the None edge of the lookup or the true edge of a stamp comparison between the incoming and the stored delta
    from .lib import edge_targets as _et
    gates = set()
    for sb in sorted(fn.reachable_blocks()):
        si = switch_info(fn, sb)
        if not si:
            continue
        if si["kind"] == "discr" and si["ty"].startswith("std::option::Option<") and si["src"].kind == "call" and \
                is_callee(si["src"].term, r"HashMap::<std::string::String, .*ReplicationDelta>::(get|get_mut)\b"):
            gates.add(_et(fn, sb, 0))
        if si["kind"] == "val" and si["src"].kind == "rv" and si["src"].rv["k"] == "bin" and si["src"].rv["op"] in ("Gt", "Lt", "Ge", "Le"):
            a = src_of_operand(fn, si["src"].rv["a"], through_calls=TRANSPARENT)
            b_ = src_of_operand(fn, si["src"].rv["b"], through_calls=TRANSPARENT)
            if "timestamp" in a.fields and "timestamp" in b_.fields:
                tt, ft = lib2.bool_edges(fn, sb)
                gates.add(tt)
        if si["kind"] == "val" and si["src"].kind == "call" and is_callee(si["src"].term, r"LamportClock as std::cmp::PartialOrd>::(gt|lt|ge|le)$"):
            tt, ft = lib2.bool_edges(fn, sb)
            gates.add(tt)
    # `let should_insert = match get(k) { Some(e) => d.stamp > e.stamp, None => true }; if should_insert {..}`: the flag's true edge is a
    # gate when each of its definitions is a stamp comparison or a `true` set behind the None edge of the lookup
    def _stamp_cmp(rv):
        if rv["k"] != "bin" or rv["op"] not in ("Gt", "Lt", "Ge", "Le"):
            return False
        a = src_of_operand(fn, rv["a"], through_calls=TRANSPARENT)
        b_ = src_of_operand(fn, rv["b"], through_calls=TRANSPARENT)
        return "timestamp" in a.fields and "timestamp" in b_.fields
    for sb in sorted(fn.reachable_blocks()):
        si = switch_info(fn, sb)
        if si and si["kind"] == "val" and si.get("local") is not None:
            defs = fn.defs().get(si["local"], [])
            # follow one copy (`_166 = _157`)
            if len(defs) == 1 and defs[0][2] == "assign" and defs[0][3]["k"] == "use" and "c" not in defs[0][3]["a"]:
                pl = op_place(defs[0][3]["a"])
                if pl is not None and "p" not in pl:
                    defs = fn.defs().get(pl["l"], [])
            if len(defs) >= 2:
                good = True
                for (db, di, kind, payload) in defs:
                    if kind != "assign":
                        good = False
                    elif _stamp_cmp(payload):
                        pass
                    elif payload["k"] == "use" and payload["a"].get("c", "").strip() in ("const true", "true") and any(db == g or fn.dominates(g, db) for g in gates):
                        pass
                    elif payload["k"] == "use" and payload["a"].get("c", "").strip() in ("const false", "false"):
                        pass
                    else:
                        good = False
                if good:
                    tt, ft = lib2.bool_edges(fn, sb)
                    gates.add(tt)
    heads = lib2.loop_heads(fn)
    for k_, (ib, it) in enumerate(sorted(ins, key=lambda x: x[1]["ln"])):
        mine = [h for h, (none_t, some_t, nb) in heads.items() if ib == some_t or ib in fn.reach([some_t], avoid=[h])]
        if not mine:
            continue
        h = min(mine, key=lambda h: len(fn.reach([heads[h][1]], avoid=[h])))
        path = lib2.path_avoiding(fn, heads[h][1], lambda x, ib=ib: x == ib, lambda x: x in gates, (), from_succ=False)
        lines = []
        for x in path or []:
            ln = fn.term(x).get("ln")
            if ln and (not lines or lines[-1] != ln):
                lines.append(ln)
        ck.check(path is None and bool(gates), "R13.1", "compact:overwrite-only-if-newer#%d%s" % (k_, _tag(cfg)),
                 "the fold can replace the delta it holds for a key without having compared stamps (path through lines %s): an older delta "
                 "can overwrite a newer one, so compaction changes which value recovery returns" % lines[:10], fn.where(it["ln"]),
                 detail="insert only behind `key absent` or `incoming stamp > stored stamp`")
    # ---------------- R13.2
    tainted, names = _wall_clock_locals(fn)
    n2 = 0
    for f in [fn] + kids:
        for b, i, st in f.stmts():
            rv = st["rv"]
            if rv["k"] != "bin" or rv["op"] not in ("Lt", "Le", "Gt", "Ge"):
                continue
            sa, sb = src_of_operand(f, rv["a"], through_calls=TRANSPARENT), src_of_operand(f, rv["b"], through_calls=TRANSPARENT)

            def is_wall(s, o):
                p = op_place(o)
                if f is fn and p is not None and p["l"] in tainted:
                    return True
                return s.kind == "path" and (s.root in names) and f is not fn

            def is_logical(s):
                return s.fields[-2:] == ("timestamp", "time") or (s.kind == "path" and s.fields[-1:] == ("time",) and "timestamp" in s.fields)
            wa, wb = is_wall(sa, rv["a"]), is_wall(sb, rv["b"])
            la, lb = is_logical(sa), is_logical(sb)
            if (wa or wb) or (la or lb):
                n2 += 1
            if (wa and lb) or (wb and la):
                ck.bad("R13.2", "%s:cmp(wall-clock,lamport)%s" % (re.sub(r"::\{closure#\d+\}", "", fn.id.replace("streaming::compaction::Compactor::<S, T>::", "")), _tag(cfg)),
                       "a Lamport logical time is compared with a wall-clock cutoff (`%s %s %s`): under the production clock every tombstone "
                       "is 'older than the TTL' and is dropped, so an older value in a skipped segment or the checkpoint resurfaces"
                       % (sa.path(), rv["op"], sb.path()), f.where(st["ln"]))
    ck.floor("R13.2" + _tag(cfg), n2, 1)
    # ---------------- R13.4
    for name in (COMPACT, "streaming::persistence::StreamingPersistence::<S, C>::write_segment::{closure#0}",
                 "streaming::persistence::StreamingPersistence::<S, C>::flush::{closure#0}"):
        cands = prog.find(name)
        if not cands:
            continue
        f = cands[0]
        saves = [(b, t) for b, t in f.calls() if is_callee(t, SAVE)]
        loads = [(b, t) for b, t in f.calls() if is_callee(t, LOAD)]
        if not saves:
            continue
        short = "compact" if name == COMPACT else f.id.split("::")[-2]
        for k, (sb, st_) in enumerate(sorted(saves, key=lambda x: x[1]["ln"])):
            # guarded = a load dominated-before the save with no Yield in between, whose result's `version` is compared
            guarded = False
            for lb, lt in loads:
                if lb == sb or not f.dominates(lb, sb):
                    continue
                aw = lib2.await_result(f, lb)
                if aw is None:
                    continue
                # no other await between the reload and the save
                between = f.reach([aw[1]]) - f.reach([sb]) - {sb}
                yields = [x for x in between if f.term(x)["k"] == "yield" and x not in f.reach([sb])]
                vcmp = False
                for x in between | {aw[1]}:
                    for st2 in f.blocks[x]["st"]:
                        rv = st2["rv"]
                        if rv["k"] == "bin" and rv["op"] in ("Eq", "Ne"):
                            for o in (rv["a"], rv["b"]):
                                s = src_of_operand(f, o, through_calls=TRANSPARENT + (r"Try>::branch$",))
                                if s.fields[-1:] == ("version",):
                                    vcmp = True
                if vcmp and not yields:
                    guarded = True
            ck.check(guarded, "R13.4", "%s:save#%d%s" % (short, k, _tag(cfg)),
                     "the manifest is loaded, modified across await points and saved without re-validating its version right before the "
                     "save: a concurrent flush/compaction that saved in between is silently erased from the manifest (its segment becomes "
                     "unreachable for recovery)", f.where(st_["ln"]), detail="reload + version check before save")
    # ---------------- R13.5
    pushes = [(b, t) for b, t in fn.calls() if is_callee(t, r"Vec::<&streaming::manifest::SegmentInfo>::push$")]
    ck.floor("R13.5" + _tag(cfg), len(pushes), 1)
    fails = []
    # (a) store.get Err edge, (b) deltas iterator item Err edge, (c) open/validate/deltas() Err edges
    for b, t in fn.calls():
        if is_callee(t, r"object_store::ObjectStore>::get$"):
            aw = lib2.await_result(fn, b)
            if aw:
                for (swb, okt, errt) in lib2.ok_edges(fn, aw[0]):
                    fails.append(("segment-get-failed", swb, okt, errt, t["ln"]))
        if is_callee(t, r"SegmentReader::(open|validate|deltas)$") and "p" not in t["dest"]:
            for (swb, okt, errt) in lib2.ok_edges(fn, t["dest"]["l"]):
                fails.append(("segment-%s-failed" % callee(t).rsplit("::", 1)[-1], swb, okt, errt, t["ln"]))
    # delta items: Option<Result<ReplicationDelta, _>> from Iterator::next -> Some -> Result discriminant
    for sb in sorted(fn.reachable_blocks()):
        si = switch_info(fn, sb)
        if si and si["kind"] == "discr" and (si["ty"].startswith("std::result::Result<replication::state::delta::ReplicationDelta") or
                                             si["ty"].startswith("std::result::Result<std::vec::Vec<replication::state::delta::ReplicationDelta")):
            fails.append(("delta-decode-failed", sb, edge_targets(fn, sb, 0), edge_targets(fn, sb, 1), fn.term(sb)["ln"]))
    # the only failure that may schedule a segment for removal: the object does not exist (ErrorKind::NotFound)
    notfound_true = set()
    for sb in sorted(fn.reachable_blocks()):
        si = switch_info(fn, sb)
        if si and si["kind"] == "val" and si["src"].kind == "call" and is_callee(si["src"].term, r"io::ErrorKind as std::cmp::PartialEq>::eq$"):
            ops = [src_of_operand(fn, a, through_calls=TRANSPARENT) for a in si["src"].term["args"]]
            kinds = [o for o in ops if o.kind == "call" and is_callee(o.term, r"std::io::Error::kind$")]
            consts = [o for o in ops if o.kind == "const" and (o.pv or "").endswith("ErrorKind::NotFound")]
            if kinds and consts:
                for v, tg in fn.term(sb)["cases"]:
                    pass
                t_ = fn.term(sb)
                tr = [tg for v, tg in t_["cases"] if v == "1"] or ([t_["else"]] if [v for v, _ in t_["cases"]] == ["0"] else [])
                notfound_true.update(tr)
    ck.floor("R13.5-failure-edges" + _tag(cfg), len(fails), 4)
    for what, swb, okt, errt, ln in fails:
        # a push reachable from the error edge *within the same segment iteration* (before the next store.get)
        gets_b = {b for b, t in fn.calls() if is_callee(t, r"object_store::ObjectStore>::get$")}
        hit = None
        for pb, pt in pushes:
            path = lib2.path_avoiding(fn, errt, lambda x, pb=pb: x == pb,
                                      lambda x: x in gets_b or (x == okt and what != "delta-decode-failed") or (what == "segment-get-failed" and x in notfound_true),
                                      (), from_succ=False)
            if path is not None:
                hit = (pb, pt)
        ck.check(hit is None, "R13.5", "compact:%s%s" % (what, _tag(cfg)),
                 "after `%s` the segment is still added to the set removed from the manifest (and its object deleted): a transient read "
                 "error or a partly undecodable segment is turned into data loss" % what, fn.where(ln),
                 detail="failed segment is not scheduled for removal")
    # ---------------- R13.6
    rets = []
    for g in prog.lib_fns():
        if g.file != "src/streaming/compaction.rs":
            continue
        for b, t in g.calls():
            if is_callee(t, r"Vec::<streaming::manifest::SegmentInfo>::retain::"):
                rets.append((g, b, t))
    ck.floor("R13.6" + _tag(cfg), len(rets), 1)
    for k, (g, rb, rt) in enumerate(sorted(rets, key=lambda x: (x[0].id, x[2]["ln"]))):
        clo = src_of_operand(g, rt["args"][1])
        cf = prog.fns.get(clo.rv["n"]) if clo.kind == "agg" and clo.rv["ak"] == "closure" else None
        ok = False
        why = "retain predicate not recognised"
        if cf is not None:
            cont = [(b, t) for b, t in cf.calls() if is_callee(t, r"<impl \[u64\]>::contains$", r"Vec::<u64>::contains$", r"HashSet::<u64.*>::contains")]
            ordc = [st for b, i, st in cf.stmts() if st["rv"]["k"] == "bin" and st["rv"]["op"] in ("Lt", "Le", "Gt", "Ge")]
            if ordc:
                why = "the predicate orders segment ids instead of testing membership"
            elif not cont:
                why = "the predicate does not test membership in the compacted id list"
            elif g is fn:
                ok = _ids_from_actually_compacted(prog, fn, clo)
                why = "the id list is not derived from the segments actually folded (actually_compacted)"
            else:
                ok = True  # helper: membership test on a list handed in by the caller
        gid = re.sub(r"::\{closure#\d+\}", "", g.id.replace("streaming::compaction::", ""))
        ck.check(ok, "R13.6", "%s:manifest-retain#%d%s" % (gid, k, _tag(cfg)),
                 "segments are dropped from the manifest by a rule other than membership in the folded set (%s): a segment that was "
                 "skipped by selection or unreadable can be dropped although its data was not carried over" % why, g.where(rt["ln"]),
                 detail="retain(!ids.contains(id)) with ids from actually_compacted")
    # ---------------- R13.7
    # loop that reads deltas: head = Iterator::next on the deltas iterator; is_tombstone must not be called in fn itself inside it
    tomb = [(b, t) for b, t in fn.calls() if is_callee(t, r"ReplicatedValue::is_tombstone$")]
    inloop = []
    for ib, it in ins:
        for tb, tt in tomb:
            if ib in fn.reach([tb]) and tb in fn.reach([ib]):
                inloop.append(tt["ln"])
    for k in kids:
        pass
    ck.check(not inloop, "R13.7", "compact:tombstone-test-in-read-loop" + _tag(cfg),
             "tombstones are filtered while segments are being read (before the per-key fold): an expired tombstone no longer shadows an "
             "older value of its key in another segment of the same compaction, and the deleted key comes back", fn.where(inloop[0]) if inloop else None,
             detail="tombstone dropping happens on the folded map only")
    tomb_k = sum(1 for k in kids for b, t in k.calls() if is_callee(t, r"ReplicatedValue::is_tombstone$"))
    ck.floor("R13.7" + _tag(cfg), tomb_k + len(tomb), 1)


def _ids_from_actually_compacted(prog, fn, clo):
    """closure aggregate's captured `segment_ids` <- collect(map(iter(segments_removed))) <- collect(map(iter(actually_compacted)))"""
    seen = 0
    work = list(clo.rv["ops"])
    visited = set()
    while work and seen < 200:
        seen += 1
        o = work.pop()
        if "c" in o:
            continue
        s = src_of_operand(fn, o, through_calls=TRANSPARENT + (r"Deref>::deref$",))
        key = (s.kind, s.local, s.path())
        if key in visited:
            continue
        visited.add(key)
        if s.kind == "path" and "actually_compacted" in (s.root or ""):
            return True
        if s.local is not None and fn.name_of_local(s.local) == "actually_compacted":
            return True
        if s.kind == "call":
            for a in s.term["args"]:
                work.append(a)
        elif s.kind in ("multi", "path") and s.local is not None:
            for (b, i, kind, payload) in fn.defs().get(s.local, []):
                if kind == "assign" and payload["k"] in ("use", "cast"):
                    work.append(payload["a"])
                elif kind == "assign" and payload["k"] == "ref":
                    work.append({"cp": payload["pl"]})
                elif kind == "call":
                    for a in payload["args"]:
                        work.append(a)
    return False


def _r139(ck, prog, cfg):
    sel = prog.one("streaming::compaction::Compactor::<S, T>::select_segments_to_compact")
    sorts = [(b, t) for b, t in sel.calls() if is_callee(t, r"<impl \[.*\]>::sort", r"slice::<impl \[T\]>::sort")]
    ck.check(len(sorts) == 1, "R13.9", "selection:sorted-by-id" + _tag(cfg), "candidates are not sorted exactly once", sel.where())
    if len(sorts) != 1:
        return
    sb = sorts[0][0]
    # the returned value: collect(...) whose chain after the sort contains only into_iter/iter/take/take_while/copied/cloned
    rets = [(b, t) for b, t in sel.calls() if is_callee(t, r"Iterator>::collect::") and t["dest"] == {"l": 0}]
    if not rets:
        # the other prefix form: the sorted Vec itself is returned after `truncate(n)` (nothing else may touch it after the sort)
        sorted_vec = src_of_operand(sel, sorts[0][1]["args"][0], through_calls=TRANSPARENT + (r"DerefMut>::deref_mut$", r"Deref>::deref$"))
        ret_src = None
        for b, i, st in sel.stmts():
            if st["lhs"] == {"l": 0} and st["rv"]["k"] == "use":
                ret_src = src_of_operand(sel, st["rv"]["a"])
        same = ret_src is not None and sorted_vec.local is not None and ret_src.local == sorted_vec.local
        after = []
        vals, refs = lib2.value_aliases(sel, sorted_vec.local) if sorted_vec.local is not None else (set(), set())
        for b, t in sel.calls():
            if b != sb and sel.dominates(sb, b) and t["args"]:
                a0 = op_place(t["args"][0]) if "c" not in t["args"][0] else None
                if a0 is not None and a0["l"] in (vals | refs):
                    after.append(callee(t).rsplit("::", 1)[-1].split("<")[0])
        bad_after = [c for c in after if c not in ("truncate", "len", "is_empty", "deref", "deref_mut", "iter", "as_slice")]
        ck.check(same and not bad_after, "R13.9", "selection:prefix-of-sorted-candidates" + _tag(cfg),
                 "the sorted candidate list is %s before it is returned: the selection is no longer an oldest-first prefix"
                 % ("changed by %s" % bad_after if bad_after else "not what is returned"), sel.where(), detail="sorted Vec returned after truncate(n): %s" % after)
        return
    ck.check(len(rets) == 1 and sel.dominates(sb, rets[0][0]), "R13.9", "selection:collect-after-sort" + _tag(cfg),
             "the selection is not collected from the sorted candidate list", sel.where())
    if len(rets) != 1:
        return
    chain = []
    cur = src_of_operand(sel, rets[0][1]["args"][0])
    hops = 0
    while cur.kind == "call" and hops < 10:
        chain.append(callee(cur.term).rsplit("::", 1)[-1].split("<")[0])
        if is_callee(cur.term, r"IntoIterator>::into_iter$", r"<impl \[.*\]>::iter$", r"Vec::<.*>::iter$"):
            break
        if not cur.term["args"]:
            break
        cur = src_of_operand(sel, cur.term["args"][0])
        hops += 1
    bad = [c for c in chain if c not in ("take", "take_while", "into_iter", "iter", "copied", "cloned", "by_ref")]
    ck.check(not bad and chain, "R13.9", "selection:prefix-of-sorted-candidates" + _tag(cfg),
             "the sorted candidate list is narrowed by %s: the selection is no longer an oldest-first prefix, so a newer segment can be "
             "compacted while an older one is skipped" % bad, sel.where(rets[0][1]["ln"]), detail="chain after sort: %s" % chain)


def _r1310(ck, prog, cfg):
    fn = prog.one("streaming::compaction::Compactor::<S, T>::compact::{closure#0}")
    n = 0
    subs = [(b, t) for b, t in fn.calls() if is_callee(t, r"Duration::subsec_(millis|micros|nanos)$")]
    for b, t in subs:
        r = src_of_operand(fn, t["args"][0], through_calls=TRANSPARENT)
        if "tombstone_ttl" in r.fields or "config" in r.fields:
            ck.bad("R13.10", "compact:ttl-subsecond-part" + _tag(cfg),
                   "the tombstone TTL is read through %s: only the fraction below one second is used, so a TTL of whole seconds counts as zero and "
                   "fresh tombstones are dropped while older values of their keys survive elsewhere" % callee(t).rsplit("::", 1)[-1], fn.where(t["ln"]))
    whole = [(b, t) for b, t in fn.calls() if is_callee(t, r"Duration::as_(millis|secs|micros|secs_f64)$")]
    for b, t in whole:
        r = src_of_operand(fn, t["args"][0], through_calls=TRANSPARENT)
        if "tombstone_ttl" in r.fields:
            n += 1
    ck.check(n >= 1, "R13.10", "compact:ttl-whole-duration" + _tag(cfg),
             "the tombstone cutoff is not computed from Duration::as_millis/as_secs of config.tombstone_ttl", fn.where(), detail="as_millis(tombstone_ttl)")


# ------------------------------------------------------------------------------------------------
def _r1317(ck, prog, cfg):
    from .c10 import _taint
    n = 0
    for f in prog.lib_fns():
        if f.file != "src/streaming/compaction.rs" or "::tests::" in f.id:
            continue
        dels = [(b, t) for b, t in f.calls() if is_callee(t, r"ObjectStore>::delete$", r"ObjectStore::delete$") and len(t["args"]) >= 2]
        if not dels:
            continue
        lists = {t["dest"]["l"] for b, t in f.calls() if is_callee(t, r"ObjectStore>::list$", r"ObjectStore::list$", r"ObjectStore>::list_with_meta$") and "p" not in t["dest"]}
        tainted = _taint(f, lists) if lists else set()
        for k, (b, t) in enumerate(dels):
            n += 1
            l = op_local(t["args"][1])
            ck.check(l not in tainted, "R13.17", "%s:delete#%d%s" % (re.sub(r"::\{closure#\d+\}", "", f.id).rsplit("::", 1)[-1], k, _tag(cfg)),
                     "compaction deletes an object whose key comes from a listing of the store: anything the manifest it has just saved does not "
                     "reference is removed, including the segment a concurrent flush has uploaded but not yet registered", f.where(t["ln"]),
                     detail="deleted key comes from the folded segment entries")
    ck.floor("R13.17" + _tag(cfg), n, 2)
