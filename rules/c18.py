"""C18 — anti-entropy digests: order-insensitivity, coverage, key/value binding, selection by bucket only, bidirectional merge."""
import re
from .facts import callee, op_place, op_local
from .lib2 import iter_chain
from .lib import src_of_operand, src_of_place, is_callee, TRANSPARENT, switch_info
from . import lib2

AE = "replication::anti_entropy::"
HASHITER = (r"HashMap<.*> as std::iter::IntoIterator>::into_iter$", r"HashMap::<.*>::(iter|keys|values|into_iter|drain|iter_mut|values_mut)$",
            r"HashSet<.*> as std::iter::IntoIterator>::into_iter$", r"HashSet::<.*>::(iter|into_iter|drain)$")
SORTS = (r"<impl \[.*\]>::sort", r"slice::<impl \[T\]>::sort", r"Vec::<.*>::sort")


def _tag(cfg):
    return "" if cfg == "default" else "@" + cfg


def run(ck, ctx):
    ck.rule("R18.1", "no order-sensitive fold over an unordered iteration: the per-bucket digest lists filled from a HashMap iteration "
                     "are sorted (canonical order) before MerkleNode::from_digests folds them sequentially")
    ck.rule("R18.2", "digest covers what merge can change: KeyDigest::new must read the whole crdt payload (all variants), the expiry "
                     "and the stamp of a ReplicatedValue")
    ck.rule("R18.3", "a sync merges both ways: run_anti_entropy_sync applies A's selection to B and B's to A through apply_remote_deltas")
    ck.rule("R18.4", "bucket function agreement: digest construction and key selection use KeyDigest::bucket with the configured depth")
    ck.rule("R18.5", "key/value binding: bucket and root hashes feed key_hash and value_hash of each digest into one sequential hasher; "
                     "hash fields are never combined with a commutative or self-inverse operator (xor/add/or)")
    ck.rule("R18.6", "selection by bucket only: get_keys_in_buckets filters solely on bucket membership (every key of a divergent "
                     "bucket, tombstones included, is shipped up to the per-round limit)")
    ck.rule("R18.7", "the per-round limit bounds what is sent, not what is examined: in anti_entropy.rs a take/skip/step_by never "
                     "sits between the key map and the divergent-bucket filter (with a stable iteration order a bounded scan "
                     "never reaches the divergent keys behind it, and repeating the round does not help)")
    ck.rule("R18.8", "a bounded selection must be able to make progress: where the keys shipped in one round are `take(limit)` of an "
                     "iteration over the key map, something in front of the take must depend on what earlier rounds achieved (a resume "
                     "point / skip, or a test against the peer's view of the key); a prefix of a stable iteration order filtered by bucket "
                     "only is the same prefix every round, so when the divergent buckets hold more keys than the limit and the differing "
                     "keys lie behind it, no number of rounds completes the sync")
    ck.nd("the number of rounds needed when progress is possible; hash collisions")
    ck.rule("R18.9", "a sync leaves both sides merged: the ingest both directions of a sync go through (ShardReplicaState::apply_remote_delta) "
                     "merges the received value into an existing one and stores the result on every path (shared with C06 R06.3)")
    ck.rule("R18.10", "a digest describes the state it is asked about: every digest a node hands out (AntiEntropyManager::generate_digest and "
                      "any other producer of a StateDigest for the sync protocol) is computed by StateDigest::from_state from the key map "
                      "passed in, on every path - no stored/memoised digest (a remote overwrite or tombstone of an existing key changes "
                      "neither a local write counter nor the key count, so a cached digest keeps saying 'in sync'), and no digest field "
                      "kept inside the manager")
    ck.rule("R18.11", "what a sync delivers is merged: on the receiving node (SimulatedNode::apply_remote_deltas, the function run_anti_entropy_sync "
                      "hands each side's selection to) every iteration over the delivered batch passes ShardReplicaState::apply_remote_delta - no "
                      "delta is skipped by origin, stamp or kind before the merge (a node that lost what it once stamped must take it back from "
                      "its peer, or the buckets stay divergent in every round) - and the loop walks the whole batch")
    ck.rule("R18.12", "a completed sync leaves both sides with the merge: the merge functions the delivered selections pass through are certified lattice "
                      "joins (commutative, idempotent, shape-certified - the C07 certificate R07.0-R07.2, shared): with a merge that depends on "
                      "argument order the two sides of one sync end up different and the next round finds the same divergence again (the open "
                      "type-mismatch associativity finding stays with C07)")
    from . import c07 as _c07
    _c07.certify(ck, rid=lambda r: "R18.12", floor_id="R18.12", skip_rules=("R07.3",))
    for cfg in ctx.configs:
        prog = ctx.prog(cfg)
        ck.configs.append(cfg)
        ck.fn_count += len(prog.fns)
        from . import c06 as _c06
        from .core import Alias as _Alias
        _c06._r063(_Alias(ck, "R06.3", "R18.9"), prog, cfg)
        _rules(ck, prog, cfg)
        _r1810(ck, prog, cfg)
        _r1811(ck, prog, cfg)


def _rules(ck, prog, cfg):
    fs = prog.one(AE + "StateDigest::from_state")
    fd = prog.one(AE + "MerkleNode::from_digests")
    kd = prog.one(AE + "KeyDigest::new")
    # ---- R18.1
    hi = [(b, t) for b, t in fs.calls() if is_callee(t, *HASHITER)]
    pushes = [(b, t) for b, t in fs.calls() if is_callee(t, r"Vec::<replication::anti_entropy::KeyDigest>::push$")]
    folds = []
    for f in [fs] + prog.children(fs):
        folds += [(f, b, t) for b, t in f.calls() if is_callee(t, r"MerkleNode::from_digests$")]
    sorts = []
    for f in [fs] + prog.children(fs):
        sorts += [(f, b, t) for b, t in f.calls() if is_callee(t, *SORTS)]
    fd_sorts = [(b, t) for b, t in fd.calls() if is_callee(t, *SORTS)]
    ck.check(len(hi) >= 1 and len(pushes) >= 1 and len(folds) >= 1, "R18.1", "from_state:shape" + _tag(cfg),
             "from_state no longer fills per-bucket digest lists from a map iteration and folds them (anchor lost)", fs.where())
    unordered = bool(hi)
    ordered_ok = False
    if fd_sorts:
        ordered_ok = True
    for (sf, sb, st_) in sorts:
        # the sort must happen after the fill loop and before the fold (in from_state itself: the fold's map() call is reachable from it)
        if sf is fs:
            fold_sites = [b for (f, b, t) in folds if f is fs] + [b for b, t in fs.calls() if is_callee(t, r"Iterator>::map::")]
            after_fill = all(sb in fs.reach([pb]) for pb, _ in pushes)
            before_fold = any(fb in fs.reach([sb]) for fb in fold_sites)
            if after_fill and before_fold:
                ordered_ok = True
        else:
            # a sort inside a closure run per bucket (iter_mut().for_each(|d| d.sort..))
            ordered_ok = True
    ck.check((not unordered) or ordered_ok, "R18.1", "from_state:canonical-order" + _tag(cfg),
             "bucket digests are pushed in HashMap iteration order and folded sequentially without a sort in between: two replicas with "
             "equal states (or one replica in two processes) compute different digests - perpetual false 'divergent'", fs.where(pushes[0][1]["ln"]) if pushes else fs.where(),
             detail="sort between fill and fold")
    # the sort key must include both hashes (a sort by key_hash only leaves ties in HashMap order)
    for (sf, sb, st_) in sorts:
        clo = None
        for a in st_["args"]:
            s = src_of_operand(sf, a)
            if s.kind == "agg" and s.rv["ak"] == "closure":
                clo = prog.fns.get(s.rv["n"])
        if clo is not None:
            fields = set()
            for b, i, st in clo.stmts():
                rv = st["rv"]
                ops = rv.get("ops", []) if rv["k"] == "agg" else ([rv["a"]] if rv["k"] == "use" else [])
                for o in ops:
                    p = op_place(o)
                    if p is not None:
                        for e in p.get("p", []):
                            if isinstance(e, dict) and "f" in e and e.get("o", "").endswith("KeyDigest"):
                                fields.add(e["f"])
            ck.check({"key_hash", "value_hash"} <= fields, "R18.1", "from_state:sort-key" + _tag(cfg),
                     "digests are sorted by %s only: ties keep HashMap order" % sorted(fields), sf.where(st_["ln"]), detail="sort key = %s" % sorted(fields))
    # ---- R18.5
    n5 = 0
    for f in (fd, prog.one(AE + "MerkleNode::combine"), kd):
        hashed = []
        for b, t in f.calls():
            m = re.match(r"^<(.+) as std::hash::Hash>::hash::<(.+)>$", t.get("fnargs") or "")
            if m:
                s = src_of_operand(f, t["args"][0], through_calls=TRANSPARENT)
                hashed.append((s.fields[-1] if s.fields else s.path(), src_of_operand(f, t["args"][1], through_calls=TRANSPARENT).path()))
        n5 += 1
        bad_ops = []
        for b, i, st in f.stmts():
            rv = st["rv"]
            if rv["k"] == "bin" and rv["op"] in ("BitXor", "BitOr", "BitAnd", "Add", "AddWithOverflow", "Mul"):
                for o in (rv["a"], rv["b"]):
                    s = src_of_operand(f, o, through_calls=TRANSPARENT)
                    if any(x in ("key_hash", "value_hash", "hash") for x in s.fields):
                        bad_ops.append((rv["op"], st["ln"]))
        ck.check(not bad_ops, "R18.5", "%s:no-commutative-combine%s" % (f.id.replace(AE, ""), _tag(cfg)),
                 "hash fields are combined with %s: the combination is commutative/self-inverse, so swapping values between two keys of a "
                 "bucket (or duplicating entries) leaves the digest unchanged - false 'in sync'" % sorted({o for o, _ in bad_ops}),
                 f.where(bad_ops[0][1]) if bad_ops else None, detail="fields fed to a sequential hasher")
    # from_digests must feed both key_hash and value_hash of each element to the same hasher
    hf = []
    for g in [fd] + prog.children(fd):       # the loop body may be a `for_each` closure that captured the hasher
        for b, t in g.calls():
            if re.match(r"^<u64 as std::hash::Hash>::hash::<", t.get("fnargs") or ""):
                s = src_of_operand(g, t["args"][0], through_calls=TRANSPARENT)
                h = src_of_operand(g, t["args"][1], through_calls=TRANSPARENT)
                hp = h.path()
                if g is not fd:
                    hp = re.sub(r"^(self__|_1\.?)", "", hp) or hp
                    hp = "captured:" + (h.root or hp)
                hf.append((s.fields[-1] if s.fields else "?", hp))
    fields = {x for x, _ in hf}
    hashers = {h for _, h in hf}
    ck.check({"key_hash", "value_hash"} <= fields and len(hashers) == 1, "R18.5", "from_digests:binds-key-and-value" + _tag(cfg),
             "from_digests does not feed key_hash and value_hash of every digest into one hasher (%s)" % hf, fd.where(),
             detail="hash(key_hash); hash(value_hash) on one hasher")
    ck.floor("R18.5" + _tag(cfg), n5, 3)
    # ---- R18.2
    read = set()
    for b, i, st in kd.stmts():
        for o in _ops(st["rv"]):
            s = src_of_operand(kd, o, through_calls=TRANSPARENT)
            if s.kind == "path" and s.root == "value" and s.fields:
                read.add(s.fields[0])
    calls_on_value = set()
    for b, t in kd.calls():
        for a in t["args"]:
            if "c" in a:
                continue
            s = src_of_operand(kd, a, through_calls=TRANSPARENT)
            if s.kind == "path" and s.root == "value":
                if s.fields:
                    read.add(s.fields[0])
                else:
                    calls_on_value.add(callee(t).rsplit("::", 1)[-1])
    ck.extra.setdefault("keydigest_reads", sorted(read) + ["fn:" + c for c in sorted(calls_on_value)])
    whole_crdt = "crdt" in read
    ck.check(whole_crdt and "expiry_ms" in read and "timestamp" in read, "R18.2", "KeyDigest::new:coverage" + _tag(cfg),
             "KeyDigest::new reads only %s of a ReplicatedValue (payload only through %s): hash fields, counters, sets, vector clocks and "
             "the expiry are invisible to the digest, so states that differ there are reported 'in sync'"
             % (sorted(read), sorted(calls_on_value)), kd.where(), detail="reads crdt, expiry_ms, timestamp")
    # what the digest does cover today must stay covered (the open finding above must not hide a further loss): the value hasher is fed
    # the whole stamp (time and replica id) and the bytes of the LWW payload, and value_hash is that hasher's finish()
    fed = {}
    for b, t in kd.calls():
        if is_callee(t, r"std::hash::Hash>::hash(::<.*>)?$") and len(t["args"]) >= 2:
            hs = src_of_operand(kd, t["args"][1], through_calls=TRANSPARENT)
            inp = src_of_operand(kd, t["args"][0], through_calls=TRANSPARENT + (r"SDS::as_bytes$", r"::as_bytes$", r"Deref>::deref$"))
            hn = kd.name_of_local(hs.local) if hs.local is not None else None
            hn = hn or hs.path()
            if inp.kind == "path":
                fed.setdefault(hn, set()).add(".".join(f for f in inp.fields if not f.startswith("<")))
            elif inp.kind == "call":
                fed.setdefault(hn, set()).add("call:" + callee(inp.term).rsplit("::", 1)[-1] + "".join("." + f for f in inp.fields if not f.startswith("<")))
    vh = None
    for name, items in fed.items():
        if any(x.startswith("timestamp") for x in items):
            vh = name
    items = fed.get(vh, set())
    ck.extra.setdefault("value_hasher_inputs", sorted(items))
    ck.check(vh is not None and any(x.startswith("timestamp.time") for x in items) and any(x.startswith("timestamp.replica_id") for x in items) and
             any(x.startswith("call:get") for x in items), "R18.2", "KeyDigest::new:keeps-stamp-and-payload" + _tag(cfg),
             "the value hash no longer covers the full stamp (time, replica id) and the LWW payload bytes (fed: %s): two values that differ "
             "only there get equal digests and are reported 'in sync'" % sorted(items), kd.where(), detail="fed: %s" % sorted(items))
    # rule H over everything that computes a digest: no unordered iteration may feed a sequential hasher or an ordered list
    from . import hashorder
    nH = 0
    for g in prog.lib_fns():
        if g.file != "src/replication/anti_entropy.rs" or g.kind not in ("fn", "method", "closure"):
            continue
        if not re.search(r"anti_entropy::(KeyDigest|MerkleNode|StateDigest)::", g.id) or re.search(r"StateDigest::from_state", g.id):
            continue        # from_state: decided above (sorted before the fold)
        its = hashorder.hash_iterations(g)
        nH += len(its)
        for r in hashorder.analyse(prog, g):
            gid = re.sub(r"\{closure#\d+\}", "{closure}", g.id).replace("replication::anti_entropy::", "")
            ck.bad("R18.1", "%s:%s%s" % (gid, r["kind"], _tag(cfg)),
                   "a digest is computed from an unordered iteration: %s; equal states built or merged in a different order get different "
                   "digests (perpetual false 'divergent')" % r["what"], g.where(r["ln"]))
    ck.extra["digest_fn_hash_iterations"] = nH
    # ---- R18.3
    sync = prog.one("simulator::multi_node::MultiNodeSimulation::run_anti_entropy_sync")
    sel = [(b, t) for b, t in sync.calls() if is_callee(t, r"AntiEntropyManager::get_keys_in_buckets$")]
    app = [(b, t) for b, t in sync.calls() if is_callee(t, r"SimulatedNode::apply_remote_deltas$", r"::apply_remote_deltas$")]
    ck.check(len(sel) == 2 and len(app) == 2, "R18.3", "sync:two-selections-two-applies" + _tag(cfg),
             "run_anti_entropy_sync no longer selects from both sides and applies to both sides (%d selections, %d applies)" % (len(sel), len(app)), sync.where())
    if len(sel) == 2 and len(app) == 2:
        def node_of(f, operand):
            s = src_of_operand(f, operand, through_calls=TRANSPARENT)
            if s.kind == "call" and is_callee(s.term, r"Index<.*>>::index$", r"IndexMut<.*>>::index_mut$"):
                ix = src_of_operand(f, s.term["args"][1]) if len(s.term["args"]) > 1 else None
                return ix.path() if ix is not None else s.path()
            return s.path()
        pairs = []
        for ab, at in app:
            tgt = node_of(sync, at["args"][0])
            d = src_of_operand(sync, at["args"][1])
            srcn = None
            if d.kind == "call" and is_callee(d.term, r"get_keys_in_buckets$"):
                srcn = node_of(sync, d.term["args"][1])
            pairs.append((srcn, tgt))
        ok = len({p for p in pairs}) == 2 and all(a is not None and a != b for a, b in pairs) and {a for a, _ in pairs} == {b for _, b in pairs}
        ck.check(ok, "R18.3", "sync:bidirectional" + _tag(cfg),
                 "the sync does not apply each side's selection to the other side (%s): one replica keeps its divergent keys" % pairs,
                 sync.where(app[0][1]["ln"]), detail="A->B and B->A: %s" % pairs)
        # what was selected is what is applied: the selection is not narrowed in between
        for sb_, st_ in sel:
            if "p" in st_["dest"]:
                continue
            vals, refs = lib2.value_aliases(sync, st_["dest"]["l"])
            for b2, t2 in sync.calls():
                if t2["args"] and is_callee(t2, r"Vec::<.*>::(retain|retain_mut|truncate|drain|clear|pop|remove|swap_remove|dedup\w*|split_off)$"):
                    a0 = op_place(t2["args"][0]) if "c" not in t2["args"][0] else None
                    if a0 is not None and a0["l"] in (vals | refs):
                        ck.bad("R18.3", "sync:selection-narrowed:%s%s" % (callee(t2).rsplit("::", 1)[-1], _tag(cfg)),
                               "the keys selected from the divergent buckets are narrowed (%s) before they are applied to the peer: an update "
                               "the peer lacks can be filtered out on every round, so the two sides never hold the merge"
                               % callee(t2).rsplit("::", 1)[-1], sync.where(t2["ln"]))
        # both applies on every path that selected
        for ab, at in app:
            ck.check(all(sync.dominates(sb, ab) for sb, _ in sel), "R18.3", "sync:apply-after-selection#%d%s" % (app.index((ab, at)), _tag(cfg)),
                     "an apply is not dominated by both selections", sync.where(at["ln"]))
    # ---- R18.4 / R18.6
    gk = prog.one(AE + "AntiEntropyManager::get_keys_in_buckets")
    filt = [(b, t) for b, t in gk.calls() if is_callee(t, r"Iterator>::filter::", r"Iterator>::filter_map::", r"Iterator>::skip_while::", r"Iterator>::take_while::")]
    ck.check(len(filt) == 1, "R18.6", "get_keys_in_buckets:single-filter" + _tag(cfg),
             "get_keys_in_buckets applies %d filtering adaptors: keys of a divergent bucket are withheld by a criterion other than bucket "
             "membership (e.g. tombstones), so the peer never receives them and the digests never agree" % len(filt),
             gk.where(filt[-1][1]["ln"]) if filt else gk.where(), detail="exactly one filter")
    for b, t in filt[:1]:
        clo = src_of_operand(gk, t["args"][1])
        cf = prog.fns.get(clo.rv["n"]) if clo.kind == "agg" and clo.rv["ak"] == "closure" else None
        if cf is not None:
            calls = [callee(x).rsplit("::", 1)[-1] for _, x in cf.calls()]
            allowed = {"new", "bucket", "contains", "deref", "borrow"}
            extra = [c for c in calls if c not in allowed]
            ck.check(not extra and "bucket" in calls and "contains" in calls, "R18.6", "get_keys_in_buckets:predicate" + _tag(cfg),
                     "the selection predicate is not `buckets.contains(KeyDigest::new(k, v).bucket(depth))` (calls: %s)" % calls,
                     cf.where(), detail="predicate = bucket membership")
            # R18.4: depth argument - the configured depth, read directly or through the local `depth` of the enclosing function
            dsrc = None
            for b2, i2, st2 in gk.stmts():
                if "p" not in st2["lhs"] and gk.name_of_local(st2["lhs"]["l"]) == "depth" and st2["rv"]["k"] == "use":
                    dsrc = src_of_operand(gk, st2["rv"]["a"])
            for bb, tt in cf.calls():
                if is_callee(tt, r"KeyDigest::bucket$"):
                    d = src_of_operand(cf, tt["args"][1], through_calls=TRANSPARENT)
                    direct = d.fields[-1:] == ("merkle_tree_depth",)
                    via_local = d.kind == "path" and "depth" in (d.root or "") and dsrc is not None and dsrc.fields[-1:] == ("merkle_tree_depth",)
                    ck.check(direct or via_local, "R18.4", "get_keys_in_buckets:depth" + _tag(cfg),
                             "key selection computes buckets with %s instead of the configured merkle_tree_depth" % d.path(), cf.where(tt["ln"]),
                             detail="bucket(config.merkle_tree_depth)")
    for b, t in fs.calls():
        if is_callee(t, r"KeyDigest::bucket$"):
            d = src_of_operand(fs, t["args"][1])
            if d.kind == "agg" and d.rv.get("ak") == "closure" and d.fields and str(d.fields[0]).isdigit() and int(d.fields[0]) < len(d.rv.get("ops", [])):
                # read through the environment of a `for_each` closure that was expanded in place: the captured variable itself
                d = src_of_operand(fs, d.rv["ops"][int(d.fields[0])])
            ck.check(d.kind == "path" and d.root == "depth", "R18.4", "from_state:depth" + _tag(cfg),
                     "digest construction computes buckets with %s instead of its depth parameter" % d.path(), fs.where(t["ln"]), detail="bucket(depth)")
    # every caller of from_state passes the configured depth
    n4 = 0
    for f in prog.lib_fns():
        for b, t in f.calls():
            if is_callee(t, r"StateDigest::from_state$") and not f.file.endswith("_dst.rs"):
                d = src_of_operand(f, t["args"][3])
                n4 += 1
                ck.check(d.fields[-1:] == ("merkle_tree_depth",) or (d.kind == "path" and "depth" in (d.root or "")), "R18.4",
                         "%s:from_state-depth%s" % (f.id.replace("replication::", ""), _tag(cfg)),
                         "a digest is built with depth %s, not the configured merkle_tree_depth" % d.path(), f.where(t["ln"]), detail="configured depth")
    ck.floor("R18.4" + _tag(cfg), n4, 1)
    # ---- R18.7 limit after the bucket filter
    n7 = 0
    for f in prog.lib_fns():
        if not f.file.endswith("replication/anti_entropy.rs"):
            continue
        for ff in (prog.with_children(f) if "{closure" not in f.id else ()):
            for b, t in ff.calls():
                if not is_callee(t, r"Iterator>::(filter|filter_map|take_while|skip_while)$", r"Iterator::(filter|filter_map)$"):
                    continue
                ch = iter_chain(ff, t["args"][0])
                names = [n for n, _ in ch]
                n7 += 1
                # a positional cut counts when it is the per-round limit, or when what is cut is the key map itself
                src_t = ch[-1][1] if ch else None
                from_map = src_t is not None and is_callee(src_t, r"HashMap::<.*>::(iter|keys|values)$", r"HashMap<.*> as std::iter::IntoIterator>::into_iter$")
                cut = []
                for nm, ct in ch:
                    if nm not in ("take", "skip", "step_by", "nth", "truncate"):
                        continue
                    lim = src_of_operand(ff, ct["args"][1], through_calls=TRANSPARENT) if len(ct["args"]) > 1 else None
                    if from_map or (lim is not None and "max_keys_per_sync" in lim.fields):
                        cut.append(nm)
                ck.check(not cut, "R18.7", "%s:limit-before-filter%s" % (f.id.replace("replication::anti_entropy::", ""), _tag(cfg)),
                         "the key map is cut by %s before the divergent-bucket filter sees it: keys beyond the cut are never examined, so a "
                         "divergent key stored behind it is never shipped and the replicas' digests never become equal" % cut,
                         ff.where(t["ln"]), detail="filter over %s" % list(reversed(names)))
    ck.floor("R18.7" + _tag(cfg), n7, 2)
    # ---- R18.8 bounded selection can make progress
    n8 = 0
    for f in prog.lib_fns():
        if not f.file.endswith("replication/anti_entropy.rs") or "{closure" in f.id:
            continue
        stuck = []
        for ff in prog.with_children(f):
            for b, t in ff.calls():
                if not is_callee(t, r"Iterator>?::take(::<.*>)?$"):
                    continue
                lim = src_of_operand(ff, t["args"][1], through_calls=TRANSPARENT)
                if "max_keys_per_sync" not in lim.fields:
                    continue
                n8 += 1
                ch = iter_chain(ff, t["args"][0])
                names = [n for n, _ in ch]
                src_t = ch[-1][1] if ch else None
                hashed = src_t is not None and is_callee(src_t, r"HashMap::<.*>::(iter|keys|values)$", r"HashMap<.*> as std::iter::IntoIterator>::into_iter$")
                resume = [n for n in names if n in ("skip", "skip_while", "range", "cycle")]
                if hashed and not resume:
                    stuck.append((ff, t, names))
        if stuck:
            ff, t, names = stuck[0]
            ck.bad("R18.8", "%s:bounded-prefix-without-resume%s" % (f.id.replace("replication::anti_entropy::", ""), _tag(cfg)),
                   "the keys shipped per round are the first max_keys_per_sync of a HashMap iteration filtered by bucket only (%s): the same "
                   "prefix is selected in every round, so a differing key stored behind it is never shipped and the exchange never completes "
                   "(witness: witness/kf_witness_3.rs)" % list(reversed(names)), ff.where(t["ln"]), sites=len(stuck))
    ck.ok("R18.8", "scan" + _tag(cfg), "%d bounded selections examined" % n8)


def _ops(rv):
    k = rv["k"]
    if k in ("use", "cast", "un"):
        return [rv["a"]]
    if k == "bin":
        return [rv["a"], rv["b"]]
    if k in ("ref", "discr"):
        return [{"cp": rv["pl"]}]
    if k == "agg":
        return rv["ops"]
    return []


def _r1810(ck, prog, cfg):
    from .lib import src_of_operand
    SD = AE + "StateDigest"
    n = 0
    for f in prog.lib_fns():
        if f.file != "src/replication/anti_entropy.rs" or "::tests::" in f.id or f.kind not in ("fn", "method"):
            continue
        ret = str(f.locals[0]) if f.locals else ""
        if ret != SD or f.id == SD + "::from_state" or f.d.get("implements"):
            continue
        n += 1
        calls = [(b, t) for b, t in f.calls() if is_callee(t, r"StateDigest::from_state$")]
        dom = [b for b, t in calls if all(f.dominates(b, e) for e in f.exits())]
        fresh = False
        for b, t in calls:
            a = src_of_operand(f, t["args"][0])
            if b in dom and a.kind == "path" and a.local is not None and 1 <= a.local <= f.d["argc"] and a.root != "self":
                fresh = True
        # the returned value is that call's result on every path
        direct = True
        for bb, i, st in f.stmts():
            if st["lhs"] == {"l": 0}:
                v = src_of_operand(f, st["rv"]["a"], through_calls=(r"::clone$",)) if st["rv"]["k"] == "use" else None
                if not (v is not None and v.kind == "call" and is_callee(v.term, r"StateDigest::from_state$")):
                    direct = False
        for bb, t in f.calls():
            if t.get("dest") == {"l": 0} and not is_callee(t, r"StateDigest::from_state$"):
                direct = False
        ck.check(fresh and direct, "R18.10", "%s:computed-from-the-state-passed-in%s" % (f.short, _tag(cfg)),
                 "%s can return a StateDigest that was not computed by StateDigest::from_state from its key-map argument on that path (a stored "
                 "or memoised digest): after a remote update to an existing key the node keeps advertising the old digest - equal digests "
                 "for unequal states, the sync ships nothing" % f.short, f.where(), detail="from_state(keys) dominates every return")
    ck.floor("R18.10" + _tag(cfg), n, 1)
    a = prog.adts.get(AE + "AntiEntropyManager")
    if a:
        kept = [fl["n"] for v in a["variants"] for fl in v["fields"] if ("StateDigest" in fl["t"] or "MerkleNode" in fl["t"]) and "ReplicaId" not in fl["t"]]      # per-peer digests received from others are not ours
        ck.check(not kept, "R18.10", "manager-keeps-no-digest" + _tag(cfg),
                 "AntiEntropyManager stores a digest (%s): a digest kept across calls describes an earlier state" % kept, None,
                 detail="no StateDigest/MerkleNode field")


def _r1811(ck, prog, cfg):
    fs = [f for f in prog.lib_fns() if f.id == "simulator::multi_node::SimulatedNode::apply_remote_deltas"]
    if not fs:
        ck.anchor_lost("R18.11", "SimulatedNode::apply_remote_deltas not found")
        return
    f = fs[0]
    heads = lib2.loop_heads(f)
    sinks = {b for g in [f] for b, t in g.calls() if is_callee(t, r"ShardReplicaState::apply_remote_delta$")}
    n = 0
    for h in sorted(heads):
        none_t, some_t, nb = heads[h]
        # only the loop over the delivered batch (its iterator derives from the deltas parameter)
        src = src_of_operand(f, f.term(nb)["args"][0], through_calls=TRANSPARENT + (r"IntoIterator>::into_iter$", r"Iterator>::by_ref$"))
        if not (src.kind == "path" and src.local is not None and 1 <= src.local <= f.d["argc"]) and len(heads) > 1:
            continue
        n += 1
        lib2.whole_batch(ck, f, h, "R18.11", "apply_remote_deltas:whole-batch" + _tag(cfg), "the delivered batch")
        skip = lib2.iteration_skips(f, h, sinks)
        ck.check(skip is None and bool(sinks), "R18.11", "apply_remote_deltas:every-delta-merged" + _tag(cfg),
                 "an iteration over the delivered deltas can finish without calling ShardReplicaState::apply_remote_delta (path through blocks %s): "
                 "a delta selected for a divergent bucket is dropped on arrival, so the receiver never holds the merge and the digests keep "
                 "differing" % (skip[:6] if skip else "-"), f.where(), detail="apply_remote_delta on every iteration")
    ck.floor("R18.11" + _tag(cfg), n, 1)
