"""C06 — replicas converge: command->delta and delta->executor glue clauses."""
import re
from .facts import callee_names, callee, op_place, op_local
from .lib import src_of_operand, src_of_place, is_callee, TRANSPARENT, switch_info, edge_targets
from . import lib2

ACT = "production::replicated_shard_actor::ReplicatedShardActor::"


def _tag(cfg):
    return "" if cfg == "default" else "@" + cfg


def run(ck, ctx):
    ck.rule("R06.1", "recorded delta reflects the outcome: every value handed to ShardReplicaState::record_write / record_hash_write has "
                     "its provenance in the executor's post-state (executor.get_data().get(key)), not in the command's own operands")
    ck.rule("R06.2", "re-materialisation errors are not dropped: the result of every executor.execute(&cmd) used to push merged state into "
                     "the executor (remote delta, recovered state) is inspected")
    ck.rule("R06.3", "remote ingest = clock update + merge: ShardReplicaState::apply_remote_delta calls LamportClock::update and "
                     "ReplicatedValue::merge before it stores")
    ck.rule("R06.5", "what a replica serves equals its replication state: after a remote delta is merged, whether and what is pushed "
                     "into the executor is decided from the merged value only, never from the incoming delta (no stale-delta shortcut)")
    ck.rule("R06.6", "stamps are compared as a whole: conflict resolution never orders two Lamport stamps by `.time` alone (the replica "
                     "id tie-break is part of the order)")
    ck.rule("R06.7", "every local update is handed to replication: in ReplicatedShardedState::execute a delta returned by the shard reaches "
                     "queue_deltas on every path when replication is enabled (both gossip back ends), and apply_remote_deltas forwards "
                     "every received delta to the shard that owns its key")
    ck.rule("R06.8", "delivery order cannot matter: every merge function applied to delivered updates is a certified lattice join "
                     "(commutative, associative, idempotent by shape) - the C07 certificate R07.0-R07.3, shared: replicas that received the "
                     "same updates in different orders, or twice, agree only if the merge has these laws")
    ck.nd("convergence as a run-time fact (gossip/anti-entropy liveness, partitions); TTL agreement")
    from . import c07
    c07.certify(ck, rid=lambda r: "R06.8", floor_id="R06.8")
    ck.rule("R06.9", "the stamp order replicas agree on is produced by a monotone clock: every store to LamportClock.time is time+c or "
                     "max(time, x)+c, tick/update advance on every path, and no code replaces a node clock or its owner wholesale "
                     "(shared with C08 R08.1): a node whose clock falls behind a value it holds stamps its next accepted write below that "
                     "value - it serves the new value while every peer keeps the old one")
    ck.rule("R06.10", DELTA_TEXT)
    ck.rule("R06.11", "stamps order updates the same way everywhere: a local write is stamped with the tick taken for it (the outer stamp follows the "
                      "tick), and every insert of a remote value into the replication state is dominated by the clock update past its stamp - a "
                      "replica that stamps a later write below an update it has already seen loses that write on its peers but keeps it locally "
                      "(shared with C08 R08.2/R08.3)")
    for cfg in ctx.configs:
        prog = ctx.prog(cfg)
        ck.configs.append(cfg)
        ck.fn_count += len(prog.fns)
        from . import c08 as _c08
        from .core import Alias as _Alias
        _c08._r081(_Alias(ck, "R08.1", "R06.9"), prog, cfg)
        from .core import Only as _Only
        _c08._r082(_Only(ck, {"R08.2": "R06.11"}), prog, cfg)
        _c08._r083(_Only(ck, {"R08.3": "R06.11"}), prog, cfg)
        _c08.r0812(ck, prog, cfg, "R06.11")
        from . import c07 as _c07i
        _c07i.r076(ck, prog, cfg, "R06.11")
        _r061(ck, prog, cfg)
        _r062(ck, prog, cfg)
        _r063(ck, prog, cfg)
        _r065(ck, prog, cfg)
        r066(ck, prog, cfg, "R06.6")
        _r067(ck, prog, cfg)
        r0610(ck, prog, cfg, "R06.10")


def _r061(ck, prog, cfg):
    f = prog.one(ACT + "record_mutation_post_execute")
    n = 0
    names = [v["n"] for v in prog.adts["redis::command::Command"]["variants"]]
    for b, t in f.calls():
        if not is_callee(t, r"ShardReplicaState::(record_write|record_hash_write)$"):
            continue
        n += 1
        which = callee(t).rsplit("::", 1)[-1]
        val = src_of_operand(f, t["args"][2], through_calls=TRANSPARENT + (r"::clone$", r"Iterator>::collect::", r"Iterator>::map::", r"<impl \[.*\]>::iter$",
                                                                               r"Vec::<.*>::iter$", r"Deref>::deref$", r"slice::<impl \[.*\]>::into_vec", r"Box::<.*>::new"))
        # which command arm are we in?
        arm = "?"
        for g in lib2.guards(f, b):
            si = g["si"]
            if si and si["kind"] == "discr" and si["ty"] == "redis::command::Command" and g["value"] != "else":
                arm = names[int(g["value"])]
        from_cmd = val.kind == "path" and val.root == "cmd"
        post = _from_post_state(f, t["args"][2])
        key = "record_mutation_post_execute:%s[%s]#%d%s" % (which, arm, _ord(f, b), _tag(cfg))
        ck.check(post and not from_cmd, "R06.1", key,
                 "the delta for %s records the command's own operand (%s) instead of the executor's post-state: when the command failed or "
                 "was a no-op locally (WRONGTYPE, NX on an existing key, XX/GET variants) peers still receive and apply the value"
                 % (arm, val.path()), f.where(t["ln"]), detail="value read back from executor.get_data()")
    ck.floor("R06.1" + _tag(cfg), n, 5)


def _from_post_state(f, operand, depth=0):
    """value derives from CommandExecutor::get_data().get(key)..."""
    seen = set()
    work = [operand]
    while work and len(seen) < 200:
        o = work.pop()
        if "c" in o:
            continue
        s = src_of_operand(f, o, through_calls=TRANSPARENT + (r"::clone$",))
        k = (s.kind, s.local, s.path())
        if k in seen:
            continue
        seen.add(k)
        if s.kind == "call":
            if is_callee(s.term, r"CommandExecutor::get_data$"):
                return True
            for a in s.term["args"]:
                work.append(a)
            if is_callee(s.term, r"Box::<.*>::new_uninit", r"Box::<.*>::new\b") and "p" not in s.term["dest"]:
                # vec![..]: the elements are written through the fresh box
                vals, refs = lib2.value_aliases(f, s.term["dest"]["l"], through=(r"box_", r"Box::<.*>::", r"MaybeUninit", r"ptr::"))
                for bb, ii, st in f.stmts():
                    if "p" in st["lhs"] and st["lhs"]["l"] in (vals | refs):
                        rv = st["rv"]
                        if rv["k"] == "agg":
                            work.extend(rv["ops"])
                        elif rv["k"] in ("use", "cast"):
                            work.append(rv["a"])
        elif s.kind == "agg":
            for a in s.rv["ops"]:
                work.append(a)
        elif s.kind in ("multi",) and s.local is not None:
            for (b, i, kind, payload) in f.defs().get(s.local, []):
                if kind == "assign" and payload["k"] == "use":
                    work.append(payload["a"])
                elif kind == "call":
                    for a in payload["args"]:
                        work.append(a)
    return False


def _ord(f, b):
    sites = sorted(bb for bb, t in f.calls() if is_callee(t, r"ShardReplicaState::(record_write|record_hash_write)$"))
    return sites.index(b)


def _r062(ck, prog, cfg):
    n = 0
    for name in (ACT + "apply_remote_delta_impl", ACT + "run::{closure#0}"):
        f = prog.one(name)
        short = name.replace(ACT, "")
        # in run, only the ApplyRecoveredState arm re-materialises; the Execute arm returns the result to the client
        for b, t in sorted(f.calls(), key=lambda x: (x[1].get("ln") or 0, x[0])):
            if not is_callee(t, r"CommandExecutor::execute$"):
                continue
            if short.startswith("run"):
                used = lib2.dest_used(f, b)
                if used:
                    continue  # the client-facing Execute arm
            n += 1
            cmd = src_of_operand(f, t["args"][1], through_calls=TRANSPARENT)
            what = cmd.path()
            if cmd.kind == "call":
                what = callee(cmd.term).rsplit("::", 1)[-1]
            elif cmd.kind == "agg":
                what = cmd.rv["n"].rsplit("::", 1)[-1]
            if cmd.kind in ("multi", "path") and cmd.local is not None and cmd.local > f.d["argc"] and not cmd.fields and len(f.defs().get(cmd.local, [])) >= 2:
                # `let cmd = match .. { a => Command::setex(..), b => Command::set(..) }`: judge every alternative
                alts = []
                for (db, di, kind, payload) in f.defs().get(cmd.local, []):
                    if kind == "call":
                        from .lib import Src
                        alts.append(Src("call", term=payload, site=(db, di), local=cmd.local))
                    elif kind == "assign" and payload["k"] == "agg":
                        from .lib import Src
                        alts.append(Src("agg", rv=payload, site=(db, di), local=cmd.local))
                    elif kind == "assign" and payload["k"] == "use":
                        alts.append(src_of_operand(f, payload["a"], through_calls=TRANSPARENT))
                judged = [(a, _can_fail(prog, f, a)) for a in alts]
                bad_alts = [a for a, (fl, w) in judged if fl]
                def _nm(a):
                    return callee(a.term).rsplit("::", 1)[-1] if a.kind == "call" else (a.rv["n"].rsplit("::", 1)[-1] if a.kind == "agg" else a.path())
                if alts and not bad_alts:
                    ck.ok("R06.2", "%s:execute(%s)#%d%s" % (short, "|".join(sorted(_nm(a) for a in alts)), _ordx(f, b, "|".join(sorted(_nm(a) for a in alts))), _tag(cfg)), "no alternative can fail")
                    continue
                if bad_alts:
                    what = "|".join(sorted(_nm(a) for a in bad_alts))
                    cmd = bad_alts[0]
            fallible, why = _can_fail(prog, f, cmd)
            if not fallible:
                ck.ok("R06.2", "%s:execute(%s)#%d%s" % (short, what, _ordx(f, b, what), _tag(cfg)), "cannot fail: " + why)
                continue
            ck.check(lib2.dest_used(f, b), "R06.2", "%s:execute(%s)#%d%s" % (short, what, _ordx(f, b, what), _tag(cfg)),
                     "the reply of the command that pushes merged replication state into the executor is thrown away: when it fails "
                     "(type change on the key -> WRONGTYPE; SETEX with 0 seconds) the node keeps serving what its replication state does "
                     "not say", f.where(t["ln"]), detail="result inspected")
    ck.floor("R06.2" + _tag(cfg), n, 5)


def _ctor_shape(prog, f, cmd):
    """(variant name, {field name: 'false'|'None'}) for the Command value passed to execute, or (None, {})"""
    adt = prog.adts["redis::command::Command"]
    def from_agg(g, rv):
        vn = rv["n"].rsplit("::", 1)[-1]
        var = [v for v in adt["variants"] if v["n"] == vn]
        consts = {}
        if var:
            for fl, o in zip(var[0]["fields"], rv.get("ops", [])):
                if "c" in o:
                    if o["c"].strip() in ("const false", "false"):
                        consts[fl["n"]] = "false"
                else:
                    s2 = src_of_operand(g, o)
                    if s2.kind == "agg" and s2.rv["n"].endswith("Option::None"):
                        consts[fl["n"]] = "None"
        return vn, consts
    if cmd.kind == "agg" and cmd.rv["n"].startswith("redis::command::Command::"):
        return from_agg(f, cmd.rv)
    if cmd.kind == "call":
        g = prog.local_callee(f, cmd.term)
        if g is not None:
            for b, i, st in g.stmts():
                if st["lhs"] == {"l": 0} and st["rv"]["k"] == "agg" and st["rv"]["n"].startswith("redis::command::Command::"):
                    return from_agg(g, st["rv"])
    return None, {}


def _can_fail(prog, f, cmd):
    """Can CommandExecutor::execute return an error reply for this constructed command?  Decided from the handler's error
    sites: infallible only if every error site is guarded by the true/Some edge of a parameter that the constructor fixes
    to false/None.  Unknown shapes count as fallible (reported)."""
    from . import effects
    vn, consts = _ctor_shape(prog, f, cmd)
    if vn is None:
        return True, "command value of unknown construction"
    ex = prog.one("redis::executor::CommandExecutor::execute")
    sw, table = effects.dispatch_table(prog, ex)
    hs = [prog.local_callee(ex, t) for t in table.get(vn, [])]
    hs = [h for h in hs if h is not None and h.short.startswith("execute_")]
    if not hs:
        return True, "handler of Command::%s not found" % vn
    total = 0
    for h in hs:
        for g in [h] + prog.children(h):
            for b, ln, txt in effects.error_sites(g):
                total += 1
                okg = False
                for gd in lib2.guards(g, b):
                    src = gd["src"]
                    if src is None or src.kind != "path" or g is not h:
                        continue
                    c = consts.get(src.root)
                    si = gd["si"]
                    if c == "false" and lib2.guard_is_true(gd):
                        okg = True
                    if c == "None" and si and si["kind"] == "discr" and gd["value"] == "1":
                        okg = True
                if not okg:
                    return True, "%s can answer %s" % (h.short, txt or "an error")
            # a handler that delegates to another fallible executor method
            for b, t in g.calls():
                c2 = prog.local_callee(g, t)
                if c2 is not None and c2.short.startswith("execute_") and c2 is not h and effects.error_sites(c2):
                    return True, "%s delegates to %s" % (h.short, c2.short)
    return False, "Command::%s built with %s: none of the %d error sites of %s is reachable" % (vn, consts or "no fixed options", total, [h.short for h in hs])


_ordx_seen = {}


def _ordx(f, b, what=None):
    """ordinal of this re-materialising call among the calls of the same function that push the same kind of command (by source
    line): stable when other calls are added, merged or moved into helpers"""
    key = (id(f), what)
    seen = _ordx_seen.setdefault(key, [])
    if b not in seen:
        seen.append(b)
    return seen.index(b)


def _r063(ck, prog, cfg):
    ing = prog.one("replication::state::shard_state::ShardReplicaState::apply_remote_delta")
    ups = [(b, t) for b, t in ing.calls() if is_callee(t, r"LamportClock::update$")]
    mer = [(b, t) for b, t in ing.calls() if is_callee(t, r"ReplicatedValue::merge$")]
    ins = [(b, t) for b, t in ing.calls() if is_callee(t, r"HashMap::<.*ReplicatedValue>::insert$")]
    ck.check(len(ups) >= 1 and len(ins) >= 1 and all(ing.dominates(ups[0][0], ib) for ib, _ in ins), "R06.3", "ingest:update-before-store" + _tag(cfg),
             "the remote value is stored without a dominating LamportClock::update", ing.where(), detail="update dominates insert")
    # every received delta ends up stored: no exit of the ingest that skips the insert (a dropped tombstone lets an older SET win later)
    ins_b = {ib for ib, _ in ins}
    skip = lib2.path_avoiding(ing, 0, lambda x: ing.term(x)["k"] == "return", lambda x: x in ins_b, (), from_succ=False)
    ck.check(bool(ins_b) and skip is None, "R06.3", "ingest:always-stores" + _tag(cfg),
             "ShardReplicaState::apply_remote_delta can return without storing the merged value (a received delta - e.g. a tombstone for a key "
             "not yet known - is dropped): delivery order then decides the outcome, replicas diverge", ing.where(), detail="insert on every path")
    # on the path where a local value exists the stored value is the merge result
    good = False
    for ib, it in ins:
        v = src_of_operand(ing, it["args"][2])
        if v.kind in ("multi", "path") and v.local is not None:
            defs = ing.defs().get(v.local, [])
            kinds = set()
            for (b, i, kind, payload) in defs:
                if kind == "call" and is_callee(payload, r"ReplicatedValue::merge$"):
                    kinds.add("merge")
                elif kind == "assign":
                    kinds.add("plain")
            good = "merge" in kinds
        elif v.kind == "call" and is_callee(v.term, r"ReplicatedValue::merge$"):
            good = True
    ck.check(good and len(mer) >= 1, "R06.3", "ingest:stores-merge" + _tag(cfg),
             "the remote value overwrites an existing local value instead of being merged with it (last delivered wins: replicas diverge "
             "with delivery order)", ing.where(), detail="existing.merge(&remote)")
    # the Some(local) edge must lead to merge: the plain path only under None
    if mer:
        mb = mer[0][0]
        ok = False
        for g in lib2.guards(ing, mb):
            si = g["si"]
            if si and si["kind"] == "discr" and si["ty"].startswith("std::option::Option<") and si["src"].kind == "call" and \
                    is_callee(si["src"].term, r"HashMap::<.*ReplicatedValue>::(remove|get|get_mut)"):
                ok = g["value"] == "1" or g["value"] == "else"
        ck.check(ok, "R06.3", "ingest:merge-when-present" + _tag(cfg), "merge is not tied to 'a local value exists'", ing.where(mer[0][1]["ln"]),
                 detail="merge on the Some(existing) edge")


def _r065(ck, prog, cfg):
    f = prog.one(ACT + "apply_remote_delta_impl")
    ing = [(b, t) for b, t in f.calls() if is_callee(t, r"ShardReplicaState::apply_remote_delta$")]
    if len(ing) != 1:
        ck.anchor_lost("R06.5", "apply_remote_delta_impl does not call the ingest exactly once")
        return
    ib = ing[0][0]
    after = f.reach([ib])
    n = 0
    for sb in sorted(after):
        t = f.term(sb)
        if t["k"] != "switch":
            continue
        si = switch_info(f, sb)
        if si is None or si["src"] is None:
            continue
        roots = _roots(f, si)
        n += 1
        # a snapshot of the replication state taken *before* the ingest is not the merged value either
        stale = []
        for r in sorted(roots):
            ls = [n["pl"]["l"] for n in f.names if n["n"] == r and "p" not in n["pl"]]
            if not ls:
                continue
            l = ls[0]
            for (db, di, kind, payload) in f.defs().get(l, []):
                if db in after or db == ib:
                    continue
                sv = src_of_operand(f, {"cp": {"l": l}}, through_calls=TRANSPARENT + (r"Option::<.*>::(map|cloned|copied|as_ref)$", r"HashMap::<.*>::get", r"Deref>::deref$"))
                if "replica_state" in sv.fields or "replicated_keys" in sv.fields:
                    stale.append(r)
        if stale:
            ck.bad("R06.5", "apply_remote_delta_impl:branch-on-pre-merge-snapshot%s" % _tag(cfg),
                   "after merging, the decision to update the executor depends on %s, read from the replication state before the merge: what the "
                   "node serves must follow the merged value (a delta that loses the key-level comparison can still add hash fields)" % stale,
                   f.where(t["ln"]))
        if "delta" in roots - {"delta.key"}:
            ck.bad("R06.5", "apply_remote_delta_impl:branch-on-incoming-delta#%d%s" % (n, _tag(cfg)),
                   "after merging, the decision to update the executor depends on the incoming delta (%s): a 'losing' delta can still "
                   "carry content the node has never materialised (per-field hash merge), so the executor falls behind the replication "
                   "state" % sorted(roots), f.where(t["ln"]))
    ck.ok("R06.5", "apply_remote_delta_impl:branches-examined" + _tag(cfg), "%d branches after the ingest examined" % n)
    ck.floor("R06.5" + _tag(cfg), n, 6)
    # the merged value is what is materialised: the commands are built from merged_value, which comes from replicated_keys.get(key)
    execs = [(b, t) for b, t in f.calls() if is_callee(t, r"CommandExecutor::execute$") and b in after]
    ck.check(len(execs) >= 4, "R06.5", "apply_remote_delta_impl:materialises" + _tag(cfg), "fewer than 4 executor updates after the ingest", f.where())


def _roots(f, si):
    """names of parameters the switch condition depends on (direct operands of comparisons / discriminant place)"""
    out = set()
    srcs = []
    s = si["src"]
    if s.kind == "rv" and s.rv["k"] == "bin":
        srcs = [src_of_operand(f, s.rv["a"], through_calls=TRANSPARENT + (r"PartialOrd>::(gt|lt|ge|le)$",)),
                src_of_operand(f, s.rv["b"], through_calls=TRANSPARENT)]
    elif s.kind == "call":
        srcs = [src_of_operand(f, a, through_calls=TRANSPARENT) for a in s.term["args"] if "c" not in a]
    else:
        srcs = [s]
    # a closure passed to a combinator (`opt.map_or(false, |l| delta.value.timestamp <= l)`) decides with what it captured
    for x in list(srcs):
        if x.kind == "agg" and x.rv.get("ak") in ("closure", "coroutine"):
            for o in x.rv.get("ops", []):
                if "c" not in o:
                    srcs.append(src_of_operand(f, o, through_calls=TRANSPARENT))
    for x in srcs:
        if x.kind == "path" and x.root:
            if x.root == "delta":
                out.add("delta.key" if x.fields[:1] == ("key",) else "delta")
            else:
                out.add(x.root)
        elif x.kind == "call":
            for a in x.term["args"]:
                if "c" in a:
                    continue
                y = src_of_operand(f, a, through_calls=TRANSPARENT)
                if y.kind == "path" and y.root == "delta":
                    out.add("delta.key" if y.fields[:1] == ("key",) else "delta")
    return out


def r066(ck, prog, cfg, rid):
    """no ordering of stamps by `.time` alone in conflict resolution code"""
    n = 0
    files = ("src/replication/lattice.rs", "src/replication/state/crdt_value.rs", "src/replication/state/replicated_value.rs",
             "src/replication/state/shard_state.rs", "src/production/replicated_shard_actor.rs")
    for f in prog.lib_fns():
        if f.file not in files:
            continue
        if f.d.get("implements") in ("std::cmp::Ord::cmp", "std::cmp::PartialOrd::partial_cmp") or f.short in ("tick", "update"):
            continue
        if f.id.endswith("LamportClock::merge"):
            continue
        for b, i, st in f.stmts():
            rv = st["rv"]
            if rv["k"] == "bin" and rv["op"] in ("Lt", "Le", "Gt", "Ge"):
                sa, sb = src_of_operand(f, rv["a"], through_calls=TRANSPARENT), src_of_operand(f, rv["b"], through_calls=TRANSPARENT)
                is_time = lambda s: s.fields[-1:] == ("time",) and rv.get("ta") == "u64"
                if is_time(sa) and is_time(sb):
                    n += 1
                    ck.bad(rid, "%s:cmp-by-time-only%s" % (f.id.replace("replication::", ""), _tag(cfg)),
                           "two Lamport stamps are ordered by `.time` alone (`%s %s %s`): on equal logical times from different replicas "
                           "neither side wins consistently, merge stops being commutative and replicas keep different values"
                           % (sa.path(), rv["op"], sb.path()), f.where(st["ln"]))
        for b, t in f.calls():
            if is_callee(t, r"<&?replication::lattice::LamportClock as std::cmp::PartialOrd>::(gt|lt|ge|le)$", r"<&?replication::lattice::LamportClock as std::cmp::Ord>::(cmp|max|min)$"):
                n += 1
                ck.ok(rid, "%s:whole-stamp-comparison#%d%s" % (f.id.replace("replication::", ""), n, _tag(cfg)), "stamps compared with the total order")
    ck.floor(rid + _tag(cfg), n, 2)


def _r067(ck, prog, cfg):
    from .lib import edge_targets
    fn = prog.one("production::replicated_state::ReplicatedShardedState::<T>::execute::{closure#0}")
    shard_exec = [b for b, t in fn.calls() if is_callee(t, r"ReplicatedShardHandle::execute$")]
    queues = {b for b, t in fn.calls() if is_callee(t, r"GossipState::queue_deltas$", r"GossipActorHandle::queue_deltas$")}
    ck.check(len(shard_exec) == 1 and len(queues) >= 2, "R06.7", "sites" + _tag(cfg),
             "expected one shard execute and a queue_deltas call per gossip back end (found %d / %d)" % (len(shard_exec), len(queues)), fn.where())
    if len(shard_exec) != 1 or not queues:
        return
    aw = lib2.await_result(fn, shard_exec[0])
    start = aw[1] if aw else shard_exec[0]
    exempt = set()
    for sb in sorted(fn.reachable_blocks()):
        si = switch_info(fn, sb)
        if not si:
            continue
        # no delta produced
        if si["kind"] == "discr" and si["ty"].startswith("std::option::Option<") and "ReplicationDelta" in si["ty"]:
            exempt.add((sb, edge_targets(fn, sb, 0)))
        # replication switched off
        if si["kind"] == "val" and si["src"].kind == "path" and si["src"].fields[-2:] == ("config", "enabled"):
            tt, ft = lib2.bool_edges(fn, sb)
            exempt.add((sb, ft))
    path = lib2.path_avoiding(fn, start, lambda x: fn.term(x)["k"] == "return", lambda x: x in queues, exempt, from_succ=False)
    lines = []
    for x in path or []:
        ln = fn.term(x).get("ln")
        if ln and (not lines or lines[-1] != ln):
            lines.append(ln)
    ck.check(path is None, "R06.7", "execute:delta-reaches-gossip" + _tag(cfg),
             "a delta produced by a local write can reach the reply without being queued for gossip although replication is enabled (lines %s): "
             "peers never learn of the write" % lines[:12], fn.where(fn.term(shard_exec[0])["ln"]), detail="queue_deltas on every path (exits: no delta, replication disabled)")
    # what is queued is that delta
    for qb in sorted(queues):
        t = fn.term(qb)
        o = t["args"][1]
        els = lib2.vec_macro_elems(fn, o)
        if els is not None and len(els) == 1:
            o = els[0]
        from_shard = False
        for _ in range(10):
            ss = src_of_operand(fn, o, through_calls=(r"Arc::<.*>::clone$", r"Clone>::clone$", r"Deref>::deref$", r"Arc::<.*>::try_unwrap$",
                                                      r"Result::<.*>::unwrap_or_else", r"Arc::<.*>::new$"))
            if ss.kind == "agg" and ss.rv.get("ops"):
                o = ss.rv["ops"][0]
                continue
            if ss.kind != "call":
                break
            if "ReplicatedShardHandle::execute" in " ".join(callee_names(ss.term)):
                from_shard = True
                break
            if not ss.term["args"]:
                break
            o = ss.term["args"][0]
        ck.check(from_shard, "R06.7", "execute:queued-value-is-the-shard-delta#%d%s" % (sorted(queues).index(qb), _tag(cfg)),
                 "queue_deltas is not given the delta the shard returned", fn.where(t["ln"]), detail="vec![delta] from the shard's reply")
    # receiving side: every delta of the batch goes to shard hash_key(delta.key)
    ar = prog.one("production::replicated_state::ReplicatedShardedState::<T>::apply_remote_deltas")
    sends = [(b, t) for b, t in ar.calls() if is_callee(t, r"ReplicatedShardHandle::apply_remote_delta$")]
    ck.check(len(sends) == 1, "R06.7", "apply_remote_deltas:forwards" + _tag(cfg), "apply_remote_deltas does not forward to exactly one shard call", ar.where())
    for b, t in sends:
        idx = [tt for bb, tt in ar.calls() if is_callee(tt, r"Index<.*>>::index$")]
        good = False
        for it in idx:
            i = src_of_operand(ar, it["args"][1])
            if i.kind == "call" and is_callee(i.term, r"replicated_state::hash_key$", r"::hash_key$"):
                k = src_of_operand(ar, i.term["args"][0], through_calls=TRANSPARENT + (r"Deref>::deref$", r"String::as_str$"))
                good = k.kind in ("path", "call") and "key" in k.fields
        ck.check(good, "R06.7", "apply_remote_deltas:owner-shard" + _tag(cfg), "the receiving shard is not hash_key(delta.key)", ar.where(t["ln"]),
                 detail="shards[hash_key(&delta.key)]")
        # per iteration: every delta taken from the batch reaches the forwarding call (no `continue` that drops one)
        from .c01 import _loop_heads
        heads = _loop_heads(ar)
        ck.check(len(heads) >= 1, "R06.7", "apply_remote_deltas:loop" + _tag(cfg), "no loop over the received batch found", ar.where())
        for hb, (none_t, some_t) in heads.items():
            nexts = {bb for bb, tt in ar.calls() if is_callee(tt, r"Iterator>::next$")}
            skip = lib2.path_avoiding(ar, some_t, lambda x: x in nexts or ar.term(x)["k"] == "return", lambda x, b=b: x == b, (), from_succ=False)
            ck.check(skip is None, "R06.7", "apply_remote_deltas:every-iteration-forwards" + _tag(cfg),
                     "an iteration over the received batch can end without forwarding its delta to a shard (a delta is dropped: it is never "
                     "merged, so a greater stamp or additional hash fields it carried are lost on this replica)", ar.where(t["ln"]),
                     detail="forwarding call on every path of the loop body")
        # inside the loop over all deltas, no filter
        skips = [callee(tt).rsplit("::", 1)[-1] for bb, tt in ar.calls() if is_callee(tt, r"Iterator>::(filter|take|skip|step_by|take_while|skip_while|filter_map)\b")]
        ck.check(not skips, "R06.7", "apply_remote_deltas:all-deltas" + _tag(cfg), "received deltas are filtered/truncated (%s) before being applied" % skips, ar.where(),
                 detail="every delta of the batch is forwarded")


# ------------------------------------------------------------------------------------------------
DELTA_TEXT = ("a delta is the whole state of its key: every ReplicationDelta a ShardReplicaState emits for a local update carries (a clone of) "
              "the very ReplicatedValue it stores in replicated_keys - not a projection of it (only the touched hash fields, only the live "
              "ones): the receiving side, compaction's keep-one-delta-per-key fold and the type-mismatch branch of merge all take a delta "
              "for the full value, so a partial one loses the untouched part on some replicas only")
SRS = "replication::state::shard_state::ShardReplicaState"


def r0610(ck, prog, cfg, rid):
    n = 0
    for f in prog.lib_fns():
        if f.impl_self != SRS or "test" in f.id:
            continue
        news = [(b, t) for b, t in f.calls() if is_callee(t, r"ReplicationDelta::new$") and len(t["args"]) >= 2]
        stores = [(b, t) for b, t in f.calls() if is_callee(t, r"HashMap::<std::string::String, replication::state::replicated_value::ReplicatedValue.*>::insert$")
                  and len(t["args"]) >= 3]
        if not news or not stores:
            continue

        def root(o):
            s_ = src_of_operand(f, o, through_calls=TRANSPARENT + (r"Clone>::clone$",))
            return ((s_.local, tuple(s_.fields)) if s_.kind in ("path", "call", "agg", "multi") and s_.local is not None else None), s_
        stored = {root(t["args"][2])[0] for _, t in stores} - {None}
        def edited_copy(o):
            """the operand is a clone held in a local that is written to (field store / &mut borrow) before it is shipped"""
            cur = op_local(o)
            for _ in range(6):
                if cur is None:
                    return None
                for b_, i_, st_ in f.stmts():
                    if st_["lhs"].get("l") == cur and st_["lhs"].get("p"):
                        return "field store at line %s" % st_["ln"]
                    if st_["rv"]["k"] == "ref" and st_["rv"].get("mut") and st_["rv"]["pl"].get("l") == cur:
                        return "&mut borrow at line %s" % st_["ln"]
                d_ = f.defs().get(cur, [])
                if len(d_) == 1 and d_[0][2] == "assign" and d_[0][3]["k"] == "use" and "c" not in d_[0][3]["a"] and op_place(d_[0][3]["a"]) is not None \
                        and not op_place(d_[0][3]["a"]).get("p"):
                    cur = op_place(d_[0][3]["a"])["l"]
                else:
                    return None
            return None
        for k, (b, t) in enumerate(news):
            n += 1
            r_, s_ = root(t["args"][1])
            ed = edited_copy(t["args"][1])
            if ed:
                ck.bad(rid, "%s:delta-value#%d%s" % (f.short, k, _tag(cfg)),
                       "the delta emitted by ShardReplicaState::%s carries a copy of the stored value that is modified before it is shipped (%s): peers, "
                       "recovery and compaction treat every delta as the key's full state" % (f.short, ed), f.where(t["ln"]))
                continue
            ck.check(r_ is not None and r_ in stored, rid, "%s:delta-value#%d%s" % (f.short, k, _tag(cfg)),
                     "the delta emitted by ShardReplicaState::%s carries %s, which is not (a clone of) the value it stores in replicated_keys (%s): "
                     "peers, recovery and compaction treat every delta as the key's full state" % (f.short, s_.path(), sorted(map(str, stored))),
                     f.where(t["ln"]), detail="delta value = clone of the stored value")
    ck.floor(rid + _tag(cfg), n, 4)
