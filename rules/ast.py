"""syn AST facts (engine/synq): loader + canonical normal forms for sibling comparison."""
import json
import os
import subprocess
import sys

from . import facts

SYNQ_DIR = os.path.join(facts.VERIF, "engine", "synq")
SYNQ = os.path.join(SYNQ_DIR, "target", "release", "synq")


def ensure_synq():
    src = os.path.join(SYNQ_DIR, "src", "main.rs")
    if os.path.exists(SYNQ) and os.path.getmtime(SYNQ) >= os.path.getmtime(src):
        return
    env = dict(os.environ, CARGO_NET_OFFLINE="true")
    for k in ("RUSTC_WRAPPER", "RUSTC_WORKSPACE_WRAPPER", "RUSTFLAGS"):
        env.pop(k, None)
    r = subprocess.run(["cargo", "build", "--offline", "--release"], cwd=SYNQ_DIR, env=env, stdout=subprocess.PIPE, stderr=subprocess.STDOUT, text=True)
    if r.returncode != 0:
        sys.stderr.write(r.stdout)
        raise SystemExit("synq failed to build")


_cache = {}


def load(files, repo=None):
    repo = repo or facts.REPO
    key = (repo, tuple(files))
    if key not in _cache:
        ensure_synq()
        r = subprocess.run([SYNQ, "--root", repo] + list(files), stdout=subprocess.PIPE, stderr=subprocess.PIPE, text=True)
        if r.returncode != 0:
            raise facts.BuildFailed("synq: " + r.stderr[-500:])
        _cache[key] = json.loads(r.stdout)
    return _cache[key]


def find_fn(ast, name, owner=None):
    out = [f for f in ast["fns"] if f["name"] == name and (owner is None or f["owner"] == owner)]
    return out


# ------------------------------------------------------------------------------------------------
# canonical printing with normalisation
# ------------------------------------------------------------------------------------------------

def walk(node, fn):
    """pre-order visit of every dict node"""
    if isinstance(node, dict):
        fn(node)
        for v in node.values():
            walk(v, fn)
    elif isinstance(node, list):
        for v in node:
            walk(v, fn)


def simplify(e):
    """flatten redundant blocks, `return X` in tail position of an arm -> X is NOT applied (returns matter); parens already removed"""
    if isinstance(e, list):
        return [simplify(x) for x in e]
    if not isinstance(e, dict):
        return e
    e = {k: simplify(v) for k, v in e.items()}
    if e.get("k") == "Block":
        st = e["stmts"]
        if len(st) == 1 and st[0].get("k") == "Expr" and not st[0].get("semi"):
            return st[0]["e"]
    return e


def _count_uses(node, name):
    n = 0

    def v(x):
        nonlocal n
        if x.get("k") == "Path" and x.get("p") == name:
            n += 1
        if x.get("k") == "Macro" and name in x.get("tokens", ""):
            n += 2  # do not inline into macro token soup
    walk(node, v)
    return n


def _subst(node, name, repl):
    if isinstance(node, list):
        return [_subst(x, name, repl) for x in node]
    if not isinstance(node, dict):
        return node
    if node.get("k") == "Path" and node.get("p") == name:
        return repl
    return {k: _subst(v, name, repl) for k, v in node.items()}


def inline_lets(e):
    """inline `let x = init;` (plain immutable identifier pattern) when x is used exactly once in the rest of the block"""
    if isinstance(e, list):
        return [inline_lets(x) for x in e]
    if not isinstance(e, dict):
        return e
    e = {k: inline_lets(v) for k, v in e.items()}
    if e.get("k") == "Block":
        stmts = list(e["stmts"])
        i = 0
        while i < len(stmts):
            st = stmts[i]
            if st.get("k") == "Let" and st.get("init") is not None and st.get("else") is None and st["pat"].get("k") == "PIdent" \
                    and not st["pat"].get("mut") and not st["pat"].get("ref") and st["pat"].get("sub") is None:
                name = st["pat"]["n"]
                rest = stmts[i + 1:]
                # shadowing by a later let of the same name: stop
                shadow = any(s2.get("k") == "Let" and s2["pat"].get("k") == "PIdent" and s2["pat"]["n"] == name for s2 in rest)
                if not shadow and _count_uses(rest, name) == 1:
                    stmts = stmts[:i] + _subst(rest, name, st["init"])
                    continue
            i += 1
        e["stmts"] = stmts
    return e


def normal_form(e, rename=None):
    return canon(simplify(inline_lets(simplify(e))), rename)


def canon(e, rename=None, drop_ln=True):
    """canonical string of an AST subtree: keys sorted, line numbers dropped, identifiers renamed"""
    rename = rename or {}

    def r(x):
        if isinstance(x, list):
            return [r(y) for y in x]
        if not isinstance(x, dict):
            return x
        out = {}
        for k, v in x.items():
            if drop_ln and k == "ln":
                continue
            out[k] = r(v)
        if out.get("k") == "Path" or out.get("k") in ("PPath", "PTupleStruct", "PStruct", "Struct"):
            p = out.get("p")
            if isinstance(p, str):
                for a, b in rename.items():
                    p = p.replace(a, b)
                out["p"] = p
        if out.get("k") == "MethodCall" and out.get("m") in rename:
            out["m"] = rename[out["m"]]
        if out.get("k") == "Macro":
            t = out.get("tokens", "")
            for a, b in rename.items():
                t = t.replace(a, b)
            out["tokens"] = t
        return out
    return json.dumps(r(e), sort_keys=True)


def pretty(e, depth=0):
    """short human readable rendering of an expression (for reports)"""
    if e is None:
        return "None"
    if isinstance(e, list):
        return ", ".join(pretty(x) for x in e)
    if not isinstance(e, dict):
        return str(e)
    k = e.get("k")
    if k == "Lit":
        v = e["v"]
        return json.dumps(v["v"]) if v["t"] == "str" else str(v["v"])
    if k == "Path":
        return e["p"]
    if k == "MethodCall":
        return "%s.%s(%s)" % (pretty(e["recv"]), e["m"], pretty(e["args"]))
    if k == "Call":
        return "%s(%s)" % (pretty(e["f"]), pretty(e["args"]))
    if k == "Field":
        return "%s.%s" % (pretty(e["e"]), e["f"])
    if k == "Ref":
        return "&" + pretty(e["e"])
    if k == "Try":
        return pretty(e["e"]) + "?"
    if k == "Index":
        return "%s[%s]" % (pretty(e["e"]), pretty(e["i"]))
    if k == "Binary":
        return "%s %s %s" % (pretty(e["l"]), e["op"], pretty(e["r"]))
    if k == "Unary":
        return e["op"] + pretty(e["e"])
    if k == "Return":
        return "return " + pretty(e.get("e"))
    if k == "Macro":
        return "%s!(%s)" % (e["name"], e["tokens"][:60])
    if k == "Struct":
        return "%s{%s}" % (e["p"], ", ".join(f["n"] for f in e["fields"]))
    if k == "If":
        return "if %s {..}" % pretty(e["c"])
    if k == "Match":
        return "match %s {..%d arms}" % (pretty(e["e"]), len(e["arms"]))
    if k == "Block":
        return "{%d stmts}" % len(e["stmts"])
    return k or "?"
