"""C07 — CRDT merge is commutative, associative and idempotent: merge-shape certificate over the syntax trees.

Each merge function is matched against the idioms enumerated from the repository (anything else is "shape not certified":
fail closed).  The recognised shape is a term over {max, union, pointwise(max), argmax_by(total order), nested(T),
optlift(op), select}; symmetry/idempotence/associativity are properties of the term.
"""
import json
import re
from . import ast as A
from . import facts
from .lib import is_callee

FILES = ("src/replication/lattice.rs", "src/replication/state/crdt_value.rs", "src/replication/state/replicated_value.rs")


def run(ck, ctx):
    ck.rule("R07.0", "shape certified: every merge function matches one of the enumerated lattice idioms exactly (no extra statement, "
                     "guard or early exit); an unrecognised construct is reported, never guessed")
    ck.rule("R07.1", "symmetry (commutativity): the result term is invariant under swapping self and other: every field is combined from "
                     "the same field of both sides by a commutative operator, call arguments are mirrored (self.x, other.x)")
    ck.rule("R07.2", "idempotence: every operator of the term is idempotent (max, union, argmax, nested merge of a certified type); "
                     "`+`, push, counters are not")
    ck.rule("R07.3", "associativity: joins of semilattices only; a select whose condition reads a stamp that is merged by a different "
                     "operator than the selected payload is reported as an associativity hazard")
    ck.rule("R07.4", "total order for argmax: Ord for LamportClock compares (time, replica_id) lexicographically, PartialOrd delegates to it")
    ck.rule("R07.5", "strictness agreement: every last-writer-wins selection takes `other` only when `other > self` (strictly)")
    ck.rule("R07.6", "a clock keeps its identity: the replica id of a LamportClock is written only when the clock is constructed - no store to "
                     "its `replica_id` field and no whole-value store through a `&mut LamportClock` (`*self = self.merge(other)` adopts the "
                     "sender's id) anywhere: two replicas that stamp with the same id can issue equal stamps for different values, and for equal "
                     "stamps every last-writer-wins merge keeps `self`, i.e. merge(a,b) != merge(b,a) on values the replicas really produce")
    from . import c08 as _c08t
    ck.rule("R07.7", _c08t.TICK_TEXT + " (shared with C08 R08.12: the merge laws are claimed for the values local operations can produce - equal stamps on "
                     "different payloads, or an inner stamp behind the outer one, are values on which the certified merge functions stop commuting "
                     "/ associating)")
    ck.nd("values 'reachable by local operations' are not modelled: the certificate quantifies over all field values")
    ck.assume("two stamps that are equal under the total order carry equal payloads (stamps are unique per replica: C08)")
    tree = certify(ck)
    _r074(ck, tree)
    # MIR cross-check shared with C06: no ordering of stamps by .time alone
    for cfg in ctx.configs:
        prog = ctx.prog(cfg)
        from . import c06
        c06.r066(ck, prog, cfg, "R07.5")
        r076(ck, prog, cfg, "R07.6")
        from . import c08 as _c08
        _c08.r0812(ck, prog, cfg, "R07.7")


def certify(ck, rid=lambda r: r, floor_id="R07.0", skip_rules=()):
    """the merge-shape certificate; `rid` maps R07.x rule ids (C06 reports them under its own shared rule)"""
    tree = A.load(FILES)
    _TREE["t"] = tree
    ck.configs.append("source")
    ck.fn_count += len(tree["fns"])
    fns = {(f["owner"].split("<")[0].strip(), f["name"]): f for f in tree["fns"] if not f["trait"]}
    certs = {}
    plan = [
        ("LamportClock", "merge", _argmax_whole),
        ("LwwRegister", "merge", _argmax_field("timestamp")),
        ("VectorClock", "merge", _pointwise_max("clocks")),
        ("GCounter", "merge", _pointwise_max("counts")),
        ("PNCounter", "merge", _fieldwise_nested),
        ("GSet", "merge", _union("elements")),
        ("ORSet", "merge", _orset),
        ("CrdtValue", "try_merge", _try_merge),
        ("CrdtValue", "merge_with_timestamps", _merge_with_ts),
        ("ReplicatedValue", "merge", _replicated_value),
    ]
    n = 0
    for owner, name, rec in plan:
        f = fns.get((owner, name))
        if f is None:
            ck.anchor_lost(rid("R07.0"), "%s::%s not found" % (owner, name))
            continue
        n += 1
        where = "%s:%d" % (f["file"], f["ln"])
        try:
            term, issues = rec(f)
        except Shape as e:
            ck.bad(rid("R07.0"), "%s::%s:shape" % (owner, name),
                   "merge shape not certified: %s. The function is no longer one of the recognised lattice idioms, so commutativity/"
                   "associativity/idempotence cannot be vouched for (an added guard, early exit or asymmetric step typically breaks one "
                   "of them)" % e, "%s:%s" % (f["file"], e.ln or f["ln"]))
            continue
        ck.ok(rid("R07.0"), "%s::%s:shape" % (owner, name), "term: %s" % term)
        certs[(owner, name)] = term
        for rule, key, msg, ln in issues:
            if rule in skip_rules:
                continue        # a clause (and its recorded finding) that belongs to the owning properties only
            ck.bad(rid(rule), "%s::%s:%s" % (owner, name, key), msg, "%s:%s" % (f["file"], ln or f["ln"]))
        for rule in ("R07.1", "R07.2"):
            if not any(r == rule for r, _, _, _ in issues):
                ck.ok(rid(rule), "%s::%s:%s" % (owner, name, rule[-1]), term)
    ck.floor(floor_id, n, 10)
    ck.extra["certificates"] = {"%s::%s" % k: v for k, v in certs.items()}
    return tree


class Shape(Exception):
    def __init__(self, msg, ln=None):
        Exception.__init__(self, msg)
        self.ln = ln


# ------------------------------------------------------------------------------------------------ helpers
def body_stmts(f):
    return f["body"]["stmts"]


def pname(p):
    while isinstance(p, dict) and p.get("k") == "PType":
        p = p["p"]
    return p.get("n") if isinstance(p, dict) else None


def strip(e):
    """drop &, *, parens"""
    while isinstance(e, dict) and (e.get("k") == "Ref" or (e.get("k") == "Unary" and e.get("op") == "*")):
        e = e["e"]
    return e


def acc(e):
    """access path ('self'|'other'|name, [fields]) for Field chains, or None"""
    e = strip(e)
    fields = []
    while isinstance(e, dict) and e.get("k") == "Field":
        fields.append(e["f"])
        e = strip(e["e"])
    if isinstance(e, dict) and e.get("k") == "Path":
        return (e["p"], tuple(reversed(fields)))
    return None


def is_mc(e, name, nargs=None):
    return isinstance(e, dict) and e.get("k") == "MethodCall" and e["m"] == name and (nargs is None or len(e["args"]) == nargs)


def tail(stmts):
    if not stmts or stmts[-1].get("k") != "Expr" or stmts[-1].get("semi"):
        raise Shape("function does not end in a result expression")
    return stmts[-1]["e"]


def expect(cond, msg, node=None):
    if not cond:
        raise Shape(msg, node.get("ln") if isinstance(node, dict) else None)


def _is_gt_other_self(c, fields=()):
    """`other<.fields> > self<.fields>`"""
    if not (isinstance(c, dict) and c.get("k") == "Binary"):
        return None
    l, r = acc(c["l"]), acc(c["r"])
    if l is None or r is None:
        return None
    return (c["op"], l, r)


# ------------------------------------------------------------------------------------------------ recognisers
def _select_check(c, key_fields, issues, node):
    g = _is_gt_other_self(c)
    expect(g is not None, "selection condition is not a comparison of the two stamps", node)
    op, l, r = g
    expect(l[1] == tuple(key_fields) and r[1] == tuple(key_fields), "selection compares %s with %s, expected the same stamp on both sides" % (l, r), node)
    roots = (l[0], r[0])
    if op == ">" and roots[0].startswith("other") and roots[1].startswith("self"):
        return "other>self"
    if op == "<" and roots[0].startswith("self") and roots[1].startswith("other"):
        return "other>self"
    issues.append(("R07.5", "strictness", "last-writer-wins selection is `%s %s %s`: with `>=`/`<=` (or swapped roles) two equal stamps make merge(a,b) and "
                   "merge(b,a) pick different sides" % (".".join([roots[0]] + list(l[1])), op, ".".join([roots[1]] + list(r[1]))), node.get("ln")))
    return "other%sself" % op


def _noln(n):
    if isinstance(n, dict):
        return {k: _noln(v) for k, v in n.items() if k != "ln"}
    if isinstance(n, list):
        return [_noln(v) for v in n]
    return n


def _as_select(e):
    """`match X.cmp(&Y) { Greater => T, Less | Equal => E }` (any arm order, `_` for the rest, equal-bodied arms merged) read as the
    `if X > Y { T } else { E }` it spells; likewise `<`, `>=`, `<=`.  Anything else is returned unchanged."""
    if not (isinstance(e, dict) and e.get("k") == "Match" and is_mc(strip(e.get("e")), "cmp", 1)):
        return e
    sc = strip(e["e"])
    groups = []     # [(set of outcomes | None for wildcard, body)]
    for arm in e["arms"]:
        if arm.get("guard") is not None:
            return e
        pat = arm["pat"]
        cases = pat["cases"] if pat.get("k") == "POr" else [pat]
        names = set()
        for c in cases:
            if c.get("k") == "PWild":
                names = None
                break
            if c.get("k") != "PPath" or c["p"].rsplit("::", 1)[-1] not in ("Greater", "Less", "Equal"):
                return e
            names.add(c["p"].rsplit("::", 1)[-1])
        for g in groups:
            if _noln(g[1]) == _noln(arm["body"]) and g[0] is not None:
                if names is None:
                    g[0] = None
                else:
                    g[0] |= names
                break
        else:
            groups.append([names, arm["body"]])
    if len(groups) != 2:
        return e
    seen = set().union(*[g[0] for g in groups if g[0] is not None])
    for g in groups:
        if g[0] is None:
            g[0] = {"Greater", "Less", "Equal"} - seen
    if groups[0][0] | groups[1][0] != {"Greater", "Less", "Equal"} or groups[0][0] & groups[1][0]:
        return e
    ops = {frozenset(["Greater"]): ">", frozenset(["Less"]): "<", frozenset(["Greater", "Equal"]): ">=", frozenset(["Less", "Equal"]): "<="}
    # the branch taken on a strict outcome is the `then` branch
    order = sorted(groups, key=lambda g: len(g[0]))
    op = ops.get(frozenset(order[0][0]))
    if op is None:
        return e
    cond = {"k": "Binary", "op": op, "l": sc["recv"], "r": sc["args"][0], "ln": e.get("ln")}
    return {"k": "If", "c": cond, "then": order[0][1], "else": order[1][1], "ln": e.get("ln")}


def _argmax_whole(f):
    st = body_stmts(f)
    issues = []
    e = _as_select(tail(st))
    expect(len(st) == 1 and e.get("k") == "If" and e.get("else") is not None, "expected `if other > self { *other } else { *self }`", e)
    _select_check(e["c"], (), issues, e)
    t = acc(A.simplify(e["then"]))
    el = acc(A.simplify(e["else"]))
    expect(t is not None and el is not None and t[0] == "other" and el[0] == "self" and not t[1] and not el[1],
           "branches must return the whole `other` / `self` stamp (a field taken from one side only is not symmetric)", e)
    return "argmax_by(total order)(A, B)", issues


def _argmax_field(key):
    def rec(f):
        st = body_stmts(f)
        issues = []
        e = _as_select(tail(st))
        expect(len(st) == 1 and e.get("k") == "If" and e.get("else") is not None, "expected `if other.%s > self.%s { other.clone() } else { self.clone() }`" % (key, key), e)
        _select_check(e["c"], (key,), issues, e)
        t = A.simplify(e["then"])
        el = A.simplify(e["else"])
        expect(is_mc(t, "clone", 0) and acc(t["recv"]) == ("other", ()) and is_mc(el, "clone", 0) and acc(el["recv"]) == ("self", ()),
               "branches must be other.clone() / self.clone() (whole value)", e)
        return "argmax_by(%s)(A, B)" % key, issues
    return rec


def _pointwise_max_fold(f, field):
    """`let x = other.F.iter().fold(self.F.clone(), |mut m, (k, &v)| { m.entry(*k).and_modify(|e| *e = (*e).max(v)).or_insert(v); m }); S { F: x }`
    - the same clone-and-fold, the absent case written as or_insert(v) (= max(bottom, v)).  -> (term, issues) or None if f is not of this form"""
    st = body_stmts(f)
    if len(st) != 2 or st[0].get("k") != "Let" or not is_mc(st[0].get("init"), "fold", 2):
        return None
    fold = st[0]["init"]
    x = pname(st[0]["pat"])
    src = strip(fold["recv"])
    while is_mc(src, "iter", 0) or is_mc(src, "into_iter", 0):
        src = strip(src["recv"])
    expect(acc(src) == ("other", (field,)), "fold must run over other.%s" % field, fold)
    init = strip(fold["args"][0])
    expect(is_mc(init, "clone", 0) and acc(init["recv"]) == ("self", (field,)), "fold must start from self.%s.clone()" % field, fold)
    clo = strip(fold["args"][1])
    expect(clo.get("k") == "Closure" and len(clo.get("params", [])) == 2 and clo["params"][1].get("k") == "PTuple" and len(clo["params"][1]["elems"]) == 2,
           "fold closure must be |mut acc, (key, &value)|", fold)
    m = pname(clo["params"][0])
    kname = clo["params"][1]["elems"][0].get("n")
    vp = clo["params"][1]["elems"][1]
    vname = vp["p"]["n"] if vp["k"] == "PRef" else vp.get("n")
    body = clo["body"]
    if body.get("k") == "Block" and len(body["stmts"]) == 3:
        # `let entry = acc.entry(*k).or_insert(0); *entry = (*entry).max(v); acc` - the loop body itself
        issues = []
        _max_fold_body({"body": {"stmts": body["stmts"][:2]}, "pat": clo["params"][1], "ln": clo.get("ln")}, m, issues)
        expect(acc(body["stmts"][2].get("e")) == (m, ()), "fold closure must return the accumulator", clo)
        res = tail(st)
        expect(res.get("k") == "Struct" and len(res["fields"]) == 1 and res["fields"][0]["n"] == field and acc(res["fields"][0]["e"]) == (x, ()),
               "result must be `{ %s: <folded> }`" % field, res)
        return "{%s: pointwise_max(A.%s, B.%s)}" % (field, field, field), issues
    expect(body.get("k") == "Block" and len(body["stmts"]) == 2, "fold body must be `acc.entry(k).and_modify(max).or_insert(v); acc`", clo)
    e0 = body["stmts"][0].get("e")
    expect(is_mc(e0, "or_insert", 1) and acc(e0["args"][0]) == (vname, ()) and is_mc(strip(e0["recv"]), "and_modify", 1) and is_mc(strip(strip(e0["recv"])["recv"]), "entry", 1),
           "fold body must be entry(key).and_modify(..).or_insert(value)", clo)
    am = strip(e0["recv"])
    ent = strip(am["recv"])
    expect(acc(ent["recv"]) == (m, ()) and acc(ent["args"][0]) == (kname, ()), "entry() must be taken on the accumulator with the iterated key", ent)
    mc = strip(am["args"][0])
    expect(mc.get("k") == "Closure" and len(mc.get("params", [])) == 1, "and_modify must take |entry|", am)
    en = pname(mc["params"][0])
    ab = mc["body"]
    if ab.get("k") == "Block":
        expect(len(ab["stmts"]) == 1, "and_modify closure must be one assignment", mc)
        ab = ab["stmts"][0].get("e") or ab["stmts"][0]
    issues = []
    expect(ab.get("k") == "Assign" and acc(ab["l"]) == (en, ()), "and_modify closure must assign through the entry", mc)
    r = ab["r"]
    if not (is_mc(r, "max", 1) and acc(r["recv"]) == (en, ()) and acc(r["args"][0]) == (vname, ())):
        if isinstance(r, dict) and r.get("k") == "Binary":
            issues.append(("R07.2", "operator", "counters are combined with `%s`, which is not idempotent" % r["op"], r.get("ln")))
        else:
            raise Shape("combining operator is not `(*entry).max(value)`", mc)
    expect(acc(body["stmts"][1].get("e")) == (m, ()), "fold closure must return the accumulator", clo)
    res = tail(st)
    expect(res.get("k") == "Struct" and len(res["fields"]) == 1 and res["fields"][0]["n"] == field and acc(res["fields"][0]["e"]) == (x, ()),
           "result must be `{ %s: <folded> }`" % field, res)
    return "{%s: pointwise_max(A.%s, B.%s)}" % (field, field, field), issues


def _pointwise_max(field):
    def rec(f):
        alt = _pointwise_max_fold(f, field)
        if alt is not None:
            return alt
        st = body_stmts(f)
        issues = []
        expect(len(st) == 3, "expected: clone self.%s; fold other.%s with max; rebuild" % (field, field), f["body"])
        l0 = st[0]
        expect(l0["k"] == "Let" and pname(l0["pat"]) is not None and is_mc(l0["init"], "clone", 0) and acc(l0["init"]["recv"]) == ("self", (field,)),
               "first statement must be `let mut merged = self.%s.clone()`" % field, l0)
        m = pname(l0["pat"])
        loop = st[1]["e"] if st[1]["k"] == "Expr" else None
        expect(loop is not None and loop.get("k") == "For" and acc(loop["iter"]) == ("other", (field,)), "second statement must iterate `&other.%s`" % field, st[1])
        _max_fold_body(loop, m, issues)
        res = tail(st)
        expect(res.get("k") == "Struct" and len(res["fields"]) == 1 and res["fields"][0]["n"] == field and acc(res["fields"][0]["e"]) == (m, ()),
               "result must be `{ %s: merged }`" % field, res)
        return "{%s: pointwise_max(A.%s, B.%s)}" % (field, field, field), issues
    return rec


def _max_fold_body(loop, m, issues, target=None):
    """body: let entry = <m>.entry(*k).or_insert(0); *entry = (*entry).max(v);"""
    b = loop["body"]["stmts"]
    expect(len(b) == 2, "the fold body must be exactly `entry(..).or_insert(0)` + `*entry = (*entry).max(v)` (found %d statements)" % len(b), loop)
    pat = loop["pat"]
    expect(pat["k"] == "PTuple" and len(pat["elems"]) == 2, "fold must destructure (key, &value)", loop)
    kname = pat["elems"][0].get("n")
    vpat = pat["elems"][1]
    vname = vpat["p"]["n"] if vpat["k"] == "PRef" else vpat.get("n")
    l0 = b[0]
    expect(l0["k"] == "Let" and is_mc(l0["init"], "or_insert", 1) and is_mc(l0["init"]["recv"], "entry", 1), "fold must start with entry(key).or_insert(0)", l0)
    ent = l0["init"]["recv"]
    recv = acc(ent["recv"])
    want = (m, ()) if target is None else target
    expect(recv == want, "entry() is taken on %s, expected %s" % (recv, want), l0)
    expect(acc(ent["args"][0]) == (kname, ()), "entry key must be the iterated key", l0)
    z = l0["init"]["args"][0]
    expect(z.get("k") == "Lit" and z["v"]["v"] == "0", "or_insert default must be 0 (bottom of max)", l0)
    e = pname(l0["pat"])
    a = b[1]["e"] if b[1]["k"] == "Expr" else None
    expect(a is not None and a.get("k") == "Assign" and acc(a["l"]) == (e, ()), "second statement must assign through the entry", b[1])
    r = a["r"]
    if is_mc(r, "max", 1) and acc(r["recv"]) == (e, ()) and acc(r["args"][0]) == (vname, ()):
        return
    if isinstance(r, dict) and r.get("k") == "Binary":
        issues.append(("R07.2", "operator", "counters are combined with `%s`, which is not idempotent: merging a state with itself (duplicate delivery, "
                       "anti-entropy) changes it" % r["op"], r.get("ln")))
        return
    raise Shape("combining operator is not `(*entry).max(value)`", b[1])


def _fieldwise_nested_array(f):
    """`let [p, n] = [(&self.a, &other.a), (&self.b, &other.b)].map(|(mine, theirs)| mine.merge(theirs)); S { a: p, b: n }`"""
    st = body_stmts(f)
    if len(st) != 2 or st[0].get("k") != "Let" or st[0]["pat"].get("k") != "PSlice" or not is_mc(st[0].get("init"), "map", 1):
        return None
    mp = st[0]["init"]
    arr = strip(mp["recv"])
    names = [pname(q) for q in st[0]["pat"]["elems"]]
    expect(arr.get("k") == "Array" and len(arr["elems"]) == len(names) and all(names), "the mapped array and the destructuring pattern must have the same length", st[0])
    clo = strip(mp["args"][0])
    expect(clo.get("k") == "Closure" and len(clo.get("params", [])) == 1 and clo["params"][0].get("k") == "PTuple" and len(clo["params"][0]["elems"]) == 2,
           "map must take |(mine, theirs)|", mp)
    ca, cb = [pname(q) for q in clo["params"][0]["elems"]]
    body = clo["body"]
    if body.get("k") == "Block":
        expect(len(body["stmts"]) == 1, "closure body must be one expression", clo)
        body = body["stmts"][0].get("e") or body["stmts"][0]
    body = strip(body)
    expect(is_mc(body, "merge", 1) and acc(body["recv"]) == (ca, ()) and acc(body["args"][0]) == (cb, ()), "the mapped closure must be |(mine, theirs)| mine.merge(theirs)", clo)
    issues = []
    pairs = {}
    for nm, el in zip(names, arr["elems"]):
        el = strip(el)
        expect(el.get("k") == "Tuple" and len(el["elems"]) == 2, "array elements must be (self.f, other.f) pairs", el)
        pairs[nm] = (acc(el["elems"][0]), acc(el["elems"][1]))
    res = tail(st)
    expect(res.get("k") == "Struct" and res.get("rest") is None, "expected a struct literal", res)
    parts = []
    for fl in res["fields"]:
        src = acc(fl["e"])
        expect(src is not None and src[0] in pairs and not src[1], "field %s must be one of the mapped bindings" % fl["n"], fl["e"])
        a, b = pairs[src[0]]
        if not (a == ("self", (fl["n"],)) and b == ("other", (fl["n"],))):
            issues.append(("R07.1", "field:%s" % fl["n"], "field `%s` is merged from %s and %s: not the same field of both sides (asymmetric)" % (fl["n"], a, b), fl["e"].get("ln")))
        parts.append("%s: nested(A.%s, B.%s)" % (fl["n"], fl["n"], fl["n"]))
    return "{%s}" % ", ".join(parts), issues


def _fieldwise_nested(f):
    alt = _fieldwise_nested_array(f)
    if alt is not None:
        return alt
    st = body_stmts(f)
    issues = []
    res = tail(st)
    expect(len(st) == 1 and res.get("k") == "Struct" and res.get("rest") is None, "expected a struct literal of field-wise merges", res)
    parts = []
    for fl in res["fields"]:
        e = fl["e"]
        expect(is_mc(e, "merge", 1), "field %s is not `self.%s.merge(&other.%s)`" % (fl["n"], fl["n"], fl["n"]), e)
        a, b = acc(e["recv"]), acc(e["args"][0])
        if not (a == ("self", (fl["n"],)) and b == ("other", (fl["n"],))):
            issues.append(("R07.1", "field:%s" % fl["n"], "field `%s` is merged from %s and %s: not the same field of both sides (asymmetric)" % (fl["n"], a, b), e.get("ln")))
        parts.append("%s: nested(A.%s, B.%s)" % (fl["n"], fl["n"], fl["n"]))
    return "{%s}" % ", ".join(parts), issues


def _union(field):
    def rec(f):
        st = body_stmts(f)
        res = tail(st)
        expect(len(st) == 1 and res.get("k") == "Struct" and len(res["fields"]) == 1 and res["fields"][0]["n"] == field, "expected `{ %s: self.%s.union(&other.%s).cloned().collect() }`" % (field, field, field), res)
        e = res["fields"][0]["e"]
        expect(is_mc(e, "collect", 0) and is_mc(e["recv"], "cloned", 0) and is_mc(e["recv"]["recv"], "union", 1), "field is not union().cloned().collect()", e)
        u = e["recv"]["recv"]
        expect(acc(u["recv"]) == ("self", (field,)) and acc(u["args"][0]) == ("other", (field,)), "union must be of self.%s and other.%s" % (field, field), u)
        return "{%s: union(A.%s, B.%s)}" % (field, field, field), []
    return rec


def _orset(f):
    st = body_stmts(f)
    issues = []
    expect(len(st) == 6, "ORSet::merge must be: new; fold self.next_sequence; fold other.next_sequence; collect keys of both; per-element tag union; result (found %d statements)" % len(st), f["body"])
    l0 = st[0]
    expect(l0["k"] == "Let" and l0["init"].get("k") == "Call" and acc(l0["init"]["f"]) == ("ORSet::new", ()), "must start from ORSet::new()", l0)
    m = pname(l0["pat"])
    for i, side in ((1, "self"), (2, "other")):
        loop = st[i]["e"] if st[i]["k"] == "Expr" else None
        expect(loop is not None and loop.get("k") == "For" and acc(loop["iter"]) == (side, ("next_sequence",)), "statement %d must fold %s.next_sequence" % (i + 1, side), st[i])
        _max_fold_body(loop, m, issues, target=(m, ("next_sequence",)))
    l3 = st[3]
    expect(l3["k"] == "Let" and is_mc(l3["init"], "collect", 0), "4th statement must collect the keys of both element maps", l3)
    chain = l3["init"]["recv"]
    expect(is_mc(chain, "cloned", 0) and is_mc(chain["recv"], "chain", 1), "keys must be self.elements.keys().chain(other.elements.keys())", l3)
    c = chain["recv"]
    expect(is_mc(c["recv"], "keys", 0) and acc(c["recv"]["recv"]) == ("self", ("elements",)) and is_mc(c["args"][0], "keys", 0) and acc(c["args"][0]["recv"]) == ("other", ("elements",)),
           "key collection is not symmetric in self and other", l3)
    allk = pname(l3["pat"])
    loop = st[4]["e"] if st[4]["k"] == "Expr" else None
    expect(loop is not None and loop.get("k") == "For" and acc(loop["iter"]) == (allk, ()), "5th statement must iterate all collected elements", st[4])
    b = loop["body"]["stmts"]
    expect(len(b) == 4, "per-element body must be: self tags; other tags; union; insert-if-non-empty", loop)
    for i, side in ((0, "self"), (1, "other")):
        li = b[i]
        e = li["init"]
        expect(li["k"] == "Let" and is_mc(e, "unwrap_or_default", 0) and is_mc(e["recv"], "cloned", 0) and is_mc(e["recv"]["recv"], "get", 1)
               and acc(e["recv"]["recv"]["recv"]) == (side, ("elements",)), "tag set %d must be %s.elements.get(&elem).cloned().unwrap_or_default()" % (i + 1, side), li)
    u = b[2]["init"]
    expect(is_mc(u, "collect", 0) and is_mc(u["recv"], "cloned", 0) and is_mc(u["recv"]["recv"], "union", 1), "tags must be combined by union", b[2])
    un = u["recv"]["recv"]
    expect({acc(un["recv"]), acc(un["args"][0])} == {(pname(b[0]["pat"]), ()), (pname(b[1]["pat"]), ())}, "union must be over both tag sets", b[2])
    cond = b[3]["e"] if b[3]["k"] == "Expr" else None
    expect(cond is not None and cond.get("k") == "If" and cond.get("else") is None, "4th body statement must be `if !union.is_empty() { insert }`", b[3])
    res = tail(st)
    expect(acc(res) == (m, ()), "must return the merged set", res)
    return "{next_sequence: pointwise_max(A,B), elements: pointwise_union(A.elements, B.elements) minus empty}", issues


def _try_merge(f):
    st = body_stmts(f)
    issues = []
    e = tail(st)
    expect(len(st) == 1 and e.get("k") == "Match" and e["e"].get("k") == "Tuple", "expected `match (self, other) { (X(a), X(b)) => Ok(X(a.merge(b))) .. }`", e)
    parts = []
    seen_wild = False
    for arm in e["arms"]:
        p = arm["pat"]
        if p["k"] == "PWild":
            seen_wild = True
            b = A.simplify(arm["body"])
            expect(b.get("k") == "Call" and acc(b["f"]) == ("Err", ()), "the type-mismatch arm must return Err", arm)
            continue
        expect(p["k"] == "PTuple" and len(p["elems"]) == 2 and all(x["k"] == "PTupleStruct" and len(x["elems"]) == 1 for x in p["elems"]),
               "arm pattern must be (Variant(a), Variant(b))", arm)
        va, vb = p["elems"][0]["p"], p["elems"][1]["p"]
        expect(va == vb, "arm pairs different variants %s / %s" % (va, vb), arm)
        a, b = p["elems"][0]["elems"][0]["n"], p["elems"][1]["elems"][0]["n"]
        body = A.simplify(arm["body"])
        variant = va.split("::")[-1]
        if variant == "Hash":
            _hash_arm(arm, a, b, va, issues)
            parts.append("Hash: pointwise(argmax_by(timestamp))")
            continue
        expect(body.get("k") == "Call" and acc(body["f"]) == ("Ok", ()) and body["args"][0].get("k") == "Call" and acc(body["args"][0]["f"]) == (va, ()),
               "arm %s must be Ok(%s(a.merge(b)))" % (variant, va), arm)
        inner = body["args"][0]["args"][0]
        expect(is_mc(inner, "merge", 1) and acc(inner["recv"]) == (a, ()) and acc(inner["args"][0]) == (b, ()), "arm %s must merge a with b" % variant, arm)
        parts.append("%s: nested" % variant)
    expect(seen_wild, "no explicit type-mismatch arm", e)
    return "match variant {%s; mismatch: Err}" % ", ".join(parts), issues


def _hash_arm(arm, a, b, va, issues):
    body = arm["body"]
    expect(body.get("k") == "Block" and len(body["stmts"]) == 3, "Hash arm must be: clone a; fold b with entry().and_modify(merge).or_insert_with(clone); Ok(Hash(merged)) "
           "(found %d statements)" % (len(body["stmts"]) if body.get("k") == "Block" else 1), arm)
    s0, s1, s2 = body["stmts"]
    expect(s0["k"] == "Let" and is_mc(s0["init"], "clone", 0) and acc(s0["init"]["recv"]) == (a, ()), "Hash arm must start with `let mut merged = a.clone()`", s0)
    m = pname(s0["pat"])
    loop = s1["e"] if s1["k"] == "Expr" else None
    expect(loop is not None and loop.get("k") == "For" and acc(loop["iter"]) == (b, ()), "Hash arm must iterate every field of b", s1)
    lb = loop["body"]["stmts"]
    expect(len(lb) == 1, "the per-field step must be the single expression entry(field).and_modify(|x| *x = x.merge(b_field)).or_insert_with(|| b_field.clone()): an "
           "extra guard/continue makes the result depend on which side holds the field first (found %d statements)" % len(lb), loop)
    e = lb[0]["e"]
    expect(is_mc(e, "or_insert_with", 1) and is_mc(e["recv"], "and_modify", 1) and is_mc(e["recv"]["recv"], "entry", 1), "per-field step is not entry().and_modify().or_insert_with()", e)
    expect(acc(e["recv"]["recv"]["recv"]) == (m, ()), "entry() must be taken on the merged map", e)
    bl = loop["pat"]["elems"][1]["n"] if loop["pat"]["k"] == "PTuple" else None
    am = e["recv"]["args"][0]
    expect(am.get("k") == "Closure" and len(am["params"]) == 1, "and_modify needs a one-argument closure", am)
    x = am["params"][0]["n"]
    asg = A.simplify(am["body"])
    expect(asg.get("k") == "Assign" and acc(asg["l"]) == (x, ()) and is_mc(asg["r"], "merge", 1) and acc(asg["r"]["recv"]) == (x, ()) and acc(asg["r"]["args"][0]) == (bl, ()),
           "and_modify must be `*x = x.merge(b_field)`", am)
    oi = e["args"][0]
    ob = A.simplify(oi["body"]) if oi.get("k") == "Closure" else None
    expect(ob is not None and is_mc(ob, "clone", 0) and acc(ob["recv"]) == (bl, ()), "or_insert_with must insert b's field unchanged", oi)
    r = A.simplify(s2["e"]) if s2["k"] == "Expr" else None
    expect(r is not None and r.get("k") == "Call" and acc(r["f"]) == ("Ok", ()), "Hash arm must return Ok(Hash(merged))", s2)


def _merge_with_ts(f):
    st = body_stmts(f)
    issues = []
    e = tail(st)
    expect(len(st) == 1 and e.get("k") == "Match" and is_mc(e["e"], "try_merge", 1) and acc(e["e"]["recv"]) == ("self", ()) and acc(e["e"]["args"][0]) == ("other", ()),
           "expected `match self.try_merge(other) { Ok(m) => m, Err(_) => <stamp select> }`", e)
    sel = None
    for arm in e["arms"]:
        p = arm["pat"]
        if p["k"] == "PTupleStruct" and p["p"] == "Ok":
            expect(acc(A.simplify(arm["body"])) == (p["elems"][0]["n"], ()), "Ok arm must return the merged value unchanged", arm)
        elif p["k"] == "PTupleStruct" and p["p"] == "Err":
            b = arm["body"]
            stmts = [s for s in (b["stmts"] if b.get("k") == "Block" else [{"k": "Expr", "e": b}]) if not (s["k"] == "Expr" and s["e"].get("k") == "Macro")]
            expect(len(stmts) == 1 and stmts[0]["e"].get("k") == "If", "Err arm must be a single stamp-based selection", arm)
            sel = stmts[0]["e"]
    expect(sel is not None, "no Err arm", e)
    g = _is_gt_other_self(sel["c"])
    expect(g is not None, "selection condition is not a stamp comparison", sel)
    op, l, r = g
    ok = op == ">" and l == ("other_timestamp", ()) and r == ("self_timestamp", ())
    if not ok:
        issues.append(("R07.5", "strictness", "type-mismatch resolution compares `%s %s %s` instead of `other_timestamp > self_timestamp`" % (l, op, r), sel.get("ln")))
    t, el = A.simplify(sel["then"]), A.simplify(sel["else"])
    expect(is_mc(t, "clone", 0) and acc(t["recv"]) == ("other", ()) and is_mc(el, "clone", 0) and acc(el["recv"]) == ("self", ()), "selection must return other.clone() / self.clone()", sel)
    issues.append(("R07.3", "select-by-foreign-stamp",
                   "on a type mismatch the payload is selected by comparing the OUTER stamps, while same-type payloads are merged ignoring them and the "
                   "outer stamp itself is merged by max: the selection key is not part of the selected lattice, so grouping matters: "
                   "Lww@5 + (Hash@3 + Hash@7) != (Lww@5 + Hash@3) + Hash@7", sel.get("ln")))
    return "same type: nested; mismatch: select(other_ts > self_ts, B, A)", issues


def _replicated_value(f):
    st = body_stmts(f)
    issues = []
    res = tail(st)
    expect(res.get("k") == "Struct" and res.get("rest") is None, "must end in a ReplicatedValue literal", res)
    lets = {pname(s["pat"]): s["init"] for s in st[:-1] if s["k"] == "Let" and pname(s["pat"]) is not None}
    # `let (a, b) = (self.f.as_ref(), other.f.as_ref());` - plain aliases of the two sides of one field
    aliases = {}
    nalias = 0
    for s_ in st[:-1]:
        if s_["k"] == "Let" and s_["pat"].get("k") == "PTuple" and isinstance(s_.get("init"), dict) and s_["init"].get("k") == "Tuple" \
                and len(s_["pat"]["elems"]) == len(s_["init"]["elems"]) and all(pname(q) for q in s_["pat"]["elems"]):
            ok_ = True
            for q, e_ in zip(s_["pat"]["elems"], s_["init"]["elems"]):
                e2 = e_
                while is_mc(e2, "as_ref", 0) or is_mc(e2, "as_deref", 0) or is_mc(e2, "clone", 0) or is_mc(e2, "copied", 0):
                    e2 = e2["recv"]
                a_ = acc(e2)
                if a_ is None or a_[0] not in ("self", "other") or len(a_[1]) != 1:
                    ok_ = False
                else:
                    aliases[pname(q)] = a_
            if ok_:
                nalias += 1
    _ALIASES["a"] = aliases
    expect(len(lets) + nalias == len(st) - 1, "only `let merged_x = ..` statements are expected before the result", f["body"])
    parts = []
    for fl in res["fields"]:
        name = fl["n"]
        src = acc(fl["e"])
        expect(src is not None and src[0] in lets and not src[1], "field %s must be one of the merged_* bindings" % name, fl["e"])
        e = lets[src[0]]
        if name == "crdt":
            expect(is_mc(e, "merge_with_timestamps", 3) and acc(e["recv"]) == ("self", ("crdt",)), "crdt must be self.crdt.merge_with_timestamps(..)", e)
            a = [acc(x) for x in e["args"]]
            want = [("other", ("crdt",)), ("self", ("timestamp",)), ("other", ("timestamp",))]
            if a != want:
                issues.append(("R07.1", "field:crdt", "merge_with_timestamps is called with %s instead of (other.crdt, self.timestamp, other.timestamp): the stamp passed "
                               "for one side is not that side's own stamp, so swapping self and other changes which payload wins on a type conflict"
                               % [".".join([x[0]] + list(x[1])) if x else "?" for x in a], e.get("ln")))
            parts.append("crdt: nested_with_stamps")
        elif name == "timestamp":
            expect(is_mc(e, "merge", 1), "timestamp must be self.timestamp.merge(&other.timestamp)", e)
            a, b = acc(e["recv"]), acc(e["args"][0])
            if not (a == ("self", ("timestamp",)) and b == ("other", ("timestamp",))):
                issues.append(("R07.1", "field:timestamp", "timestamp merged from %s and %s" % (a, b), e.get("ln")))
            parts.append("timestamp: argmax")
        else:
            op = _optlift(e, name)
            parts.append("%s: optlift(%s)" % (name, op))
            if op not in ("max", "merge"):
                issues.append(("R07.2", "field:%s" % name, "field %s is combined with `%s` (not idempotent/commutative)" % (name, op), e.get("ln")))
    expect({fl["n"] for fl in res["fields"]} >= {"crdt", "timestamp", "expiry_ms", "vector_clock"}, "result literal misses a field", res)
    return "{%s}" % ", ".join(parts), issues


_TREE = {"t": None}
_ALIASES = {"a": {}}


def _side(e):
    """('self'|'other', (field,)) for `self.f`, `other.f`, their .as_ref()/.clone()/.copied() and the tuple-let aliases of those"""
    e = strip(e)
    while is_mc(e, "as_ref", 0) or is_mc(e, "as_deref", 0) or is_mc(e, "clone", 0) or is_mc(e, "copied", 0) or is_mc(e, "cloned", 0):
        e = strip(e["recv"])
    a = acc(e)
    if a is None:
        return None
    if a[0] in _ALIASES["a"] and not a[1]:
        return _ALIASES["a"][a[0]]
    return a if a[0] in ("self", "other") else None


def _optlift_chain(e, name):
    """the same four-case lift written with Option combinators:
         X.zip(Y).map(|(a, b)| a.op(b)).or(X).or(Y)          /          X.zip(Y).map(|(a, b)| a.op(b)).or_else(|| X.or(Y).cloned())
    with X, Y = the field on self / on other.  (Some,Some) -> Some(a op b); one side -> that side; none -> None."""
    e = strip(e)
    rest = []
    cur = e
    while isinstance(cur, dict) and cur.get("k") == "MethodCall" and cur["m"] in ("or", "or_else"):
        rest.append(cur)
        cur = strip(cur["recv"])
    if not (is_mc(cur, "map", 1) and is_mc(strip(cur["recv"]), "zip", 1)) or not rest:
        return None
    z = strip(cur["recv"])
    x, y = _side(z["recv"]), _side(z["args"][0])
    expect(x is not None and y is not None and {x[0], y[0]} == {"self", "other"} and x[1] == y[1] == (name,),
           "field %s: zip must pair self.%s with other.%s" % (name, name, name), e)
    clo = strip(cur["args"][0])
    expect(clo.get("k") == "Closure" and len(clo.get("params", [])) == 1 and clo["params"][0].get("k") == "PTuple" and len(clo["params"][0]["elems"]) == 2,
           "field %s: map must take |(a, b)|" % name, cur)
    ca, cb_ = [pname(q) for q in clo["params"][0]["elems"]]
    body = clo["body"]
    if body.get("k") == "Block":
        expect(len(body["stmts"]) == 1, "field %s: closure body must be one expression" % name, clo)
        body = body["stmts"][0].get("e") or body["stmts"][0]
    body = strip(body)
    expect(body.get("k") == "MethodCall" and len(body.get("args", [])) == 1 and {acc(body["recv"]), acc(body["args"][0])} == {(ca, ()), (cb_, ())},
           "field %s: the mapped closure must be |(a, b)| a.op(b)" % name, clo)
    op = body["m"]
    # the fallbacks, innermost first: together they must offer both sides (in either order)
    offered = []
    for r_ in reversed(rest):
        if r_["m"] == "or":
            sd = _side(r_["args"][0])
            expect(sd is not None and sd[1] == (name,), "field %s: .or(..) must fall back to one side of the same field" % name, r_)
            offered.append(sd[0])
        else:
            c2 = strip(r_["args"][0])
            expect(c2.get("k") == "Closure" and not c2.get("params"), "field %s: or_else must take a parameterless closure" % name, r_)
            b2 = c2["body"]
            if b2.get("k") == "Block":
                expect(len(b2["stmts"]) == 1, "field %s: or_else closure must be one expression" % name, c2)
                b2 = b2["stmts"][0].get("e") or b2["stmts"][0]
            b2 = strip(b2)
            while is_mc(b2, "cloned", 0) or is_mc(b2, "copied", 0):
                b2 = strip(b2["recv"])
            expect(is_mc(b2, "or", 1), "field %s: or_else closure must be X.or(Y)" % name, c2)
            s1, s2 = _side(b2["recv"]), _side(b2["args"][0])
            expect(s1 is not None and s2 is not None and s1[1] == s2[1] == (name,), "field %s: or_else closure must offer both sides of the field" % name, c2)
            offered += [s1[0], s2[0]]
    expect(set(offered) == {"self", "other"}, "field %s: the fallbacks must offer both sides (found %s): a value present on one side only would be lost" % (name, offered), e)
    return op


def _clo_expr(c, nparams, what, name):
    c = strip(c)
    expect(c.get("k") == "Closure" and len(c.get("params") or []) == nparams, "field %s: %s must be a %d-parameter closure" % (name, what, nparams), c)
    b = c["body"]
    if b.get("k") == "Block":
        expect(len(b["stmts"]) == 1, "field %s: %s must be one expression" % (name, what), c)
        b = b["stmts"][0].get("e") or b["stmts"][0]
    return [pname(q) for q in (c.get("params") or [])], strip(b)


def _optlift_nested(e, name):
    """the four-case lift written as   X.map(|a| Y.map_or_else(|| a[.clone()], |b| a.op(b))).or_else(|| Y[.clone()])   (or `.or(Y)`):
    X present: joined with Y if present, kept otherwise; X absent: Y as it is.  X, Y = the field on the two sides (either way round)."""
    e = strip(e)
    if not (isinstance(e, dict) and e.get("k") == "MethodCall" and e["m"] in ("or", "or_else") and len(e["args"]) == 1):
        return None
    mp = strip(e["recv"])
    if not is_mc(mp, "map", 1):
        return None
    x = _side(mp["recv"])
    if x is None:
        return None
    try:
        (a,), inner = _clo_expr(mp["args"][0], 1, "map closure", name)
    except Shape:
        return None
    if not is_mc(inner, "map_or_else", 2):
        return None
    y = _side(inner["recv"])
    expect(y is not None and {x[0], y[0]} == {"self", "other"} and x[1] == y[1] == (name,),
           "field %s: the nested lift must pair self.%s with other.%s (found %s / %s)" % (name, name, name, x, y), e)
    _, keep = _clo_expr(inner["args"][0], 0, "the absent-case closure", name)
    while is_mc(keep, "clone", 0):
        keep = strip(keep["recv"])
    expect(acc(keep) == (a, ()), "field %s: when the other side is absent the present value must be kept as it is" % name, inner)
    (b,), join = _clo_expr(inner["args"][1], 1, "the join closure", name)
    expect(join.get("k") == "MethodCall" and len(join.get("args", [])) == 1 and {acc(join["recv"]), acc(join["args"][0])} == {(a, ()), (b, ())},
           "field %s: the join closure must be |b| a.op(b)" % name, inner)
    if e["m"] == "or":
        fb = _side(e["args"][0])
    else:
        _, fbe = _clo_expr(e["args"][0], 0, "the or_else closure", name)
        fb = _side(fbe)
    expect(fb is not None and fb == y, "field %s: the fallback must be the other side's value of the same field (found %s, expected %s): a value present "
           "on one side only would be lost" % (name, fb, y), e)
    return join["m"]


def _optlift_helper(e, name):
    """the same lift written once as a generic helper: `helper(&self.f, &other.f, |a, b| a.op(b))` where
    `fn helper(l: &Option<T>, r: &Option<T>, join: impl FnOnce(&T, &T) -> T) -> Option<T>` has the canonical four-case match
    with `Some(join(l, r))` in the (Some, Some) arm.  Returns the operator applied by the closure, or None if e is not that form."""
    e = strip(e)
    if e.get("k") != "Call" or len(e.get("args", [])) != 3 or e["f"].get("k") != "Path":
        return None
    hname = e["f"]["p"].rsplit("::", 1)[-1]
    tree = _TREE["t"] or {"fns": []}
    hs = [g for g in tree["fns"] if g["name"] == hname and not g["owner"]]
    if len(hs) != 1:
        return None
    h = hs[0]
    expect(len(h["params"]) == 3, "helper %s must take (left, right, join)" % hname, e)
    pl, pr, pj = [p["n"] for p in h["params"]]
    hb = tail(body_stmts(h))
    expect(len(body_stmts(h)) == 1 and hb.get("k") == "Match" and hb["e"].get("k") == "Tuple" and
           [acc(x) for x in hb["e"]["elems"]] == [(pl, ()), (pr, ())], "helper %s: body must be `match (left, right)`" % hname, h["body"])
    kinds = set()
    for arm in hb["arms"]:
        p = arm["pat"]
        pats = p["cases"] if p["k"] == "POr" else [p]
        for q in pats:
            expect(q["k"] == "PTuple" and len(q["elems"]) == 2, "helper %s: arm pattern must be a pair" % hname, arm)
            kinds.add(tuple("S" if x["k"] == "PTupleStruct" and x["p"] == "Some" else "N" for x in q["elems"]))
        body = A.simplify(arm["body"])
        sig0 = tuple("S" if x["k"] == "PTupleStruct" and x["p"] == "Some" else "N" for x in pats[0]["elems"])
        if sig0 == ("S", "S"):
            x, y = pats[0]["elems"][0]["elems"][0].get("n"), pats[0]["elems"][1]["elems"][0].get("n")
            okb = body.get("k") == "Call" and acc(body["f"]) == ("Some", ()) and body["args"][0].get("k") == "Call" and \
                acc(body["args"][0]["f"]) == (pj, ()) and [acc(z) for z in body["args"][0]["args"]] == [(x, ()), (y, ())]
            expect(okb, "helper %s: the (Some, Some) arm must be Some(join(l, r))" % hname, arm)
        elif sig0 == ("N", "N"):
            expect(acc(body) == ("None", ()), "helper %s: (None, None) arm must be None" % hname, arm)
        else:
            expect(body.get("k") == "Call" and acc(body["f"]) == ("Some", ()), "helper %s: one-sided arm must keep the present value" % hname, arm)
    expect(kinds == {("S", "S"), ("S", "N"), ("N", "S"), ("N", "N")}, "helper %s: the four Option cases are not all covered" % hname, h["body"])
    # the call: mirrored fields and a closure that applies one method to both values
    a, b = acc(e["args"][0]), acc(e["args"][1])
    expect(a == ("self", (name,)) and b == ("other", (name,)), "field %s: %s must be given (&self.%s, &other.%s), found %s/%s" % (name, hname, name, name, a, b), e)
    clo = strip(e["args"][2])
    expect(clo.get("k") == "Closure" and len(clo.get("params", [])) == 2, "field %s: third argument of %s must be a two-parameter closure" % (name, hname), e)
    cx, cy = [pname(p) for p in clo["params"]]
    cb = clo["body"]
    if cb.get("k") == "Block":
        expect(len(cb["stmts"]) == 1, "field %s: closure body must be one expression" % name, clo)
        cb = cb["stmts"][0].get("e") or cb["stmts"][0]
    cb = strip(cb)
    expect(cb.get("k") == "MethodCall" and len(cb.get("args", [])) == 1, "field %s: closure must be |a, b| a.op(b)" % name, clo)
    ra, rb = acc(cb["recv"]), acc(cb["args"][0])
    expect({ra, rb} == {(cx, ()), (cy, ())}, "field %s: the closure must combine both values" % name, clo)
    return cb["m"]


def _optlift(e, name):
    """match (self.f, other.f) { (Some(a), Some(b)) => Some(a.op(b)), (Some(x), None) | (None, Some(x)) => Some(x[.clone()]), (None, None) => None }"""
    viah = _optlift_helper(e, name)
    if viah is not None:
        return viah
    viac = _optlift_chain(e, name)
    if viac is not None:
        return viac
    vian = _optlift_nested(e, name)
    if vian is not None:
        return vian
    expect(e.get("k") == "Match" and e["e"].get("k") == "Tuple" and len(e["e"]["elems"]) == 2, "field %s: expected match (self.%s, other.%s)" % (name, name, name), e)
    a, b = acc(e["e"]["elems"][0]), acc(e["e"]["elems"][1])
    expect(a == ("self", (name,)) and b == ("other", (name,)), "field %s: scrutinee must be (self.%s, other.%s), found %s/%s" % (name, name, name, a, b), e)
    op = None
    kinds = set()
    for arm in e["arms"]:
        p = arm["pat"]
        pats = p["cases"] if p["k"] == "POr" else [p]
        for q in pats:
            expect(q["k"] == "PTuple" and len(q["elems"]) == 2, "field %s: arm pattern must be a pair" % name, arm)
            sig = tuple("S" if x["k"] == "PTupleStruct" and x["p"] == "Some" else "N" for x in q["elems"])
            kinds.add(sig)
        body = A.simplify(arm["body"])
        sig0 = tuple("S" if x["k"] == "PTupleStruct" and x["p"] == "Some" else "N" for x in pats[0]["elems"])
        if sig0 == ("S", "S"):
            expect(body.get("k") == "Call" and acc(body["f"]) == ("Some", ()) and body["args"][0].get("k") == "MethodCall", "field %s: (Some,Some) arm must be Some(a.op(b))" % name, arm)
            op = body["args"][0]["m"]
            x, y = pats[0]["elems"][0]["elems"][0].get("n"), pats[0]["elems"][1]["elems"][0].get("n")
            ra, rb = acc(body["args"][0]["recv"]), acc(body["args"][0]["args"][0]) if body["args"][0]["args"] else None
            expect({ra, rb} == {(x, ()), (y, ())}, "field %s: the (Some,Some) arm must combine both values" % name, arm)
        elif sig0 == ("N", "N"):
            expect(acc(body) == ("None", ()), "field %s: (None,None) arm must be None" % name, arm)
        else:
            expect(body.get("k") == "Call" and acc(body["f"]) == ("Some", ()), "field %s: one-sided arm must keep the present value" % name, arm)
    expect(kinds == {("S", "S"), ("S", "N"), ("N", "S"), ("N", "N")}, "field %s: the four Option cases are not all covered symmetrically (%s)" % (name, sorted(kinds)), e)
    return op


def _r074(ck, tree):
    cmpf = [f for f in tree["fns"] if f["owner"] == "LamportClock" and f["trait"] == "Ord" and f["name"] == "cmp"]
    pc = [f for f in tree["fns"] if f["owner"] == "LamportClock" and f["trait"] == "PartialOrd" and f["name"] == "partial_cmp"]
    if len(cmpf) != 1 or len(pc) != 1:
        ck.anchor_lost("R07.4", "Ord/PartialOrd for LamportClock not found")
        return
    f = cmpf[0]
    where = "%s:%d" % (f["file"], f["ln"])
    try:
        e = tail(body_stmts(f))
        expect(e.get("k") == "Match" and is_mc(e["e"], "cmp", 1) and acc(e["e"]["recv"]) == ("self", ("time",)) and acc(e["e"]["args"][0]) == ("other", ("time",)),
               "Ord::cmp must first compare self.time with other.time", e)
        tie = None
        for arm in e["arms"]:
            if arm["pat"]["k"] == "PPath" and arm["pat"]["p"].endswith("Equal"):
                tie = A.simplify(arm["body"])
        expect(tie is not None and is_mc(tie, "cmp", 1) and acc(tie["recv"]) == ("self", ("replica_id", "0",)) and acc(tie["args"][0]) == ("other", ("replica_id", "0",)),
               "on equal times Ord::cmp must compare the replica ids (otherwise two different stamps are 'equal' and argmax is not well defined)", e)
        ck.ok("R07.4", "LamportClock::cmp", "lexicographic (time, replica_id)")
    except Shape as ex:
        ck.bad("R07.4", "LamportClock::cmp", "stamp order is not the lexicographic order on (time, replica_id): %s" % ex, "%s:%s" % (f["file"], ex.ln or f["ln"]))
    p = pc[0]
    try:
        e = tail(body_stmts(p))
        expect(e.get("k") == "Call" and acc(e["f"]) == ("Some", ()) and is_mc(e["args"][0], "cmp", 1) and acc(e["args"][0]["recv"]) == ("self", ()),
               "PartialOrd must delegate to Ord (Some(self.cmp(other)))", e)
        ck.ok("R07.4", "LamportClock::partial_cmp", "delegates to Ord")
    except Shape as ex:
        ck.bad("R07.4", "LamportClock::partial_cmp", "PartialOrd does not delegate to Ord: %s" % ex, "%s:%s" % (p["file"], ex.ln or p["ln"]))


# ------------------------------------------------------------------------------------------------
CLOCK_TY = "replication::lattice::LamportClock"


def r076(ck, prog, cfg, rid):
    tag = "" if cfg == "default" else "@" + cfg
    n = 0
    for fn in prog.fns.values():
        if "::tests::" in fn.id or fn.d.get("implements", "").endswith(("Clone::clone", "Deserialize::deserialize", "Default::default")):
            continue
        for b, i, st in fn.stmts():
            lhs = st["lhs"]
            pr = lhs.get("p", [])
            fs = [e for e in pr if isinstance(e, dict) and "f" in e]
            # (a) field store to replica_id of a clock
            if fs and pr[-1] is fs[-1] and fs[-1]["f"] == "replica_id" and fs[-1].get("o") == CLOCK_TY:
                ck.bad(rid, "%s:store-replica_id%s" % (fn.id, tag), "the replica id of a LamportClock is overwritten after construction: stamps of two "
                       "replicas can become equal, and an equal stamp on different values breaks merge's commutativity", fn.where(st["ln"]))
            # (b) whole-value store through a reference to a clock
            if pr == ["*"] and str(fn.locals[lhs["l"]]) == "&mut " + CLOCK_TY:
                ck.bad(rid, "%s:whole-store%s" % (fn.id, tag), "a LamportClock is replaced wholesale through `&mut` (time and replica id together): a "
                       "clock that takes over another replica's id issues that replica's stamps", fn.where(st["ln"]))
        if any(str(t) == "&mut " + CLOCK_TY for t in fn.locals[1:fn.d["argc"] + 1]):
            n += 1
            ck.ok(rid, "%s:keeps-identity%s" % (fn.id, tag), detail="takes &mut LamportClock; stores only to .time")
    ck.floor(rid + tag, n, 4)
