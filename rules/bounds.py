"""Constant-offset accesses into input slices are covered by a length test (shared by C15 R15.11 and C04).

A tiny interval reasoning over *constants only* ("values touched only through comparisons with constants"): every slice local is
resolved to (root slice, constant offset) through `&root[K..]`, `&x[..]`, reborrows and copies; an access with a constant
requirement - `s[k]` (MIR bounds assert with a constant index), `&s[K..]`, `&s[a..b]`/`&s[..b]` with constant b - needs
`len(root) >= offset + k + 1` (resp. `offset + K`, `offset + b`).  The lower bound known at the access is the maximum over the
dominating branch edges of the forms  len(y) < c (false edge), len(y) >= c, c <= len(y), len(y) > c, !y.is_empty(),
y.starts_with(literal) (true edge), each translated to the root through y's own offset.  Variable indices are not this rule's
business (R15.3/R15.4)."""
import re
from .facts import callee, op_place, op_local
from .lib import is_callee, switch_info
from . import lib2


def _single_def(fn, l):
    d = fn.defs().get(l, [])
    return d[0] if len(d) == 1 else None


def const_val(fn, o, depth=0):
    """integer value of an operand that is a constant expression (literal, evaluated named constant, +,-,* of those)"""
    if o is None or depth > 6:
        return None
    if "c" in o:
        if "v" in o:
            try:
                return int(o["v"])
            except ValueError:
                return None
        m = re.match(r"^(-?\d+)_[iu](8|16|32|64|128|size)$", o["c"].replace("const ", ""))
        return int(m.group(1)) if m else None
    l = op_local(o)
    pl = op_place(o)
    if l is None or (pl and pl.get("p")):
        return None
    d = _single_def(fn, l)
    if d is None or d[2] != "assign":
        return None
    rv = d[3]
    if rv["k"] == "use":
        return const_val(fn, rv["a"], depth + 1)
    if rv["k"] == "bin":
        a, b = const_val(fn, rv["a"], depth + 1), const_val(fn, rv["b"], depth + 1)
        if a is None or b is None:
            return None
        op = rv["op"].replace("WithOverflow", "").replace("Unchecked", "")
        return {"Add": a + b, "Sub": a - b, "Mul": a * b}.get(op)
    if rv["k"] == "field" or (rv["k"] == "use" and False):
        return None
    return None


def _place_key(fn, pl):
    """root key of a place: the local itself, or a string for a field path such as (*_1).data"""
    p_ = pl.get("p") or []
    if not p_:
        return None
    parts = []
    for e in p_:
        if e == "*":
            parts.append("*")
        elif isinstance(e, dict) and "f" in e:
            parts.append("." + e["f"])
        else:
            return None
    parts = [x for x in parts if x != "*"]        # (*self).data, *(*self).data and self.data name the same bytes
    if not parts:
        return None
    return "_%d%s" % (pl["l"], "".join(parts))


def array_len(fn, key):
    """length N when the root is a local of type [T; N] (or a reference to one)"""
    if isinstance(key, int) and key < len(fn.locals):
        m = re.match(r"^(?:&(?:mut )?)?\[[^;\]]+; (\d+)\]$", str(fn.locals[key]))
        if m:
            return int(m.group(1))
    return None


def slice_base(fn, l, depth=0):
    """(root key, constant offset) of a slice-valued local; the key is a local number or a field-path string"""
    if depth > 12:
        return (l, 0)
    d = _single_def(fn, l)
    if d is None:
        return (l, 0)
    if d[2] == "assign":
        rv = d[3]
        if rv["k"] == "rawptr":
            k = _place_key(fn, rv["pl"])
            return (k, 0) if k is not None else slice_base(fn, rv["pl"]["l"], depth + 1)
        if rv["k"] == "ref":
            if not rv["pl"].get("p"):
                return slice_base(fn, rv["pl"]["l"], depth + 1)      # &x  (x a Vec / array / slice binding)
            k = _place_key(fn, rv["pl"])
            if k is not None:
                return (k, 0)
        if rv["k"] == "ref" and rv["pl"].get("p") and all(e == "*" for e in rv["pl"]["p"]):
            # &(*x) is x;  &(**x) with x = &y is y  (match-guard bindings take a reference to the binding)
            cur = rv["pl"]["l"]
            for _ in range(len(rv["pl"]["p"]) - 1):
                dd = _single_def(fn, cur)
                if dd is None or dd[2] != "assign" or dd[3]["k"] != "ref" or dd[3]["pl"].get("p"):
                    return (l, 0)
                cur = dd[3]["pl"]["l"]
            return slice_base(fn, cur, depth + 1)
        if rv["k"] in ("use", "cast"):
            pl = op_place(rv["a"])
            if pl is not None and not pl.get("p"):
                return slice_base(fn, pl["l"], depth + 1)
        return (l, 0)
    if d[2] == "call":
        t = d[3]
        if is_callee(t, r"<(std::vec::Vec<u8>|bytes::BytesMut|bytes::Bytes|std::string::String) as std::ops::Deref(Mut)?>::deref(_mut)?$",
                     r"Vec::<u8>::as_slice$", r"String::as_bytes$", r"str::<impl str>::as_bytes$", r"String::as_str$"):
            al = op_local(t["args"][0])
            return slice_base(fn, al, depth + 1) if al is not None else (l, 0)
        if is_callee(t, r"Index<std::ops::RangeFull>>::index$"):
            al = op_local(t["args"][0])
            return slice_base(fn, al, depth + 1) if al is not None else (l, 0)
        if is_callee(t, r"Index<std::ops::RangeFrom<usize>>>::index$"):
            al = op_local(t["args"][0])
            k = _range_const(fn, t["args"][1], "start")
            if al is not None and k is not None:
                r, o = slice_base(fn, al, depth + 1)
                return (r, o + k)
        if is_callee(t, r"<impl \[.*\]>::split_at$") and False:
            pass
    return (l, 0)


def _range_const(fn, o, field):
    """constant value of field start/end of a Range* aggregate operand"""
    l = op_local(o)
    if l is None:
        return None
    d = _single_def(fn, l)
    if d is None or d[2] != "assign" or d[3]["k"] != "agg":
        return None
    rv = d[3]
    fs = rv.get("fs") or []
    if field in fs:
        return const_val(fn, rv["ops"][fs.index(field)])
    return None


def _len_of(fn, o):
    """(root, offset) if operand `o` is the length of a slice local (len() call / PtrMetadata / Len)"""
    l = op_local(o)
    pl = op_place(o)
    if l is None or (pl and pl.get("p")):
        return None
    d = _single_def(fn, l)
    if d is None:
        return None
    if d[2] == "call" and is_callee(d[3], r"<impl \[.*\]>::len$", r"BytesMut::len$", r"Bytes::len$", r"Vec::<u8>::len$"):
        al = op_local(d[3]["args"][0])
        return slice_base(fn, al) if al is not None else None
    if d[2] == "assign":
        rv = d[3]
        if rv["k"] == "un" and rv["op"] == "PtrMetadata":
            al = op_local(rv["a"])
            return slice_base(fn, al) if al is not None else None
        if rv["k"] == "rawptr":
            k = _place_key(fn, rv["pl"])
            return (k, 0) if k is not None else slice_base(fn, rv["pl"]["l"])
        if rv["k"] == "len":
            return slice_base(fn, rv["pl"]["l"])
        if rv["k"] == "use":
            return _len_of(fn, rv["a"])
    return None


def _literal_len(fn, operand):
    o = operand
    for _ in range(6):
        if "c" in o:
            m = re.match(r"^&\[u8; (\d+)\]$", o.get("t", ""))
            return int(m.group(1)) if m else None
        pl = op_place(o)
        if pl is None or pl.get("p", []) not in ([], ["*"]):
            return None
        d = _single_def(fn, pl["l"])
        if d is None or d[2] != "assign":
            return None
        rv = d[3]
        if rv["k"] in ("use", "cast"):
            o = rv["a"]
        elif rv["k"] == "ref":
            o = {"cp": rv["pl"]}
        else:
            return None
    return None


def _edge_bounds(fn, g):
    """lower bounds [(root, n)] : len(root) >= n implied by guard edge g (from lib2.guards)"""
    si = g["si"]
    if not si or si["kind"] != "val" or si["src"] is None:
        return []
    truth = True if lib2.guard_is_true(g) else (False if lib2.guard_is_false(g) else None)
    if truth is None:
        return []
    s = si["src"]
    for _ in range(3):          # strip Not
        if s.kind == "rv" and s.rv["k"] == "un" and s.rv["op"] == "Not":
            truth = not truth
            from .lib import src_of_operand
            s = src_of_operand(fn, s.rv["a"])
        else:
            break
    out = []
    if s.kind == "rv" and s.rv["k"] == "bin" and s.rv["op"] in ("Lt", "Le", "Gt", "Ge", "Eq", "Ne"):
        op = s.rv["op"]
        la, lb = _len_of(fn, s.rv["a"]), _len_of(fn, s.rv["b"])
        ca, cb = const_val(fn, s.rv["a"]), const_val(fn, s.rv["b"])
        if la is not None and cb is not None:
            r, o = la
            c = cb
        elif lb is not None and ca is not None:
            r, o = lb
            c = ca
            op = {"Lt": "Gt", "Le": "Ge", "Gt": "Lt", "Ge": "Le", "Eq": "Eq", "Ne": "Ne"}[op]     # now: len OP c
        else:
            return []
        # len OP c holds iff truth
        n = None
        if op == "Lt" and not truth:
            n = c
        elif op == "Le" and not truth:
            n = c + 1
        elif op == "Ge" and truth:
            n = c
        elif op == "Gt" and truth:
            n = c + 1
        elif op == "Eq" and truth:
            n = c
        elif op == "Ne" and truth is True and c == 0:
            n = 1
        elif op == "Eq" and truth is False and c == 0:
            n = 1
        if n is not None:
            out.append((r, o + n))
    elif s.kind == "call":
        t = s.term
        if is_callee(t, r"<impl \[.*\]>::starts_with$") and truth:
            al = op_local(t["args"][0])
            n = _literal_len(fn, t["args"][1])
            if al is not None and n is not None:
                r, o = slice_base(fn, al)
                out.append((r, o + n))
        elif is_callee(t, r"str::<impl str>::starts_with$") and truth and "c" in t["args"][1] and t["args"][1].get("t") == "&str":
            al = op_local(t["args"][0])
            lit = t["args"][1]["c"]
            if al is not None and lit.startswith('"') and lit.endswith('"') and "\\" not in lit and lit.isascii():
                r, o = slice_base(fn, al)
                out.append((r, o + len(lit) - 2))
        elif is_callee(t, r"<impl \[.*\]>::is_empty$", r"BytesMut::is_empty$") and truth is False:
            al = op_local(t["args"][0])
            if al is not None:
                r, o = slice_base(fn, al)
                out.append((r, o + 1))
    return out


def known_len(fn, block, root):
    best = array_len(fn, root) or 0
    for g in lib2.guards(fn, block):
        for r, n in _edge_bounds(fn, g):
            if r == root and n > best:
                best = n
    return best


def constant_accesses(fn):
    """[(kind, block, line, root, need)]"""
    out = []
    for b in sorted(fn.reachable_blocks()):
        t = fn.term(b)
        if t["k"] == "assert" and t.get("msg") == "bounds":
            k = const_val(fn, t.get("index"))
            ln_ = _len_of(fn, t.get("len"))
            if k is not None and ln_ is not None:
                out.append(("[%d]" % k, b, t["ln"], ln_[0], ln_[1] + k + 1))
        elif t["k"] == "call" and is_callee(t, r"<(std::vec::Vec<u8>|\[u8\]) as std::ops::Index(Mut)?<usize>>::index(_mut)?$"):
            al = op_local(t["args"][0])
            k = const_val(fn, t["args"][1])
            if al is not None and k is not None:
                r, o = slice_base(fn, al)
                out.append(("[%d]" % k, b, t["ln"], r, o + k + 1))
        elif t["k"] == "call" and is_callee(t, r"Index<std::ops::Range(From|To|ToInclusive|Inclusive)?<usize>>>::index$"):
            al = op_local(t["args"][0])
            if al is None:
                continue
            r, o = slice_base(fn, al)
            cn = t.get("fnargs") or callee(t)
            mk = re.search(r"Index<std::ops::(\w+)<usize>>", cn) or re.search(r"Index<std::ops::(\w+)<usize>>", callee(t))
            if not mk:
                continue
            kind = mk.group(1)
            is_str = (t.get("selfty") == "str") or ("<str as " in cn) or ("for str>" in (callee(t) or ""))
            if is_str:
                # a text slice by a byte offset that is not a constant (`name[..family.len()]`): the offset may fall inside a multi-byte
                # character of client-supplied text -> panic.  Accepted only behind is_char_boundary on the true edge.
                fld = "start" if kind == "RangeFrom" else "end"
                if _range_const(fn, t["args"][1], fld) is None:
                    guarded = False
                    for g in lib2.guards(fn, b):
                        si_ = g["si"]
                        if si_ and si_["src"] is not None and si_["src"].kind == "call" and is_callee(si_["src"].term, r"<impl str>::is_char_boundary$") and lib2.guard_is_true(g):
                            guarded = True
                    if not guarded:
                        out.append(("str[..n]", b, t["ln"], r, 1 << 40))
                    continue
            if kind == "RangeFrom":
                k = _range_const(fn, t["args"][1], "start")
                if k is not None and k > 0:
                    out.append(("[%d..]" % k, b, t["ln"], r, o + k))
            elif kind in ("Range", "RangeTo"):
                k = _range_const(fn, t["args"][1], "end")
                if k is not None and k > 0:
                    out.append(("[..%d]" % k, b, t["ln"], r, o + k))
            elif kind in ("RangeToInclusive", "RangeInclusive"):
                k = _range_const(fn, t["args"][1], "end")
                if k is not None:
                    out.append(("[..=%d]" % k, b, t["ln"], r, o + k + 1))
    return out


def _self_field_suffix(fn, key):
    """'.buffer' when the root key is a field path of the function's `self`"""
    if not isinstance(key, str):
        return None
    m = re.match(r"^_(\d+)((?:\.\w+)+)$", key)
    if not m:
        return None
    return m.group(2) if fn.name_of_local(int(m.group(1))) == "self" else None


def all_known(fn, block):
    """{root: lower bound} at `block`"""
    out = {}
    for g in lib2.guards(fn, block):
        for r, n in _edge_bounds(fn, g):
            if n > out.get(r, 0):
                out[r] = n
    return out


def entry_bounds(prog, fn):
    """Caller-established preconditions of a private function: {self-field suffix: bound} that holds at *every* call site
    (a length test hoisted from a private recogniser into the dispatcher that calls it keeps guarding the recogniser)."""
    if prog is None:
        return {}
    target = fn
    if fn.kind in ("coroutine", "closure") and fn.parent and fn.parent in prog.fns:
        target = prog.fns[fn.parent]
    if target.d.get("vis") == "public":
        return {}
    sites = []
    for g in prog.lib_fns():
        for b, t in g.calls():
            if t.get("fn") == target.id:
                sites.append((g, b))
    if not sites:
        return {}
    acc = None
    for g, b in sites:
        here = {}
        for r, n in all_known(g, b).items():
            sfx = _self_field_suffix(g, r)
            if sfx:
                here[sfx] = max(here.get(sfx, 0), n)
        acc = here if acc is None else {k: min(v, here[k]) for k, v in acc.items() if k in here}
    return acc or {}


def window_elem_len(prog, fn):
    """fn is a closure handed to an iterator adaptor over `slice.windows(N)` / `chunks_exact(N)` / `array_windows::<N>()`: every element it is
    called with has exactly N items.  -> N or 0"""
    if prog is None or fn.kind != "closure" or not fn.parent or fn.parent not in prog.fns:
        return 0
    par = prog.fns[fn.parent]
    from .lib2 import iter_chain
    from .lib import src_of_operand as _src
    for b, t in par.calls():
        if len(t["args"]) < 2:
            continue
        if not any((lambda s_: s_.kind == "agg" and s_.rv.get("ak") == "closure" and s_.rv.get("n") == fn.id)(_src(par, a)) for a in t["args"][1:]):
            continue
        for name, ct in iter_chain(par, t["args"][0]):
            if name in ("windows", "chunks_exact", "rchunks_exact") and len(ct["args"]) >= 2:
                k = const_val(par, ct["args"][1])
                if k:
                    return k
    return 0


def check_fn(fn, prog=None):
    """[(kind, block, line, need, have, ok)] for every constant-offset access of fn"""
    res = []
    pre = None
    win = None
    for kind, b, ln, root, need in constant_accesses(fn):
        have = known_len(fn, b, root)
        if have < need and fn.kind == "closure":
            if win is None:
                win = window_elem_len(prog, fn)
            # the accessed slice is the closure's own element parameter (not a captured buffer)
            if win and isinstance(root, int) and 2 <= root <= fn.d["argc"]:
                have = max(have, win)
        if have < need:
            if pre is None:
                pre = entry_bounds(prog, fn)
            sfx = _self_field_suffix(fn, root)
            if sfx and pre.get(sfx, 0) > have and not _consumed_before(fn, b):
                have = pre[sfx]
        res.append((kind, b, ln, need, have, have >= need))
    return res


def _consumed_before(fn, block):
    """does a call that shortens a buffer (advance / split_to / clear / truncate) reach `block`?"""
    cons = [b for b, t in fn.calls() if is_callee(t, r"::(advance|split_to|split_off|clear|truncate|drain)$", r"Buf>::advance$")]
    if not cons:
        return False
    return any(block in fn.reach([c]) for c in cons)


TEXT = ("constant-offset accesses are covered by a length test: every `s[k]`, `&s[K..]`, `&s[a..b]` with constant k/K/b into a byte or "
        "text slice of %s is dominated by branch edges (len comparisons with constants, starts_with(literal), !is_empty, fixed array "
        "types) that prove the slice is long enough - a short, torn or split input yields an error / 'need more data', not a panic "
        "(release builds abort on panic)")


def rule(ck, prog, cfg, rid, files, what, exempt=(), floor=1, tag=""):
    """evaluate the constant-bounds clause over the functions of `files`; exempt = {fn-id-suffix: reason}"""
    n = 0
    for f in prog.lib_fns():
        if f.file not in files or "::tests::" in f.id:
            continue
        ex = [r for sfx, r in dict(exempt).items() if f.id.endswith(sfx)]
        seen = {}
        for kind, b, ln, need, have, ok in check_fn(f, prog):
            n += 1
            k = seen.get(kind, 0)
            seen[kind] = k + 1
            fid = re.sub(r"\{closure#\d+\}", "{closure}", f.id).replace("production::connection_optimized::OptimizedConnectionHandler::<S>::", "")
            key = "%s:%s#%d%s" % (fid, kind, k, tag)
            if ex:
                ck.ok(rid, key, "exempt: " + ex[0])
                continue
            ck.check(ok, rid, key,
                     "`%s` needs at least %d bytes of the underlying input but the tests that dominate it only prove %d: %s makes this a "
                     "panic (index out of bounds / slice start beyond end), i.e. a crash of the connection task or of the server"
                     % (kind, need, have, what), f.where(ln), detail="needs %d, proven %d" % (need, have))
    ck.floor(rid + tag, n, floor)
