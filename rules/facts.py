"""Fact extraction runner + loader + CFG utilities for the mirfacts engine.

Facts are produced by /verif/engine/mirfacts (rustc_private driver) under
`cargo +nightly check` of the *current working tree* of the repository and cached under
/verif/.cache/facts/<sha256 of every input file + config + driver>.  Nothing here executes the
program under analysis.
"""
import fcntl
import hashlib
import json
import os
import shutil
import subprocess
import sys
import time

VERIF = os.path.dirname(os.path.dirname(os.path.abspath(__file__)))
REPO = os.environ.get("VERIF_REPO", "/repo")
CACHE = os.path.join(VERIF, ".cache")
DRIVER_DIR = os.path.join(VERIF, "engine", "mirfacts")
DRIVER = os.path.join(DRIVER_DIR, "target", "debug", "mirfacts")

CONFIGS = {
    "default": [],
    "nodefault": ["--no-default-features"],
    "optall": ["--features", "opt-all,simulation,acl,compression"],
    "security": ["--features", "security,s3,datadog"],
}


def _sysroot():
    return subprocess.check_output(["rustc", "+nightly", "--print", "sysroot"], text=True).strip()


def ensure_driver():
    src = os.path.join(DRIVER_DIR, "src", "main.rs")
    if os.path.exists(DRIVER) and os.path.getmtime(DRIVER) >= os.path.getmtime(src):
        return
    env = dict(os.environ, CARGO_NET_OFFLINE="true")
    env.pop("RUSTC_WRAPPER", None)
    env.pop("RUSTC_WORKSPACE_WRAPPER", None)
    env.pop("RUSTFLAGS", None)
    r = subprocess.run(["cargo", "+nightly", "build", "--offline"], cwd=DRIVER_DIR, env=env,
                       stdout=subprocess.PIPE, stderr=subprocess.STDOUT, text=True)
    if r.returncode != 0:
        sys.stderr.write(r.stdout)
        raise SystemExit("mirfacts driver failed to build")


def tree_hash(repo, config):
    h = hashlib.sha256()
    h.update(config.encode())
    with open(DRIVER, "rb") as f:
        h.update(hashlib.sha256(f.read()).digest())
    paths = []
    for root, dirs, files in os.walk(os.path.join(repo, "src")):
        dirs.sort()
        for fn in sorted(files):
            paths.append(os.path.join(root, fn))
    for extra in ("Cargo.toml", "Cargo.lock", "build.rs", ".cargo/config.toml"):
        p = os.path.join(repo, extra)
        if os.path.exists(p):
            paths.append(p)
    for p in paths:
        h.update(os.path.relpath(p, repo).encode())
        with open(p, "rb") as f:
            h.update(hashlib.sha256(f.read()).digest())
    return h.hexdigest()[:24]


def extract(repo=None, config="default", target_dir=None, quiet=True):
    """Run the driver over `repo` (default /repo) and return the directory holding the fact files."""
    repo = repo or REPO
    ensure_driver()
    key = tree_hash(repo, config)
    out = os.path.join(CACHE, "facts", key)
    marker = os.path.join(out, "DONE")
    if os.path.exists(marker):
        try:
            os.utime(out, None)
        except OSError:
            pass
        return out
    os.makedirs(CACHE, exist_ok=True)
    # VERIF_TARGET_SUFFIX: the regression runners (tools/run_seeds.py, run_refactors.py) analyse several scratch copies at once and
    # give each worker its own cargo target directory
    tdir = target_dir or os.path.join(CACHE, "target-" + config + os.environ.get("VERIF_TARGET_SUFFIX", ""))
    os.makedirs(tdir, exist_ok=True)
    lock = open(os.path.join(CACHE, "lock-" + os.path.basename(tdir)), "w")
    fcntl.flock(lock, fcntl.LOCK_EX)
    try:
        if os.path.exists(marker):
            return out
        tmp = out + ".tmp%d" % os.getpid()
        shutil.rmtree(tmp, ignore_errors=True)
        os.makedirs(tmp)
        # cargo's freshness cache would skip the wrapper: drop the member fingerprints
        fp = os.path.join(tdir, "debug", ".fingerprint")
        if os.path.isdir(fp):
            for d in os.listdir(fp):
                if d.startswith("redis-sim-"):
                    shutil.rmtree(os.path.join(fp, d), ignore_errors=True)
        env = dict(os.environ)
        env.update({
            "RUSTC_WRAPPER": "",
            "RUSTC_WORKSPACE_WRAPPER": DRIVER,
            "MIRFACTS_OUT": tmp,
            "RUSTFLAGS": "-C debug-assertions=off -Awarnings",
            "CARGO_TARGET_DIR": tdir,
            "CARGO_NET_OFFLINE": "true",
            "LD_LIBRARY_PATH": _sysroot() + "/lib:" + os.environ.get("LD_LIBRARY_PATH", ""),
        })
        cmd = ["cargo", "+nightly", "check", "--offline", "--lib", "--bins"] + CONFIGS[config]
        t0 = time.time()
        r = subprocess.run(cmd, cwd=repo, env=env, stdout=subprocess.PIPE, stderr=subprocess.STDOUT, text=True)
        if r.returncode != 0:
            sys.stderr.write(r.stdout[-6000:])
            shutil.rmtree(tmp, ignore_errors=True)
            raise BuildFailed("cargo check failed for config %s" % config)
        if not os.path.exists(os.path.join(tmp, "redis_sim-lib.json")):
            sys.stderr.write(r.stdout[-3000:])
            shutil.rmtree(tmp, ignore_errors=True)
            raise BuildFailed("driver produced no facts (wrapper skipped?)")
        with open(os.path.join(tmp, "DONE"), "w") as f:
            f.write("%.1f\n" % (time.time() - t0))
        shutil.rmtree(out, ignore_errors=True)
        os.rename(tmp, out)
        _prune_cache(keep=out)
        return out
    finally:
        fcntl.flock(lock, fcntl.LOCK_UN)
        lock.close()


class BuildFailed(Exception):
    pass


def extract_fixture(fdir=None):
    """Facts of the engine self-test crate /verif/fixtures/fx (std only), built by the same driver."""
    fdir = fdir or os.path.join(VERIF, "fixtures", "fx")
    ensure_driver()
    key = "fx-" + tree_hash(fdir, "fixture")
    out = os.path.join(CACHE, "facts", key)
    if os.path.exists(os.path.join(out, "DONE")):
        return out
    os.makedirs(CACHE, exist_ok=True)
    tdir = os.path.join(CACHE, "target-fixture")
    lock = open(os.path.join(CACHE, "lock-target-fixture"), "w")
    fcntl.flock(lock, fcntl.LOCK_EX)
    try:
        if os.path.exists(os.path.join(out, "DONE")):
            return out
        tmp = out + ".tmp%d" % os.getpid()
        shutil.rmtree(tmp, ignore_errors=True)
        os.makedirs(tmp)
        shutil.rmtree(os.path.join(tdir, "debug", ".fingerprint"), ignore_errors=True)
        env = dict(os.environ)
        env.update({"RUSTC_WRAPPER": "", "RUSTC_WORKSPACE_WRAPPER": DRIVER, "MIRFACTS_OUT": tmp, "MIRFACTS_ALL": "1",
                    "RUSTFLAGS": "-C debug-assertions=off -Awarnings", "CARGO_TARGET_DIR": tdir, "CARGO_NET_OFFLINE": "true",
                    "LD_LIBRARY_PATH": _sysroot() + "/lib:" + os.environ.get("LD_LIBRARY_PATH", "")})
        r = subprocess.run(["cargo", "+nightly", "check", "--offline", "--lib"], cwd=fdir, env=env,
                           stdout=subprocess.PIPE, stderr=subprocess.STDOUT, text=True)
        if r.returncode != 0 or not os.path.exists(os.path.join(tmp, "fx-lib.json")):
            sys.stderr.write(r.stdout[-3000:])
            shutil.rmtree(tmp, ignore_errors=True)
            raise BuildFailed("engine self-test fixture did not build / produced no facts")
        with open(os.path.join(tmp, "DONE"), "w") as f:
            f.write("ok\n")
        shutil.rmtree(out, ignore_errors=True)
        os.rename(tmp, out)
        return out
    finally:
        fcntl.flock(lock, fcntl.LOCK_UN)
        lock.close()


def _prune_cache(keep, maxn=48, min_age_s=1800):
    """least-recently-used pruning; an entry somebody loaded during the last half hour is never removed (several checks and the
    regression runners work on different trees at the same time)"""
    d = os.path.join(CACHE, "facts")
    ents = [os.path.join(d, x) for x in os.listdir(d) if ".tmp" not in x and not x.startswith("fx-")]
    ents.sort(key=lambda p: os.path.getmtime(p))
    now = time.time()
    for p in ents[:-maxn]:
        try:
            if p != keep and now - os.path.getmtime(p) > min_age_s:
                shutil.rmtree(p, ignore_errors=True)
        except OSError:
            pass


# ---------------------------------------------------------------------------------------------
# Loader
# ---------------------------------------------------------------------------------------------

class Fn:
    __slots__ = ("d", "crate", "id", "kind", "file", "lo", "hi", "blocks", "locals", "names",
                 "_succ", "_pred", "_idom", "_ipdom", "_rpo", "_defs", "_name_of")

    def __init__(self, d, crate):
        self.d = d
        self.crate = crate
        self.id = d["def"]
        self.kind = d["kind"]
        self.file = d["file"]
        self.lo = d["lo"]
        self.hi = d["hi"]
        self.blocks = d["blocks"]
        self.locals = d["locals"]
        self.names = d["names"]
        self._succ = None
        self._pred = None
        self._idom = None
        self._ipdom = None
        self._rpo = None
        self._defs = None
        self._name_of = None

    @property
    def short(self):
        return self.id.rsplit("::", 1)[-1]

    @property
    def parent(self):
        return self.d.get("parent")

    @property
    def impl_self(self):
        return self.d.get("impl_self")

    def where(self, ln=None):
        return "%s:%s" % (self.file, ln if ln is not None else self.lo)

    # ---- CFG ----
    def term(self, b):
        return self.blocks[b]["t"]

    def succ(self, b):
        if self._succ is None:
            self._build_cfg()
        return self._succ[b]

    def pred(self, b):
        if self._pred is None:
            self._build_cfg()
        return self._pred[b]

    def _build_cfg(self):
        n = len(self.blocks)
        succ = [[] for _ in range(n)]
        for i, b in enumerate(self.blocks):
            t = b["t"]
            k = t["k"]
            if k == "switch":
                s = [c[1] for c in t["cases"]] + [t["else"]]
                # constant condition (`if cfg!(debug_assertions)` with assertions off): keep the taken edge only
                cv = None
                d = t["d"]
                if "c" in d:
                    cv = d["c"]
                else:
                    pl = d.get("mv") or d.get("cp")
                    if pl is not None and "p" not in pl:
                        for st in reversed(b["st"]):
                            if st["lhs"] == {"l": pl["l"]}:
                                if st["rv"]["k"] == "use" and "c" in st["rv"]["a"] and st["rv"]["a"]["c"] in ("true", "false"):
                                    cv = st["rv"]["a"]["c"]
                                break
                if cv in ("true", "false"):
                    want = "1" if cv == "true" else "0"
                    tgt = None
                    for c in t["cases"]:
                        if c[0] == want:
                            tgt = c[1]
                    s = [tgt if tgt is not None else t["else"]]
            elif k in ("goto", "drop", "assert", "yield", "falseedge", "falseunwind"):
                s = [t["to"]]
            elif k == "call":
                s = [t["to"]] if "to" in t else []
            else:
                s = []
            seen = []
            for x in s:
                if x not in seen:
                    seen.append(x)
            succ[i] = seen
        pred = [[] for _ in range(n)]
        for i, ss in enumerate(succ):
            for s in ss:
                pred[s].append(i)
        self._succ, self._pred = succ, pred

    def rpo(self):
        if self._rpo is None:
            seen = set()
            order = []
            stack = [(0, iter(self.succ(0)))]
            seen.add(0)
            while stack:
                b, it = stack[-1]
                adv = False
                for s in it:
                    if s not in seen:
                        seen.add(s)
                        stack.append((s, iter(self.succ(s))))
                        adv = True
                        break
                if not adv:
                    order.append(b)
                    stack.pop()
            order.reverse()
            self._rpo = order
        return self._rpo

    def reachable_blocks(self):
        return set(self.rpo())

    def idom(self):
        """Cooper-Harvey-Kennedy immediate dominators on the normal-edge CFG (entry = block 0)."""
        if self._idom is None:
            rpo = self.rpo()
            idx = {b: i for i, b in enumerate(rpo)}
            idom = {0: 0}
            changed = True
            while changed:
                changed = False
                for b in rpo[1:]:
                    new = None
                    for p in self.pred(b):
                        if p in idom:
                            if new is None:
                                new = p
                            else:
                                a, c = p, new
                                while a != c:
                                    while idx[a] > idx[c]:
                                        a = idom[a]
                                    while idx[c] > idx[a]:
                                        c = idom[c]
                                new = a
                    if new is not None and idom.get(b) != new:
                        idom[b] = new
                        changed = True
            self._idom = idom
        return self._idom

    def dominates(self, a, b):
        """block a dominates block b (reflexive)."""
        idom = self.idom()
        if b not in idom or a not in idom:
            return False
        while True:
            if a == b:
                return True
            if b == 0:
                return False
            b = idom[b]

    def site_dominates(self, sa, sb):
        """sites are (block, index) with index = len(st) for the terminator."""
        if sa[0] == sb[0]:
            return sa[1] <= sb[1]
        return self.dominates(sa[0], sb[0])

    def reach(self, start_blocks, avoid=(), through_start=True):
        """blocks reachable from the *successors* of start_blocks (or incl. start if through_start=False
        is not what you want); `avoid` blocks are not entered."""
        avoid = set(avoid)
        seen = set()
        work = []
        for b in start_blocks:
            for s in self.succ(b):
                if s not in avoid and s not in seen:
                    seen.add(s)
                    work.append(s)
        while work:
            b = work.pop()
            for s in self.succ(b):
                if s not in avoid and s not in seen:
                    seen.add(s)
                    work.append(s)
        return seen

    def exits(self):
        return [i for i in self.reachable_blocks() if self.blocks[i]["t"]["k"] == "return"]

    # ---- sites ----
    def calls(self, reachable_only=True):
        rb = self.reachable_blocks() if reachable_only else range(len(self.blocks))
        for i in sorted(rb):
            t = self.blocks[i]["t"]
            if t["k"] == "call":
                yield i, t

    def stmts(self, reachable_only=True):
        rb = self.reachable_blocks() if reachable_only else range(len(self.blocks))
        for i in sorted(rb):
            for j, s in enumerate(self.blocks[i]["st"]):
                yield i, j, s

    # ---- provenance ----
    def defs(self):
        """local -> list of (block, idx, kind, payload): kind 'assign' payload rvalue; 'call' payload term;
        only whole-local definitions (no projection on lhs)."""
        if self._defs is None:
            d = {}
            for i, b in enumerate(self.blocks):
                for j, s in enumerate(b["st"]):
                    lhs = s["lhs"]
                    if "p" not in lhs:
                        d.setdefault(lhs["l"], []).append((i, j, "assign", s["rv"]))
                t = b["t"]
                if t["k"] == "call" and "p" not in t["dest"]:
                    d.setdefault(t["dest"]["l"], []).append((i, len(b["st"]), "call", t))
                if t["k"] == "yield":
                    pass
            self._defs = d
        return self._defs

    def name_of_local(self, l):
        if self._name_of is None:
            m = {}
            for n in self.names:
                pl = n["pl"]
                if "p" not in pl:
                    m.setdefault(pl["l"], n["n"])
            self._name_of = m
        return self._name_of.get(l)


def callee(t):
    """best callee path of a call terminator: resolved impl method if available, else declared."""
    return t.get("res") or t.get("fn") or ""


def callee_names(t):
    out = []
    for k in ("res", "fn", "fnargs", "xfn"):
        if k in t:
            out.append(t[k])
    return out


def op_place(o):
    if "cp" in o:
        return o["cp"]
    if "mv" in o:
        return o["mv"]
    return None


def op_local(o):
    p = op_place(o)
    if p is not None and "p" not in p:
        return p["l"]
    return None


def place_fields(p):
    """list of field names along a place's projection (ignoring derefs/downcasts)."""
    return [e["f"] for e in p.get("p", []) if isinstance(e, dict) and "f" in e]


def place_str(fn, p):
    nm = fn.name_of_local(p["l"]) or ("_%d" % p["l"])
    s = nm
    for e in p.get("p", []):
        if e == "*":
            s = "(*%s)" % s
        elif isinstance(e, dict):
            if "f" in e:
                s += "." + e["f"]
            elif "dc" in e:
                s += " as " + e["dc"]
            elif "ix" in e:
                s += "[_%d]" % e["ix"]
            elif "cix" in e:
                s += "[%d]" % e["cix"]
            else:
                s += "[..]"
    return s


class Program:
    """All facts of one configuration: the lib plus the bins."""

    def __init__(self, facts_dir):
        self.dir = facts_dir
        self.fns = {}      # id -> Fn  (lib ids unprefixed; bin ids prefixed 'bin:<crate>::')
        self.adts = {}
        self.crates = []
        for fname in sorted(os.listdir(facts_dir)):
            if not fname.endswith(".json"):
                continue
            with open(os.path.join(facts_dir, fname)) as f:
                d = json.load(f)
            is_lib = fname.endswith("-lib.json")
            crate = "lib" if is_lib else "bin:" + d["crate"]
            self.crates.append(crate)
            for a in d["adts"]:
                key = a["def"] if is_lib else crate + "::" + a["def"]
                self.adts[key] = a
            for fd in d["fns"]:
                if not is_lib:
                    fd["def"] = crate + "::" + fd["def"]
                    if "parent" in fd:
                        fd["parent"] = crate + "::" + fd["parent"]
                fn = Fn(fd, crate)
                self.fns[fn.id] = fn
        self._children = None
        self._cg = None

    def lib_fns(self):
        hidden = getattr(self, "hidden", ())
        return [f for f in self.fns.values() if f.crate == "lib" and f.id not in hidden]

    def inlined(self, no_inline=None, tag=""):
        """view with fresh private helpers spliced into their callers (see rules/inline.py)"""
        from . import inline
        return inline.inlined_view(self, no_inline, tag)

    def find(self, suffix, crate=None):
        """functions whose id ends with `suffix` (on a path-segment boundary)."""
        out = []
        for f in self.fns.values():
            if crate and f.crate != crate:
                continue
            if f.id == suffix or f.id.endswith("::" + suffix) or f.id.endswith(suffix) and suffix.startswith("::"):
                out.append(f)
        return out

    def one(self, suffix, crate="lib"):
        r = self.find(suffix, crate)
        if len(r) != 1:
            raise AnchorLost("expected exactly one function matching %r, found %d: %s" %
                             (suffix, len(r), [f.id for f in r][:5]))
        return r[0]

    def in_file(self, path):
        return [f for f in self.fns.values() if f.file == path]

    def children(self, fn):
        """closures/coroutines constructed (directly) inside fn."""
        if self._children is None:
            c = {}
            for f in self.fns.values():
                if f.parent:
                    c.setdefault(f.parent, []).append(f)
            self._children = c
        out = list(self._children.get(fn.id, []))
        for cid in fn.d.get("inlined_from", []) or []:
            out.extend(self._children.get(cid, []))
        return out

    def with_children(self, fn):
        out = [fn]
        for c in self.children(fn):
            out.extend(self.with_children(c))
        return out

    def local_callee(self, fn, t):
        """Fn object for a call terminator's callee if it is a function of the same program."""
        for k in ("xfn", "res", "fn"):
            p = t.get(k)
            if not p:
                continue
            if fn.crate != "lib":
                if p.startswith("redis_sim::"):
                    q = p[len("redis_sim::"):]
                    if q in self.fns:
                        return self.fns[q]
                q = fn.crate + "::" + p
                if q in self.fns:
                    return self.fns[q]
            if p in self.fns:
                return self.fns[p]
        return None

    def callgraph(self):
        """id -> set of callee ids (direct calls, closure/coroutine construction, fn-item references)."""
        if self._cg is None:
            cg = {}
            impls = {}
            for f in self.fns.values():
                ti = f.d.get("implements")
                if ti:
                    impls.setdefault(ti, []).append(f.id)
            for f in self.fns.values():
                s = set()
                for _, t in f.calls(reachable_only=False):
                    c = self.local_callee(f, t)
                    if c is not None:
                        s.add(c.id)
                    else:
                        s.add("ext:" + callee(t))
                        # unresolved trait-method call (dyn / generic): may dispatch to any local impl
                        for k in ("xfn", "fn"):
                            q = t.get(k, "")
                            if q.startswith("redis_sim::"):
                                q = q[len("redis_sim::"):]
                            for iid in impls.get(q, ()):
                                s.add(iid)
                    # function items passed as arguments
                    for a in t["args"]:
                        if "fn" in a:
                            c2 = self.local_callee(f, {"fn": a["fn"]})
                            s.add(c2.id if c2 else "ext:" + a["fn"])
                for c in self.children(f):
                    s.add(c.id)
                cg[f.id] = s
            self._cg = cg
        return self._cg

    def reachable_from(self, roots):
        cg = self.callgraph()
        seen = {}
        work = []
        for r in roots:
            if r not in seen:
                seen[r] = None
                work.append(r)
        while work:
            x = work.pop()
            for y in cg.get(x, ()):
                if y not in seen:
                    seen[y] = x
                    work.append(y)
        return seen  # node -> predecessor (for path witnesses)


class AnchorLost(Exception):
    pass


_loaded = {}


def load(config="default", repo=None):
    key = (config, repo or REPO)
    if key not in _loaded:
        for attempt in (0, 1):
            d = extract(repo=repo, config=config)
            try:
                os.utime(d, None)          # mark as recently used
                _loaded[key] = Program(d)
                break
            except FileNotFoundError:
                # the cache entry vanished under us (pruned by a concurrent run): extract again
                shutil.rmtree(d, ignore_errors=True)
                if attempt:
                    raise
    return _loaded[key]
