"""Engine self-test, run by every check: the generic analyses must report the `bad_*` functions of the fixture crate
/verif/fixtures/fx and stay silent on their `ok_*` twins.  The fixture is compiled by the same driver as the repository
(facts cached by content hash) and never executed.  A failing expectation means the engine (driver or rule library) is
broken; the check then fails closed with an INTERNAL violation instead of vouching for anything."""
import re

from . import facts, hashorder, lib2
from .lib import is_callee

_cache = {}


def _prog():
    d = facts.extract_fixture()
    if d not in _cache:
        _cache[d] = facts.Program(d)
    return _cache[d]


def _fn(prog, name):
    fs = [f for f in prog.fns.values() if f.id == name or f.id.endswith("::" + name)]
    fs = [f for f in fs if f.kind in ("fn", "method")]
    if len(fs) != 1:
        raise AssertionError("fixture function %s: found %d" % (name, len(fs)))
    return fs[0]


def _body(prog, name):
    """the fn itself, or for an async fn its coroutine body"""
    f = _fn(prog, name)
    kids = [c for c in prog.children(f) if c.kind == "coroutine"]
    return kids[0] if kids else f


def run():
    """returns (n_expectations, [failure strings])"""
    prog = _prog()
    fails = []
    n = 0

    def expect(cond, what):
        nonlocal n
        n += 1
        if not cond:
            fails.append(what)

    # ---- rule H
    for name, want in (("bad_h_push_loop", True), ("ok_h_sorted", False), ("ok_h_to_set", False), ("bad_h_pick_first", True),
                       ("ok_h_count", False), ("bad_h_returned", True), ("bad_h_hash_fold", True)):
        f = _fn(prog, name)
        found = []
        for g in [f] + prog.children(f):
            found += hashorder.analyse(prog, g)
        expect(bool(found) == want, "rule H on %s: expected %s, got %s" % (name, "a report" if want else "silence", [r["kind"] for r in found]))
    r = hashorder.analyse(prog, _fn(prog, "bad_h_returned"))
    expect(any(x.get("returned") for x in r), "rule H: a Vec collected in hash order and returned is marked `returned`")
    ret = _fn(prog, "bad_h_returned")
    nc, bad = hashorder.caller_orders_result(prog, _fn(prog, "ok_h_caller_sorts"), ret)
    expect(nc == 1 and not bad, "rule H caller side: a caller that sorts the returned Vec is accepted (%s, %s)" % (nc, bad))
    nc, bad = hashorder.caller_orders_result(prog, _fn(prog, "bad_h_caller_uses_order"), ret)
    expect(nc == 1 and len(bad) == 1, "rule H caller side: a caller that indexes the returned Vec is reported (%s, %s)" % (nc, bad))

    # ---- error propagation
    for name, want in (("ok_e_question", True), ("ok_e_map_err", True), ("ok_e_match_return", True), ("bad_e_swallow", False),
                       ("bad_e_discard", False), ("bad_e_one_arm_swallows", False)):
        f = _fn(prog, name)
        calls = [(b, t) for b, t in f.calls() if is_callee(t, r"fx::fallible$", r"::fallible$", r"^fallible$")]
        if len(calls) != 1:
            fails.append("fixture %s: %d calls of fallible" % (name, len(calls)))
            n += 1
            continue
        b, t = calls[0]
        got = lib2.error_propagates(f, t)
        if not got and "map_err" in name:
            # the Result handed to `?` is the map_err result
            for b2, t2 in f.calls():
                if is_callee(t2, r"Result::<.*>::map_err"):
                    got = lib2.error_propagates(f, t2)
        expect(got == want, "error propagation on %s: expected %s, got %s" % (name, want, got))
    f = _fn(prog, "bad_e_discard")
    b = [b for b, t in f.calls() if is_callee(t, r"fallible$")][0]
    expect(not lib2.dest_used(f, b), "dest_used: `let _ = fallible()` is an unused result")

    # ---- awaited Ok dominance
    for name, want in (("ok_a_put_then_save", True), ("bad_a_put_unchecked_then_save", False), ("bad_a_save_on_both_edges", False)):
        g = _body(prog, name)
        puts = [b for b, t in g.calls() if is_callee(t, r"Store::put$")]
        saves = [b for b, t in g.calls() if is_callee(t, r"Store::save$")]
        if len(puts) != 1 or len(saves) != 1:
            fails.append("fixture %s: puts=%d saves=%d" % (name, len(puts), len(saves)))
            n += 1
            continue
        got = lib2.dominated_by_ok(g, puts[0], saves[0])
        expect(got == want, "awaited-Ok dominance on %s: expected %s, got %s" % (name, want, got))
    g = _body(prog, "ok_a_put_then_save")
    puts = [b for b, t in g.calls() if is_callee(t, r"Store::put$")]
    expect(lib2.await_result(g, puts[0]) is not None, "await_result finds the Ready payload of `put(..).await`")
    expect(lib2.awaited_error_propagates(g, puts[0]), "`put(..).await?` propagates its error")
    g = _body(prog, "bad_a_put_unchecked_then_save")
    puts = [b for b, t in g.calls() if is_callee(t, r"Store::put$")]
    expect(not lib2.awaited_error_propagates(g, puts[0]), "`let _ = put(..).await` does not propagate its error")

    # ---- must-pass-through
    for name, want_path in (("ok_d_release_all_paths", False), ("bad_d_release_missing_on_early_return", True)):
        f = _fn(prog, name)
        acq = [b for b, t in f.calls() if is_callee(t, r"Pool::acquire$")][0]
        rel = {b for b, t in f.calls() if is_callee(t, r"Pool::release$")}
        path = lib2.path_avoiding(f, acq, lambda x: False, lambda x, f=f: f.term(x)["k"] == "return", (), from_succ=True) if False else None
        # a path from the acquire to a return that avoids every release
        path = lib2.path_avoiding(f, acq, lambda x, f=f: f.term(x)["k"] == "return", lambda x: x in rel)
        expect((path is not None) == want_path, "must-pass-through on %s: expected %s, got path %s" % (name, "a leaking path" if want_path else "none", path))

    # ---- forbidden effects through resolved reachability
    from . import c20
    for name, want in (("bad_r_entry_reaches_wall_clock", True), ("ok_r_entry_virtual", False), ("bad_r_entry_env", True)):
        seen = c20.resolved_reach(prog, [_fn(prog, name)])
        hit = []
        for x in seen:
            for b, t in prog.fns[x].calls():
                nm = " ".join(facts.callee_names(t))
                if c20.FORBIDDEN.search(nm):
                    hit.append(nm[:60])
        expect(bool(hit) == want, "forbidden-effect reachability on %s: expected %s, got %s" % (name, want, hit[:2]))

    # ---- constant-false branch pruning (debug assertions are off in the analysed profile)
    f = _fn(prog, "ok_c_debug_only_path")
    pushes = [b for b, t in f.calls() if is_callee(t, r"Vec::<u32>::push$")]
    expect(not pushes, "`if cfg!(debug_assertions)` body is pruned from the reachable CFG (found push at %s)" % pushes)
    pushes_all = [b for b, t in f.calls(reachable_only=False) if is_callee(t, r"Vec::<u32>::push$")]
    expect(len(pushes_all) == 1, "the pruned push still exists in the unreachable part of the CFG (%d)" % len(pushes_all))
    return n, fails
