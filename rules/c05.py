"""C05 — MULTI/EXEC: queue guard, state reset, one result per queued command, WATCH observer."""
import re
from .facts import callee, op_place, op_local
from .lib import src_of_operand, src_of_place, is_callee, TRANSPARENT, switch_info, edge_targets
from . import effects, lib2

H = "production::connection_optimized::OptimizedConnectionHandler::<S>::"
FIELDS = ("in_transaction", "transaction_queue", "transaction_errors", "watched_keys")


def _tag(cfg):
    return "" if cfg == "default" else "@" + cfg


def _ctor_blocks(fn, g):
    """blocks of fn in which the closure/coroutine g is constructed"""
    out = []
    for b, i, st in fn.stmts():
        rv = st["rv"]
        if rv["k"] == "agg" and rv.get("n") == g.id:
            out.append(b)
    return out


def run(ck, ctx):
    ck.rule("R05.1", "nothing executes while queuing: every data-executing call of the connection handler (state.execute, pooled/fast "
                     "paths, batch pipelines) is dominated by the `in_transaction == false` edge or lies in the EXEC arm")
    ck.rule("R05.2", "transaction state reset is complete: every path through the EXEC and DISCARD arms resets in_transaction, "
                     "transaction_queue, transaction_errors and watched_keys (assignment false / clear / mem::take, or the field is "
                     "known false on that path)")
    ck.rule("R05.3", "one result per queued command: the EXEC loop over the taken queue pushes exactly one result per iteration and "
                     "has no early exit")
    ck.rule("R05.4", "WATCH observer is type-total: the command used to snapshot a watched key must not collapse several value "
                     "types into one constant reply")
    ck.rule("R05.5", "transaction-control arms exist in both states (nested MULTI, WATCH inside MULTI, EXEC/DISCARD without MULTI)")
    ck.rule("R05.6", "WATCH only appends: inside the WATCH arm the snapshot list is only pushed to (the first snapshot of a key is "
                     "never refreshed, removed or overwritten); UNWATCH/EXEC/DISCARD are the only places that clear it")
    ck.rule("R05.8", "EXEC re-observes with WATCH's observer: the command the connection handler constructs to re-read a watched key in the "
                     "EXEC arm is the command the WATCH arm constructed for the snapshot (two different observers - GET vs MGET/EXISTS/TYPE - "
                     "answer differently for some key states, so unchanged keys would compare unequal or changed keys equal)")
    ck.rule("R05.9", "EXEC decides nothing before it has compared the watched keys: every array reply of EXEC (result array or nil) is "
                     "dominated by the comparison of the watched keys with their snapshots - in the executor's execute_exec and in the "
                     "connection handler's EXEC arm (where the only earlier exit is the EXECABORT error); an early exit for an empty "
                     "queue would report a failed WATCH as success")
    ck.rule("R05.7", "a queue-time command error always aborts: on the in_transaction edge of the command-parse error arm every "
                     "path sets transaction_errors = true; unknown commands in MULTI do the same")
    ck.nd("equality with sequential execution; isolation against other connections (EXEC is a sequence of independent shard awaits)")
    ck.rule("R05.12", "the transaction state of an executor is touched only by the transaction commands: `watched_keys` (the WATCH snapshots), "
                      "`queued_commands` and `in_transaction` are read and written by MULTI / EXEC / DISCARD / WATCH / UNWATCH and the queueing gate of "
                      "execute() - no data command (FLUSHALL 'releasing' the snapshots, DEL 'forgetting' a watched key) rewrites what EXEC compares "
                      "against: a snapshot changed behind EXEC's back makes a modified watched key look unmodified")
    ck.rule("R05.11", "the executor's EXEC leaves queuing mode before it replays: `in_transaction = false` dominates the execution of the queued commands "
                      "(a queued command that re-enters the executor - a script's redis.call - must be executed, not queued again and dropped when "
                      "EXEC clears the queue) (shared with C16 R16.7)")
    ck.rule("R05.10", "`differs from its value when WATCH was issued` is decided by exact structural equality: the PartialEq impls of Value and "
                      "of every stored type under src/redis/data are derived, or compare field against the same field with `==` and nothing else "
                      "(no tolerance, no arithmetic, no projection of a subset of the fields): a modification that the comparison cannot see "
                      "lets EXEC run")
    for cfg in ctx.configs:
        prog = ctx.prog(cfg)
        ck.configs.append(cfg)
        ck.fn_count += len(prog.fns)
        _rules(ck, prog, cfg)
        _executor_twin(ck, prog, cfg)
        _r0510(ck, prog, cfg)
        _r0512(ck, prog, cfg)
        from . import c16 as _c16
        from .core import Only as _Only16
        _c16._r167(_Only16(ck, {"R16.7": "R05.11"}), prog, cfg)


def _self_field(fn, place_or_operand, is_place=False):
    s = src_of_place(fn, place_or_operand, through_calls=TRANSPARENT) if is_place else \
        src_of_operand(fn, place_or_operand, through_calls=TRANSPARENT + (r"DerefMut>::deref_mut$", r"Deref>::deref$"))
    if s.kind == "path" and s.root == "self" and s.fields and s.fields[0] in FIELDS:
        return s.fields[0]
    # edition-2021 precise closure capture: `self.watched_keys` used inside a closure is captured as `self__watched_keys`
    if s.kind == "path" and (s.root or "").startswith("self__") and s.root[6:].split("__")[0] in FIELDS:
        return s.root[6:].split("__")[0]
    return None


def _in_tx_edges(fn):
    """(true_target, false_target, switch block) for every test of self.in_transaction"""
    out = []
    for b in sorted(fn.reachable_blocks()):
        si = switch_info(fn, b)
        if si and si["kind"] == "val" and si["src"] is not None:
            s = si["src"]
            neg = False
            if s.kind == "rv" and s.rv["k"] == "un" and s.rv["op"] == "Not":
                s = src_of_operand(fn, s.rv["a"])
                neg = True
            if s.kind == "path" and s.root == "self" and s.fields == ("in_transaction",):
                tt, ft = lib2.bool_edges(fn, b)
                if neg:
                    tt, ft = ft, tt
                out.append((tt, ft, b))
    return out


def _arm_of(fn, sw, variant_names, adt_names):
    t = fn.term(sw)
    for v, tg in t["cases"]:
        if adt_names[int(v)] in variant_names:
            return tg
    return None


def _rules(ck, prog, cfg):
    fn = prog.one(H + "try_execute_command::{closure#0}")
    runb = prog.one(H + "run::{closure#0}::{closure#0}")
    names = [v["n"] for v in prog.adts["redis::command::Command"]["variants"]]
    edges = _in_tx_edges(fn)
    ck.check(len(edges) >= 2, "R05.1", "in_transaction-tests" + _tag(cfg), "fewer than two tests of in_transaction in try_execute_command", fn.where())
    # the two dispatch switches
    sw_tx = sw_no = None
    for b in sorted(fn.reachable_blocks()):
        si = switch_info(fn, b)
        if si and si["kind"] == "discr" and si["ty"] == "redis::command::Command":
            for tt, ft, sb in edges:
                if tt is not None and fn.pred(tt) == [sb] and fn.dominates(tt, b):
                    sw_tx = b
                if ft is not None and fn.pred(ft) == [sb] and fn.dominates(ft, b):
                    sw_no = b
    if sw_tx is None or sw_no is None:
        ck.anchor_lost("R05.5", "the two transaction-state dispatch switches were not found")
        return
    listed_tx = {names[int(v)] for v, _ in fn.term(sw_tx)["cases"]}
    listed_no = {names[int(v)] for v, _ in fn.term(sw_no)["cases"]}
    for v in ("Exec", "Discard", "Multi", "Watch"):
        ck.check(v in listed_tx, "R05.5", "in-multi:%s%s" % (v, _tag(cfg)), "no arm for %s while a transaction is open" % v, fn.where(fn.term(sw_tx)["ln"]),
                 detail="arm exists")
    for v in ("Exec", "Discard", "Multi", "Watch", "Unwatch"):
        ck.check(v in listed_no, "R05.5", "no-multi:%s%s" % (v, _tag(cfg)), "no arm for %s outside a transaction" % v, fn.where(fn.term(sw_no)["ln"]),
                 detail="arm exists")
    exec_t = _arm_of(fn, sw_tx, ("Exec",), names)
    disc_t = _arm_of(fn, sw_tx, ("Discard",), names)
    watch_t = _arm_of(fn, sw_no, ("Watch",), names)
    exec_arm = {x for x in fn.reachable_blocks() if fn.dominates(exec_t, x)} if exec_t is not None else set()
    disc_arm = {x for x in fn.reachable_blocks() if fn.dominates(disc_t, x)} if disc_t is not None else set()
    watch_arm = {x for x in fn.reachable_blocks() if fn.dominates(watch_t, x)} if watch_t is not None else set()

    # ---- R05.1
    n1 = 0
    EXECUTING = (r"ShardedActorState::<T>::execute$", r"ShardedActorState::<T>::(pooled_fast_get|pooled_fast_set|fast_get|fast_set)$",
                 r"ShardedActorState::<T>::fast_batch_(get|set)_pipeline$", r"OptimizedConnectionHandler::<S>::try_fast_path$",
                 r"OptimizedConnectionHandler::<S>::collect_(get_keys|set_pairs)$")
    for f in (fn, runb):
        ed = _in_tx_edges(f)
        for b, t in f.calls():
            if not is_callee(t, *EXECUTING):
                continue
            n1 += 1
            ok = b in exec_arm and f is fn
            for tt, ft, sb in ed:
                if ft is not None and f.pred(ft) == [sb] and f.dominates(ft, b):
                    ok = True
            ck.check(ok, "R05.1", "%s:%s#%d%s" % (f.short if f is not fn else "try_execute_command", callee(t).rsplit("::", 1)[-1], n1, _tag(cfg)),
                     "a command can be executed while a transaction is open (the call is not behind the in_transaction==false edge and is "
                     "not the EXEC replay): queued commands would take effect before EXEC", f.where(t["ln"]), detail="guarded by !in_transaction")
    ck.floor("R05.1" + _tag(cfg), n1, 7)

    # ---- R05.2
    def resets(f, region):
        """field -> set of blocks in region that reset it"""
        out = {k: set() for k in FIELDS}
        for b in region:
            for st in f.blocks[b]["st"]:
                if "p" in st["lhs"]:
                    fld = _self_field(f, st["lhs"], True)
                    if fld in ("in_transaction", "transaction_errors") and st["rv"]["k"] == "use" and st["rv"]["a"].get("c") == "false":
                        out[fld].add(b)
            t = f.term(b)
            if t["k"] == "call" and t["args"] and is_callee(t, r"Vec::<.*>::clear$", r"mem::take", r"Vec::<.*>::drain"):
                fld = _self_field(f, t["args"][0])
                if fld in ("transaction_queue", "watched_keys"):
                    out[fld].add(b)
        return out

    for arm_name, tg, arm in (("EXEC", exec_t, exec_arm), ("DISCARD", disc_t, disc_arm)):
        if tg is None:
            continue
        rs = resets(fn, arm)
        # exempt edges: the field is known false on the false edge of a test on it
        for fld in FIELDS:
            exempt = set()
            if fld in ("transaction_errors",):
                for b in arm:
                    si = switch_info(fn, b)
                    if si and si["kind"] == "val" and si["src"] is not None and si["src"].kind == "path" and si["src"].root == "self" \
                            and si["src"].fields == (fld,):
                        tt, ft = lib2.bool_edges(fn, b)
                        exempt.add((b, ft))
            # a queue that was just iterated after mem::take is empty: handled by take being a reset
            path = lib2.path_avoiding(fn, tg, lambda x: x not in arm, lambda x: x in rs[fld], exempt, from_succ=False)
            ck.check(path is None, "R05.2", "%s:%s%s" % (arm_name, fld, _tag(cfg)),
                     "a path through the %s arm leaves `%s` untouched: the next transaction of this connection starts with stale state"
                     % (arm_name, fld), fn.where(fn.term(path[-2])["ln"]) if path and len(path) > 1 else fn.where(fn.term(tg)["ln"]),
                     detail="reset on every path")

    # ---- R05.3
    n3 = 0
    pushes = [(b, t) for b, t in fn.calls() if b in exec_arm and is_callee(t, r"Vec::<redis::resp::RespValue>::push$")]
    for pb, pt in pushes:
        v = src_of_operand(fn, pt["args"][1])
        n3 += 1
        # loop head: the Iterator::next whose Some edge dominates the push
        heads = [(b, t) for b, t in fn.calls() if b in exec_arm and is_callee(t, r"Iterator>::next$") and fn.dominates(b, pb)]
        good = False
        for hb, ht in heads:
            sw = [x for x in fn.succ(hb)]
            # the block after next() holds the discriminant switch
            for sb in sorted(exec_arm):
                si = switch_info(fn, sb)
                if si and si["kind"] == "discr" and "p" not in si["place"] and si["place"]["l"] == ht["dest"]["l"]:
                    some_t = edge_targets(fn, sb, 1)
                    none_t = edge_targets(fn, sb, 0)
                    # every path from the Some edge returns to the loop head through the push
                    p1 = lib2.path_avoiding(fn, some_t, lambda x: x == hb or x not in exec_arm, lambda x: x == pb, (), from_succ=False)
                    # no second push per iteration
                    again = [x for x in fn.reach([pb], avoid=[hb]) if x == pb]
                    good = p1 is None and not again
        ck.check(good, "R05.3", "EXEC:results.push#%d%s" % (n3, _tag(cfg)),
                 "the EXEC replay loop can skip or duplicate a result (early exit / conditional push): the reply array no longer has "
                 "one element per queued command", fn.where(pt["ln"]), detail="one push per iteration, no early exit")
    ck.floor("R05.3" + _tag(cfg), n3, 1)

    # ---- R05.4
    snap_cmds = set()
    for b in sorted(watch_arm):
        for st in fn.blocks[b]["st"]:
            rv = st["rv"]
            if rv["k"] == "agg" and rv["n"].startswith("redis::command::Command::"):
                snap_cmds.add(rv["n"].rsplit("::", 1)[-1])
    ck.check(bool(snap_cmds), "R05.4", "snapshot-command-found" + _tag(cfg), "no snapshot command constructed in the WATCH arm", fn.where())
    ex = prog.one("redis::executor::CommandExecutor::execute")
    sw, table = effects.dispatch_table(prog, ex)
    for sc in sorted(snap_cmds):
        collapse = None
        for t in table.get(sc, []):
            h = prog.local_callee(ex, t)
            if h is None or not h.short.startswith("execute_"):
                continue
            for b in sorted(h.reachable_blocks()):
                si = switch_info(h, b)
                if si and si["kind"] == "discr" and si["ty"] == "redis::data::value::Value":
                    tt = h.term(b)
                    nvar = len(prog.adts["redis::data::value::Value"]["variants"])
                    covered = nvar - len(tt["cases"])
                    if covered >= 2:
                        et = tt["else"]
                        reg = {et} | h.reach([et])
                        for x in reg:
                            xt = h.term(x)
                            if xt["k"] == "call" and is_callee(xt, r"RespValue::err\b") and xt["args"] and "c" in xt["args"][0]:
                                collapse = (h, xt)
        ck.check(collapse is None, "R05.4", "snapshot:%s%s" % (sc, _tag(cfg)),
                 "WATCH snapshots a key with Command::%s, whose handler answers the same constant error for every non-string type: a "
                 "change of a watched list/set/hash/zset is invisible and EXEC runs" % sc,
                 collapse[0].where(collapse[1]["ln"]) if collapse else None, detail="observer distinguishes all value types")

    # ---- R05.8: EXEC re-observes a watched key with the observer WATCH used
    exec_cmds = set()
    for b in sorted(exec_arm):
        for st in fn.blocks[b]["st"]:
            rv = st["rv"]
            if rv["k"] == "agg" and rv["n"].startswith("redis::command::Command::"):
                exec_cmds.add(rv["n"].rsplit("::", 1)[-1])
    for g in prog.children(fn):
        if any(b in exec_arm for b in _ctor_blocks(fn, g)):
            for b, i, st in g.stmts():
                rv = st["rv"]
                if rv["k"] == "agg" and rv["n"].startswith("redis::command::Command::"):
                    exec_cmds.add(rv["n"].rsplit("::", 1)[-1])
    ck.floor("R05.8" + _tag(cfg), len(exec_cmds), 1)
    ck.check(exec_cmds == snap_cmds, "R05.8", "EXEC:observer-is-WATCH-observer" + _tag(cfg),
             "EXEC re-reads watched keys with Command::{%s} while WATCH took its snapshot with Command::{%s}: two observers answer differently "
             "for some key states (GET answers WRONGTYPE for a list/set/hash/zset, MGET answers nil), so an unchanged watched key "
             "compares unequal and EXEC aborts - or a changed one compares equal" % (",".join(sorted(exec_cmds)), ",".join(sorted(snap_cmds))),
             fn.where(), detail="both use Command::{%s}" % ",".join(sorted(snap_cmds)))

    # ---- R05.9 (connection): array replies of the EXEC arm come after the watched keys were taken for comparison
    takes = [b for b, t in fn.calls() if b in exec_arm and t.get("args") and _self_field(fn, t["args"][0]) == "watched_keys"]
    arrs9 = [(b, st) for b in sorted(exec_arm) for st in fn.blocks[b]["st"] if st["rv"]["k"] == "agg" and st["rv"].get("n") == "redis::resp::RespValue::Array"]
    for k, (ab, st) in enumerate(arrs9):
        ck.check(any(fn.dominates(tb, ab) for tb in takes), "R05.9", "EXEC:array-reply#%d%s" % (k, _tag(cfg)),
                 "the EXEC arm can answer with an array on a path that never looked at the watched keys", fn.where(st["ln"]),
                 detail="dominated by the read of watched_keys")
    ck.floor("R05.9" + _tag(cfg), len(arrs9), 1)

    # ---- R05.6
    n6 = 0
    for b in sorted(watch_arm):
        t = fn.term(b)
        if t["k"] == "call" and t["args"]:
            fld = _self_field(fn, t["args"][0])
            if fld == "watched_keys":
                n6 += 1
                allowed = is_callee(t, r"Vec::<.*>::(push|len|is_empty|iter|capacity|reserve)$", r"Deref>::deref$", r"<impl \[.*\]>::(iter|len|contains|is_empty)$")
                ck.check(allowed, "R05.6", "WATCH:%s#%d%s" % (callee(t).rsplit("::", 1)[-1], n6, _tag(cfg)),
                         "the WATCH arm modifies existing snapshots (%s): re-watching a key forgives a write that happened after the "
                         "first WATCH" % callee(t).rsplit("::", 1)[-1], fn.where(t["ln"]), detail="append-only")
        for st in fn.blocks[b]["st"]:
            if "p" in st["lhs"]:
                s = src_of_place(fn, st["lhs"], through_calls=TRANSPARENT + (r"IndexMut<.*>>::index_mut$", r"DerefMut>::deref_mut$",
                                                                              r"Iterator>::next$", r"<impl \[.*\]>::iter_mut$", r"Vec::<.*>::iter_mut$",
                                                                              r"IntoIterator>::into_iter$", r"Iterator>::find", r"Option::<.*>::(unwrap|expect)"))
                if s.kind == "path" and s.root == "self" and s.fields[:1] == ("watched_keys",) and len(s.fields) > 1:
                    n6 += 1
                    ck.bad("R05.6", "WATCH:store-into-snapshot#%d%s" % (n6, _tag(cfg)),
                           "the WATCH arm overwrites part of an existing snapshot entry", fn.where(st["ln"]))
                if s.kind == "path" and s.root == "self" and s.fields == ("watched_keys",):
                    n6 += 1
                    ck.bad("R05.6", "WATCH:replace-list%s" % _tag(cfg),
                           "the WATCH arm assigns a new list to self.watched_keys: keys registered by an earlier WATCH of this connection are "
                           "forgotten, a write to them no longer aborts EXEC", fn.where(st["ln"]))
    ck.floor("R05.6" + _tag(cfg), n6, 1)
    # executor-level twin: execute_watch may only add to self.watched_keys
    for ew in [g for g in prog.lib_fns() if g.short == "execute_watch" and g.file == "src/redis/executor/transaction_ops.rs"]:
        n6b = 0
        def via_parent(g, operand):
            """a closure that captured a local alias of the parent (`let watched = &mut self.watched_keys;`): resolve the alias there"""
            fld = _self_field(g, operand)
            if fld is not None or g is ew:
                return fld
            s_ = src_of_operand(g, operand, through_calls=TRANSPARENT + (r"DerefMut>::deref_mut$", r"Deref>::deref$"))
            if s_.kind == "path" and s_.root and not s_.fields:
                for nm in ew.names:
                    if nm["n"] == s_.root and not nm["pl"].get("p"):
                        sp_ = src_of_place(ew, {"l": nm["pl"]["l"]}, through_calls=TRANSPARENT + (r"DerefMut>::deref_mut$", r"Deref>::deref$"))
                        if sp_.kind == "path" and sp_.root == "self" and sp_.fields and sp_.fields[0] in FIELDS:
                            return sp_.fields[0]
            return None
        for g in [ew] + prog.children(ew):
            for b, t in g.calls():
                if t["args"] and via_parent(g, t["args"][0]) == "watched_keys":
                    n6b += 1
                    allowed = is_callee(t, r"(AHashMap|HashMap)::<.*>::(insert|entry|len|is_empty|contains_key|get|iter|keys|reserve|extend)\b", r"Deref(Mut)?>::deref(_mut)?$",
                                        r"(AHashMap|HashMap)<.*> as std::iter::Extend<.*>>::extend")
                    ck.check(allowed, "R05.6", "execute_watch:%s%s" % (callee(t).rsplit("::", 1)[-1].split("<")[0], _tag(cfg)),
                             "execute_watch calls %s on the watched-key map: WATCH must only add keys (an earlier WATCH of the same connection "
                             "stays in force until EXEC/DISCARD/UNWATCH)" % callee(t).rsplit("::", 1)[-1], g.where(t["ln"]), detail="append-only")
            for b, i, st in g.stmts():
                lhs = st["lhs"]
                if "p" in lhs:
                    sp = src_of_place(g, lhs)
                    if sp.kind == "path" and sp.root == "self" and sp.fields == ("watched_keys",):
                        n6b += 1
                        ck.bad("R05.6", "execute_watch:replace-map%s" % _tag(cfg),
                               "execute_watch assigns a new map to self.watched_keys: keys registered by an earlier WATCH are forgotten, a "
                               "write to them no longer aborts EXEC", g.where(st["ln"]))
        ck.floor("R05.6-executor" + _tag(cfg), n6b, 1)

    # ---- R05.7
    parse = [(b, t) for b, t in fn.calls() if is_callee(t, r"Command>::from_resp_zero_copy$")]
    ck.check(len(parse) == 1, "R05.7", "command-parse-call" + _tag(cfg), "from_resp_zero_copy call not found exactly once", fn.where())
    for pb, pt in parse:
        for (swb, okt, errt) in lib2.ok_edges(fn, pt["dest"]["l"]):
            err_reg = ({errt} | fn.reach([errt], avoid=[swb])) - ({okt} | fn.reach([okt], avoid=[swb]))
            sets = set()
            for b in err_reg:
                for st in fn.blocks[b]["st"]:
                    if "p" in st["lhs"] and _self_field(fn, st["lhs"], True) == "transaction_errors" and st["rv"]["k"] == "use" \
                            and st["rv"]["a"].get("c") == "true":
                        sets.add(b)
            ok = False
            for tt, ft, sb in edges:
                if sb in err_reg and tt is not None:
                    path = lib2.path_avoiding(fn, tt, lambda x: x not in err_reg, lambda x: x in sets, (), from_succ=False)
                    ok = path is None and bool(sets)
            ck.check(ok, "R05.7", "parse-error-aborts" + _tag(cfg),
                     "while a transaction is open a command that fails to parse does not always mark the transaction as failed: the "
                     "command is dropped with an error and EXEC then runs the rest (half a transaction, no EXECABORT)",
                     fn.where(pt["ln"]), detail="transaction_errors = true on every in_transaction path of the Err arm")
    # the queueing arm (every command without an arm of its own while a transaction is open): queued, or the transaction is marked failed
    other_t = fn.term(sw_tx).get("else")
    pushes = {b for b, t in fn.calls() if is_callee(t, r"Vec::<redis::command::Command>::push$") and t["args"] and _self_field(fn, t["args"][0]) == "transaction_queue"}
    flagged = {b for b in fn.reachable_blocks() for st in fn.blocks[b]["st"] if "p" in st["lhs"] and _self_field(fn, st["lhs"], True) == "transaction_errors"
               and st["rv"]["k"] == "use" and st["rv"]["a"].get("c") == "true"}
    if other_t is not None and pushes:
        arm = {x for x in fn.reachable_blocks() if fn.dominates(other_t, x)}
        miss = lib2.path_avoiding(fn, other_t, lambda x: x not in arm or fn.term(x)["k"] == "return", lambda x: x in pushes or x in flagged, (), from_succ=False)
        lines = []
        for x in miss or []:
            ln = fn.term(x).get("ln")
            if ln and (not lines or lines[-1] != ln):
                lines.append(ln)
        ck.check(miss is None, "R05.7", "queue-or-abort" + _tag(cfg),
                 "while a transaction is open a command can be answered without being queued and without marking the transaction failed (lines %s): "
                 "EXEC then runs the others - part of the transaction - instead of EXECABORT" % lines[:8], fn.where(lines[0] if lines else None),
                 detail="every path of the queueing arm pushes to transaction_queue or sets transaction_errors")
    else:
        ck.anchor_lost("R05.7", "the queueing arm (push to transaction_queue behind the in-transaction dispatch) was not found")
    # unknown commands inside MULTI
    unk_t = _arm_of(fn, sw_tx, ("Unknown",), names)
    if unk_t is not None:
        arm = {x for x in fn.reachable_blocks() if fn.dominates(unk_t, x)}
        errs = [b for b, t in fn.calls() if b in arm and is_callee(t, r"RespValue::err\b")]
        for k_, eb in enumerate(sorted(errs, key=lambda x: fn.term(x)["ln"])):
            setb = [b for b in arm for st in fn.blocks[b]["st"] if "p" in st["lhs"] and _self_field(fn, st["lhs"], True) == "transaction_errors"
                    and st["rv"]["k"] == "use" and st["rv"]["a"].get("c") == "true"]
            ck.check(any(fn.dominates(sb, eb) or eb in fn.reach([sb]) or sb in fn.reach([eb]) for sb in setb), "R05.7",
                     "unknown-in-multi#%d%s" % (k_, _tag(cfg)), "an error reply for an unknown command inside MULTI does not mark the "
                     "transaction as failed", fn.where(fn.term(eb)["ln"]), detail="errors flag set")


# ------------------------------------------------------------------------------------------------
# the executor-level twin (CommandExecutor::{execute, execute_multi/exec/discard/watch/unwatch}): same clauses, keys `executor:*`
EX = "redis::executor::"
XFIELDS = ("in_transaction", "queued_commands", "watched_keys")


def _xfield(fn, operand_or_place, is_place=False):
    s = src_of_place(fn, operand_or_place, through_calls=TRANSPARENT) if is_place else \
        src_of_operand(fn, operand_or_place, through_calls=TRANSPARENT + (r"DerefMut>::deref_mut$", r"Deref>::deref$"))
    if s.kind == "path" and s.root == "self" and s.fields and s.fields[0] in XFIELDS:
        return s.fields[0]
    return None


def _xresets(fn):
    """field -> blocks that reset it (in_transaction = false, queue/watch cleared or taken)"""
    out = {k: set() for k in XFIELDS}
    for b, i, st in fn.stmts():
        if "p" in st["lhs"]:
            f = _xfield(fn, st["lhs"], is_place=True)
            if f == "in_transaction" and st["rv"]["k"] == "use" and st["rv"]["a"].get("c", "").strip() in ("const false", "false"):
                out[f].add(b)
    for b, t in fn.calls():
        if t["args"] and is_callee(t, r"(Vec|AHashMap|HashMap)::<.*>::clear$", r"mem::take"):
            f = _xfield(fn, t["args"][0])
            if f in ("queued_commands", "watched_keys"):
                out[f].add(b)
    return out


def _gate_leak(ex, sw, names):
    """path-sensitive walk from the entry of CommandExecutor::execute to its dispatch switch `sw`: can the dispatch be reached with
    in_transaction == true and a command other than EXEC/DISCARD/MULTI?  Tracks the set of possible Command variants (narrowed by
    discriminant switches on a `&Command` parameter), bool locals assigned constants, and the outcome of the in_transaction test.
    -> False (no leak), True (leak), None (could not decide)"""
    ALLOWED = {"Exec", "Discard", "Multi"}
    allv = frozenset(names)
    intx_sw = {sb: (tt, ft) for tt, ft, sb in _in_tx_edges(ex)}
    seen = set()
    work = [(0, allv, (), None)]
    steps = 0
    while work:
        b, vs, flags, intx = work.pop()
        key = (b, vs, flags, intx)
        if key in seen:
            continue
        seen.add(key)
        steps += 1
        if steps > 40000:
            return None
        if b == sw:
            if intx is not False and not (vs <= ALLOWED):
                return True
            continue
        fl = dict(flags)
        for st in ex.blocks[b]["st"]:
            l = st["lhs"].get("l")
            if st["lhs"].get("p") or l is None:
                continue
            rv = st["rv"]
            if rv["k"] == "use" and "c" in rv["a"] and str(rv["a"]["c"]).replace("const ", "") in ("true", "false"):
                fl[l] = str(rv["a"]["c"]).replace("const ", "") == "true"
            elif rv["k"] == "use" and op_local(rv["a"]) in fl and not (op_place(rv["a"]) or {}).get("p"):
                fl[l] = fl[op_local(rv["a"])]
            elif rv["k"] == "un" and rv.get("op") == "Not" and op_local(rv["a"]) in fl:
                fl[l] = not fl[op_local(rv["a"])]
            elif l in fl:
                del fl[l]
        flags2 = tuple(sorted(fl.items()))
        t = ex.term(b)
        if t["k"] == "return":
            continue
        if t["k"] == "switch":
            si = switch_info(ex, b)
            if b in intx_sw:
                tt, ft = intx_sw[b]
                if tt is not None:
                    work.append((tt, vs, flags2, True))
                if ft is not None:
                    work.append((ft, vs, flags2, False))
                continue
            if si and si["kind"] == "discr" and si.get("ty") == "redis::command::Command":
                listed = set()
                for v, tg in t["cases"]:
                    nv = vs & {names[int(v)]}
                    listed.add(names[int(v)])
                    if nv:
                        work.append((tg, frozenset(nv), flags2, intx))
                rest = vs - listed
                if rest and t.get("else") is not None:
                    work.append((t["else"], frozenset(rest), flags2, intx))
                continue
            l = op_local(t["d"])
            if t.get("dt") == "bool" and l in fl:
                work.append((edge_targets(ex, b, "1" if fl[l] else "0"), vs, flags2, intx))
                continue
        for s2 in ex.succ(b):
            work.append((s2, vs, flags2, intx))
    return False


def _executor_twin(ck, prog, cfg):
    ex = prog.one(EX + "CommandExecutor::execute")
    names = [v["n"] for v in prog.adts["redis::command::Command"]["variants"]]
    from . import effects
    sw, table = effects.dispatch_table(prog, ex)
    # R05.1: the dispatch is reached with in_transaction == true only for EXEC/DISCARD/MULTI; everything else is queued
    edges = [(tt, ft, sb) for tt, ft, sb in _in_tx_edges(ex) if ex.dominates(sb, sw)]
    ck.check(len(edges) == 1 and sw is not None, "R05.1", "executor:queue-guard-exists" + _tag(cfg),
             "CommandExecutor::execute has no single in_transaction test in front of its dispatch", ex.where())
    if len(edges) == 1 and sw is not None:
        tt, ft, sb = edges[0]
        exempt = set()
        inner = None
        for b in sorted(ex.reachable_blocks()):
            si = switch_info(ex, b)
            if b != sw and si and si["kind"] == "discr" and si["ty"] == "redis::command::Command" and ex.dominates(tt, b) and ex.pred(tt) == [sb]:
                inner = b
                for v, tg in ex.term(b)["cases"]:
                    if names[int(v)] in ("Exec", "Discard", "Multi"):
                        exempt.add((b, tg))
        path = lib2.path_avoiding(ex, tt, lambda x: x == sw, lambda x: False, exempt, from_succ=False) if inner is not None else [tt]
        if inner is not None and path is None:
            # every variant that shares a passing edge must be one of the three
            for v, tg in ex.term(inner)["cases"]:
                if (inner, tg) in exempt and names[int(v)] not in ("Exec", "Discard", "Multi"):
                    path = [inner, tg]
        if inner is None or path is not None:
            # the same gate written with a flag: `let bypass = matches!(cmd, Exec | Discard | Multi); if in_transaction && !bypass { queue }`
            leak = _gate_leak(ex, sw, names)
            if leak is False:
                inner, path = sw, None
        ck.check(inner is not None and path is None, "R05.1", "executor:dispatch-while-queuing" + _tag(cfg),
                 "with a transaction open a command other than EXEC/DISCARD/MULTI can reach the executing dispatch of CommandExecutor::execute "
                 "instead of being queued", ex.where(ex.term(sb)["ln"]), detail="only EXEC/DISCARD/MULTI pass the queue guard")
        pushes = [b for b, t in ex.calls() if is_callee(t, r"Vec::<redis::command::Command>::push$") and _xfield(ex, t["args"][0]) == "queued_commands"
                  and ex.dominates(tt, b)]
        ck.check(len(pushes) == 1, "R05.1", "executor:queues-the-command" + _tag(cfg), "the queuing arm does not push the command exactly once", ex.where())
    # R05.2: EXEC and DISCARD reset all three fields on every path behind the in_transaction test
    for short in ("execute_exec", "execute_discard"):
        f = prog.one(EX + "transaction_ops::<impl redis::executor::CommandExecutor>::" + short)
        ed = _in_tx_edges(f)
        if not ed:
            ck.anchor_lost("R05.2", "%s has no in_transaction test" % short)
            continue
        tt, ft, sb = ed[0]
        rs = _xresets(f)
        for fld in XFIELDS:
            path = lib2.path_avoiding(f, tt, lambda x: f.term(x)["k"] == "return", lambda x, fld=fld: x in rs[fld], (), from_succ=False)
            ck.check(path is None, "R05.2", "executor:%s:%s%s" % (short, fld, _tag(cfg)),
                     "a path through %s leaves `%s` untouched: the next transaction of this executor starts with stale state" % (short, fld),
                     f.where(), detail="reset on every path")
    # R05.3 + abort: EXEC replays the taken queue through one map(execute) and not at all when a watched key changed
    f = prog.one(EX + "transaction_ops::<impl redis::executor::CommandExecutor>::execute_exec")
    maps = [(b, t) for b, t in f.calls() if is_callee(t, r"Iterator>::map::")]
    adapt = [callee(t).rsplit("::", 1)[-1] for b, t in f.calls()
             if is_callee(t, r"Iterator>::(filter|filter_map|take|skip|step_by|take_while|skip_while|rev|chain|zip|flat_map)\b")
             and not any(f.dominates(bb, b) and False for bb, _ in maps)]
    replay = [c for c in prog.children(f) if any(is_callee(t, r"CommandExecutor::execute$") for _, t in c.calls())]
    colls = [b for b, t in f.calls() if is_callee(t, r"Iterator>::collect::<std::vec::Vec<redis::resp::RespValue>>$")]
    # the other accepted form: `for cmd in commands { results.push(self.execute(&cmd)) }` - every iteration executes and pushes once
    loop_form = False
    loop_push = None
    execs = [b for b, t in f.calls() if is_callee(t, r"CommandExecutor::execute$")]
    pushes = [b for b, t in f.calls() if is_callee(t, r"Vec::<redis::resp::RespValue>::push$")]
    heads = lib2.loop_heads(f)
    if len(execs) == 1 and len(pushes) == 1 and not colls:
        for h, (none_t, some_t, nb) in heads.items():
            body = {some_t} | f.reach([some_t], avoid=[h])
            if execs[0] in body and pushes[0] in body and lib2.iteration_skips(f, h, {pushes[0]}) is None and \
                    lib2.iteration_skips(f, h, {execs[0]}) is None:
                it = src_of_operand(f, f.term(nb)["args"][0], through_calls=TRANSPARENT)
                chain = []
                cur = it
                hops = 0
                while cur.kind == "call" and hops < 6:
                    chain.append(callee(cur.term).rsplit("::", 1)[-1].split("<")[0])
                    if not cur.term["args"]:
                        break
                    cur = src_of_operand(f, cur.term["args"][0], through_calls=TRANSPARENT)
                    hops += 1
                if chain[:1] == ["into_iter"] and len(chain) <= 2:
                    loop_form = True
                    loop_push = pushes[0]
    ck.check((len(replay) == 1 and len(colls) == 1) or loop_form, "R05.3", "executor:one-result-per-command" + _tag(cfg),
             "execute_exec does not build its reply as one execute() per queued command collected into a Vec", f.where(),
             detail="commands.into_iter().map(execute).collect() or a loop that executes and pushes once per command")
    if loop_form:
        viol = None
        for b in sorted(f.reachable_blocks()):
            si = switch_info(f, b)
            if si and si["kind"] == "val" and si["src"].kind in ("call", "path") and (si["src"].root == "watch_violated" or
                                                                                  (si["src"].kind == "call" and is_callee(si["src"].term, r"Iterator>::any::"))):
                viol = b
        ck.check(viol is not None, "R05.3", "executor:watch-test-exists" + _tag(cfg), "execute_exec does not test the WATCH snapshots", f.where())
        if viol is not None:
            tt2, ft2 = lib2.bool_edges(f, viol)
            ck.check(execs[0] not in f.reach([tt2]) and f.dominates(viol, execs[0]), "R05.3", "executor:abort-before-replay" + _tag(cfg),
                     "the queued commands can be executed although a watched key changed", f.where(f.term(viol)["ln"]),
                     detail="replay only on the not-violated edge")
        ck.ok("R05.3", "executor:replay-chain" + _tag(cfg), "loop over commands.into_iter()")
    if colls:
        src = src_of_operand(f, f.term(colls[0])["args"][0])
        chain = []
        cur = src
        hops = 0
        while cur.kind == "call" and hops < 6:
            chain.append(callee(cur.term).rsplit("::", 1)[-1].split("<")[0])
            cur = src_of_operand(f, cur.term["args"][0])
            hops += 1
        ck.check(chain[:2] == ["map", "into_iter"] and len(chain) <= 3, "R05.3", "executor:replay-chain" + _tag(cfg),
                 "the EXEC replay iterates the queue through %s: an adaptor that drops, reorders or truncates commands breaks "
                 "one-result-per-command" % chain, f.where(f.term(colls[0])["ln"]), detail="into_iter -> map -> collect")
        # watch violation aborts before any replay
        viol = None
        for b in sorted(f.reachable_blocks()):
            si = switch_info(f, b)
            if si and si["kind"] == "val" and si["src"].kind in ("call", "path") and (si["src"].root == "watch_violated" or
                                                                                  (si["src"].kind == "call" and is_callee(si["src"].term, r"Iterator>::any::"))):
                viol = b
        ck.check(viol is not None, "R05.3", "executor:watch-test-exists" + _tag(cfg), "execute_exec does not test the WATCH snapshots", f.where())
        if viol is not None:
            tt2, ft2 = lib2.bool_edges(f, viol)
            ck.check(colls[0] not in f.reach([tt2]) and f.dominates(viol, colls[0]), "R05.3", "executor:abort-before-replay" + _tag(cfg),
                     "the queued commands can be executed although a watched key changed", f.where(f.term(viol)["ln"]),
                     detail="replay only on the not-violated edge")
    # R05.9: no array reply (a result array or the nil array) is decided before the watched keys were compared
    viol9 = None
    for b in sorted(f.reachable_blocks()):
        si = switch_info(f, b)
        if si and si["kind"] == "val" and si["src"].kind in ("call", "path") and (si["src"].root == "watch_violated" or
                                                                              (si["src"].kind == "call" and is_callee(si["src"].term, r"Iterator>::any::"))):
            viol9 = b
    arrs = [(b, st) for b, i, st in f.stmts() if st["rv"]["k"] == "agg" and st["rv"].get("n") == "redis::resp::RespValue::Array"]
    for k, (ab, st) in enumerate(arrs):
        ck.check(viol9 is not None and f.dominates(viol9, ab), "R05.9", "executor:execute_exec:array-reply#%d%s" % (k, _tag(cfg)),
                 "execute_exec can answer with an array (a result array or nil) on a path that never compared the watched keys with their "
                 "snapshots: a transaction whose watched key changed is reported as executed (e.g. a fast exit for an empty queue "
                 "answers [] where Redis answers nil)", f.where(st["ln"]), detail="dominated by the watch comparison")
    ck.floor("R05.9:executor" + _tag(cfg), len(arrs), 1)
    # UNWATCH clears, MULTI opens with an empty queue
    f = prog.one(EX + "transaction_ops::<impl redis::executor::CommandExecutor>::execute_unwatch")
    ck.check(bool(_xresets(f)["watched_keys"]), "R05.2", "executor:execute_unwatch:watched_keys" + _tag(cfg), "UNWATCH does not clear the snapshots", f.where())
    f = prog.one(EX + "transaction_ops::<impl redis::executor::CommandExecutor>::execute_multi")
    sets = [b for b, i, st in f.stmts() if "p" in st["lhs"] and _xfield(f, st["lhs"], True) == "in_transaction" and
            st["rv"]["k"] == "use" and st["rv"]["a"].get("c", "").strip() in ("const true", "true")]
    ck.check(bool(sets) and bool(_xresets(f)["queued_commands"]), "R05.5", "executor:execute_multi:opens" + _tag(cfg),
             "MULTI does not set in_transaction and start from an empty queue", f.where(), detail="in_transaction = true; queue cleared")


# ------------------------------------------------------------------------------------------------
WHOLE_CONTENT = (r"redis::data::sds::SDS::as_bytes$",)      # accessors that expose the whole content of the value


def _r0510(ck, prog, cfg):
    n = 0
    for f in prog.lib_fns():
        if not f.file.startswith("src/redis/data/") or f.d.get("implements") not in ("std::cmp::PartialEq::eq", "std::cmp::PartialEq::ne"):
            continue
        n += 1
        ty = (f.impl_self or "").rsplit("::", 1)[-1]
        terms = [f.term(b) for b in f.reachable_blocks()]
        derived = all("m:PartialEq" in str(t.get("x", "")) for t in terms if t["k"] in ("call", "switch"))
        if derived:
            ck.ok("R05.10", "eq:%s%s" % (ty, _tag(cfg)), detail="derived")
            continue
        why = None
        for b, t in f.calls():
            if is_callee(t, *WHOLE_CONTENT):
                continue
            if not is_callee(t, r"as std::cmp::PartialEq(<.*>)?>::(eq|ne)$"):
                why = "calls %s" % (callee(t) or "?").rsplit("::", 2)[-2:]
                break
            def res(op_, depth=0):
                s_ = src_of_operand(f, op_, through_calls=TRANSPARENT)
                # `let (lhs, rhs) = (self.x(), other.x());` - a component of a tuple built in this function
                if s_.kind == "agg" and s_.rv.get("ak") == "tuple" and len(s_.fields) == 1 and s_.fields[0].isdigit() and depth < 4 \
                        and int(s_.fields[0]) < len(s_.rv.get("ops") or []):
                    return res(s_.rv["ops"][int(s_.fields[0])], depth + 1)
                return s_
            a = res(t["args"][0])
            o = res(t["args"][1])
            field_pair = a.kind == "path" and o.kind == "path" and {a.root, o.root} == {"self", "other"} and a.fields == o.fields and a.fields
            # the whole content through the same accessor on both sides: self.as_bytes() == other.as_bytes()
            whole_pair = False
            if a.kind == "call" and o.kind == "call" and callee(a.term) == callee(o.term) and is_callee(a.term, *WHOLE_CONTENT) and not a.fields and not o.fields:
                ra = src_of_operand(f, a.term["args"][0], through_calls=TRANSPARENT)
                ro = src_of_operand(f, o.term["args"][0], through_calls=TRANSPARENT)
                whole_pair = ra.kind == "path" and ro.kind == "path" and {ra.root, ro.root} == {"self", "other"} and not ra.fields and not ro.fields
            if not whole_pair and a.kind == "path" and o.kind == "path" and {a.root, o.root} == {"self", "other"} and not a.fields and not o.fields:
                # provenance looked through the accessor: require that accessor to be a whole-content one, applied once to each side
                whole_pair = sum(1 for _, t2 in f.calls() if is_callee(t2, *WHOLE_CONTENT)) == 2
            if not (field_pair or whole_pair):
                why = "compares %s with %s" % (a.path(), o.path())
                break
        for b, i, st in f.stmts():
            if st["rv"]["k"] == "bin" and st["rv"]["op"] not in ("BitAnd", "BitOr", "Eq", "Ne"):
                why = why or "computes %s at line %s" % (st["rv"]["op"], st["ln"])
        ck.check(why is None, "R05.10", "eq:%s%s" % (ty, _tag(cfg)),
                 "equality of %s is not structural (%s): WATCH's `did the key change` test (Option<Value> == snapshot) and every other value "
                 "comparison would treat two different stored values as equal" % (ty, why), f.where(), detail="field-by-field ==")
    ck.floor("R05.10" + _tag(cfg), n, 5)


# ------------------------------------------------------------------------------------------------
TX_OWNERS = {"watched_keys": {"execute_watch", "execute_unwatch", "execute_exec", "execute_discard"},
             "queued_commands": {"execute", "execute_multi", "execute_exec", "execute_discard"},
             "in_transaction": {"execute", "execute_multi", "execute_exec", "execute_discard", "execute_watch"}}


def _r0512(ck, prog, cfg):
    EXQ = "redis::executor::CommandExecutor"

    def places(node, out):
        if isinstance(node, dict):
            if "l" in node and "p" in node:
                out.append(node)
            for v in node.values():
                places(v, out)
        elif isinstance(node, list):
            for v in node:
                places(v, out)
    n = 0
    for f in prog.fns.values():
        if "::tests::" in f.id or f.crate != "lib":
            continue
        out = []
        places(f.d.get("blocks"), out)
        seen = set()
        for pl in out:
            for e in pl["p"]:
                if isinstance(e, dict) and e.get("o") == EXQ and e.get("f") in TX_OWNERS:
                    seen.add(e["f"])
        if not seen:
            continue
        owner = f.id.rsplit("::", 1)[-1] if "{closure" not in f.id else re.sub(r"::\{closure#\d+\}", "", f.id).rsplit("::", 1)[-1]
        if re.search(r"CommandExecutor::(new|with_shared_script_cache|default|verify_invariants)$", re.sub(r"::\{closure#\d+\}", "", f.id)):
            continue
        for fld in sorted(seen):
            n += 1
            ck.check(owner in TX_OWNERS[fld], "R05.12", "%s:touches(%s)%s" % (owner, fld, _tag(cfg)),
                     "%s reads or writes the executor's `%s`: the transaction state belongs to MULTI/EXEC/DISCARD/WATCH/UNWATCH; anything else that "
                     "edits it changes what EXEC will compare or replay" % (owner, fld), f.where(), detail="owner set %s" % sorted(TX_OWNERS[fld]))
    ck.floor("R05.12" + _tag(cfg), n, 10)
