"""C01 — commands behave as Redis: expiry-visibility, map-consistency and empty-collection clauses."""
import re
from .facts import callee, op_place, op_local
from .lib import src_of_operand, src_of_place, is_callee, TRANSPARENT, switch_info, all_paths_hit
from . import effects, lib2

EXEC = "redis::executor::CommandExecutor"
THROUGH = effects.THROUGH
INTERNAL = ("get_value", "get_value_mut", "is_expired", "evict_expired_keys", "evict_expired_direct", "verify_invariants",
            "get_data", "new", "with_shared_script_cache", "key_count", "get_data_mut")
MAP = r"(AHashMap|HashMap)::<std::string::String, redis::data::value::Value.*>::"
EXP = r"(AHashMap|HashMap)::<std::string::String, simulator::time::VirtualTime.*>::"


def _tag(cfg):
    return "" if cfg == "default" else "@" + cfg


def run(ck, ctx):
    ck.rule("R01.1", "comparator agreement: every ordering comparison between an expiry deadline (VirtualTime taken from "
                     "`expirations`) and `current_time` has the form deadline <= now (expired) / deadline > now (live)")
    ck.rule("R01.2", "expiry-aware access: every keyed read of `data` in a command handler is dominated by is_expired(k)/get_value*(k) "
                     "on the same key (or happens inside a closure that tests is_expired); whole-map reads filter by is_expired")
    ck.rule("R01.3", "map consistency: every data.remove(k) is paired with expirations.remove(k) on the same key on all paths "
                     "(expirations is a subset of data); data.clear pairs with expirations.clear")
    ck.rule("R01.4", "whole-value overwrite: every data.insert(k, v) is paired with expirations.{insert,remove}(k), or belongs to a "
                     "command that keeps the TTL by Redis semantics (frozen table) and is dominated by a purge of an expired k")
    ck.rule("R01.5", "empty collections stop existing: after a shrinking call on a stored collection every path to return passes an "
                     "emptiness test on that collection from whose true edge data.remove(k) is reachable")
    ck.rule("R01.6", "create-if-absent never leaves an empty collection: after data.entry(k).or_insert_with(|| <empty collection>) every "
                     "path to return adds an element (each iteration of the element loop, which runs at least once), or removes k again, "
                     "or leaves through the wrong-type arm (no creation happened)")
    ck.rule("R01.7", "unit siblings agree: EXPIRE/PEXPIRE, EXPIREAT/PEXPIREAT, TTL/PTTL, EXPIRETIME/PEXPIRETIME have the same decision "
                     "skeleton (flag tests, Option/ordering tests, map updates, returned integers) once unit-conversion arithmetic "
                     "is ignored")
    ck.rule("R01.8", "a conditional command refuses before it writes: no `0`/nil reply that is decided directly by a keyspace existence "
                     "test (contains_key / get_value / is_expired) is reachable from a visible write site of the same handler, loop back "
                     "edges included (MSETNX is all-or-nothing; SETNX/RENAMENX/EXPIRE-family refuse with the keyspace untouched)")
    ck.rule("R01.9", "index windows are resolved alike: RedisList::range (LRANGE) and RedisList::trim (LTRIM) clamp start/stop with the same "
                     "max/min operations on the same quantities (negative indices count from the tail, out-of-range indices are clamped, "
                     "not rejected)")
    ck.rule("R01.10", "integer commands reject what they cannot represent: a client-supplied integer is negated with checked_neg (error on "
                      "i64::MIN), never with a saturating/wrapping negation or a bare `-x` (DECRBY n = INCRBY -n only when -n exists)")
    ck.rule("R01.11", "a per-element decision reads the live collection: inside a loop that adds to / removes from a stored collection, no "
                      "branch is taken on an emptiness/size/membership answer obtained from that collection before the loop (the loop "
                      "itself invalidates it: `ZADD k NX 1 a 2 a` must see the `a` its first pair inserted)")
    ck.nd("equality of every reply and of the keyspace with Redis for all argument values (needs a reference model + execution)")
    ck.nd("option-combination semantics, numeric results")
    ck.rule("R01.12", "`*` backtracks: in the glob matcher behind KEYS / SCAN MATCH / HSCAN / ZSCAN the star arm tries the rest of the pattern at "
                      "every remaining offset of the key (a loop from the current offset to key.len() inclusive) and answers true as soon as "
                      "one offset matches; the result of a recursive call under the star arm is only ever tested, never returned as the "
                      "answer (committing to one alignment - e.g. the first occurrence of the next literal - rejects `*ab` against `aab`)")
    ck.rule("R01.13", "type discipline: where a handler looks a key up and branches on the stored value's type, every path from the "
                      "`some other type` edge to the return answers the WRONGTYPE error and nothing else (Redis answers WRONGTYPE for every "
                      "typed command against a key of another type; an empty/zero/nil answer there hides the key). Re-lookups behind a "
                      "deciding type test of the same key, TYPE-style total matches and MGET (nil by Redis semantics) are the only exceptions")
    ck.rule("R01.19", "an absent key answers with the empty value of the command's own reply kind: where a handler distinguishes `key absent` from "
                      "`key holds the right type`, every reply constructor reachable on the absent edge (Integer / BulkString / Array / simple "
                      "status) is also one the present edge can produce - LLEN of nothing is :0, LRANGE of nothing is the empty array, GET of "
                      "nothing is the nil bulk - never a reply of another kind (errors aside)")
    ck.rule("R01.17", "a stored counter changes by checked addition only: where a handler combines an integer parsed from a stored value with a "
                      "client-supplied integer (INCR/DECR/INCRBY/DECRBY, HINCRBY) the sum is i64::checked_add / checked_sub and its None edge "
                      "answers an error - never a wrapping/saturating/plain `+` (Redis refuses an overflowing increment and leaves the value)")
    ck.rule("R01.18", "the two indexes of a sorted set change together: in RedisSortedSet every path that stores a score into `members` also inserts "
                      "(member, score) into the skiplist, and every path that removes a member from `members` removes it from the skiplist - a "
                      "member present in one index only is returned by ZSCORE but not by ZRANGE/ZRANK (or the reverse)")
    ck.rule("R01.16", "LMOVE's two ends: in the LMOVE handler every call that takes an element out of a stored list is decided by (control- or "
                      "data-dependent on) `wherefrom`, every call that puts one in by `whereto`, and a list mutator that does both by both - also on "
                      "a same-key shortcut (LMOVE k k LEFT LEFT must leave the list as it is, LEFT RIGHT rotates it)")
    ck.rule("R01.14", "a score is replaced unless it is exactly the stored one: in the sorted set's add path the only branch that leaves an "
                      "existing member's stored score in place is decided by exact equality of the stored and the incoming f64 (Redis compares "
                      "scores exactly; a tolerance such as |a-b| < EPSILON keeps 1e-20 when ZADD asks for 2e-20)")
    ck.rule("R01.15", "sorted-set order is (score numerically, then member bytes): the skiplist comparator orders the two scores with the IEEE "
                      "partial order (partial_cmp / < / >: -0.0 and 0.0 tie) taken in argument order and breaks ties with the byte order of the "
                      "members in argument order; no total_cmp / to_bits / integer-cast ordering of scores anywhere in the sorted-set modules")
    for cfg in ctx.configs:
        prog = ctx.prog(cfg)
        ck.configs.append(cfg)
        ck.fn_count += len(prog.fns)
        _r0112(ck, prog, cfg)
        _r0113(ck, prog, cfg, effects.executor_methods(prog))
        _r0114(ck, prog, cfg)
        _r0115(ck, prog, cfg)
        _r0116(ck, prog, cfg)
        _r0117(ck, prog, cfg, effects.executor_methods(prog))
        _r0119(ck, prog, cfg, effects.executor_methods(prog))
        _r0118(ck, prog, cfg)
        meths = effects.executor_methods(prog)
        _r011(ck, prog, cfg, meths)
        _r012(ck, prog, cfg, meths)
        _r013(ck, prog, cfg, meths)
        _r014(ck, prog, cfg, meths)
        _r015(ck, prog, cfg, meths)
        _r016(ck, prog, cfg, meths)
        _r018(ck, prog, cfg, meths)
        _r019(ck, prog, cfg)
        _r0110(ck, prog, cfg, meths)
        _r0111(ck, prog, cfg, meths)
        _r017(ck, prog, cfg)


def _bodies(prog, meths):
    for m in meths:
        for f in prog.with_children(m):
            yield m, f


def _state(fn, operand):
    """'data'/'expirations' if operand is (a reference to) that field of the executor (through closures' captured self)."""
    s = src_of_operand(fn, operand, through_calls=THROUGH)
    if s.kind == "path" and (s.root or "").startswith("self__"):
        # edition-2021 precise closure capture: `self.data` is captured as `self__data`
        parts = s.root.split("__")
        s = type(s)("path", root="self", fields=tuple(parts[1:]) + tuple(s.fields), local=s.local)
    if s.kind == "path" and s.root in ("self",) and len([x for x in s.fields if not x.startswith("<")]) >= 1:
        f0 = [x for x in s.fields if not x.startswith("<")][0]
        if f0 in ("data", "expirations", "current_time"):
            return f0, s
    return None, s


def _key_id(fn, operand):
    s = src_of_operand(fn, operand, through_calls=THROUGH + (r"ToString>::to_string$", r"ToOwned>::to_owned$", r"String::as_str$",
                                                              r"From<.*>>::from$", r"Into<.*>>::into$", r"Borrow<.*>>::borrow$",
                                                              r"AsRef<.*>>::as_ref$"))
    return s.path() + ("#%s" % s.local if s.kind != "path" else "")


# ------------------------------------------------------------------------------------------------
def _r011(ck, prog, cfg, meths):
    n = 0
    for m, f in _bodies(prog, meths):
        for b, t in f.calls():
            if not is_callee(t, r"<simulator::time::VirtualTime as std::cmp::PartialOrd>::(le|lt|ge|gt)$"):
                continue
            op = callee(t).rsplit("::", 1)[-1]
            sa = src_of_operand(f, t["args"][0], through_calls=THROUGH)
            sb = src_of_operand(f, t["args"][1], through_calls=THROUGH)

            def is_now(s):
                return s.kind == "path" and ("current_time" in s.fields or (s.root or "").endswith("__current_time"))

            def is_deadline(s):
                if s.kind == "call" and is_callee(s.term, EXP + r"(get|get_mut|remove)\b"):
                    return True
                if s.kind == "path" and s.root in ("exp_time", "expiration", "exp", "deadline"):
                    return True
                # closure parameter of a retain over expirations
                if f.kind == "closure" and s.kind == "path" and s.local is not None and 1 < s.local <= f.d["argc"]:
                    return True
                return False
            if not (is_now(sa) or is_now(sb)):
                continue
            other = sb if is_now(sa) else sa
            if not is_deadline(other):
                continue
            n += 1
            good = (op == "le" and is_now(sb)) or (op == "ge" and is_now(sa)) or (op == "gt" and is_now(sb)) or (op == "lt" and is_now(sa))
            ck.check(good, "R01.1", "%s:cmp#%d%s" % (f.id.replace("redis::executor::", ""), _nth(f, b), _tag(cfg)),
                     "expiry comparison is `%s %s %s`: a key would be visible at its deadline instant or hidden before it"
                     % (sa.path(), op, sb.path()), f.where(t["ln"]), detail="deadline <= now")
    ck.floor("R01.1" + _tag(cfg), n, 3)


def _nth(f, b):
    sites = sorted(bb for bb, t in f.calls() if is_callee(t, r"VirtualTime as std::cmp::PartialOrd>::"))
    return sites.index(b) if b in sites else -1


# ------------------------------------------------------------------------------------------------
KEYED_READS = MAP + r"(get|get_mut|contains_key|get_key_value|entry)\b"
WHOLE_READS = MAP + r"(keys|iter|values|len|is_empty|iter_mut|values_mut)\b"


def _param_index(f, operand):
    """index (1-based local number) of the parameter the operand is a plain view of, else None"""
    s = src_of_operand(f, operand, through_calls=THROUGH + (r"String::as_str$", r"Deref>::deref$", r"AsRef<.*>>::as_ref$", r"Borrow<.*>>::borrow$"))
    if s.kind == "path" and s.local is not None and 1 < s.local <= f.d["argc"] and not [x for x in s.fields if x != "*"]:
        return s.local
    return None


def _callers(prog, f):
    """[(caller fn, block, terminator)] of direct calls to f from executor code (handlers and their closures)"""
    out = []
    for g in prog.lib_fns():
        if not g.file.startswith("src/redis/executor/"):
            continue
        for b, t in g.calls():
            if prog.local_callee(g, t) is f:
                out.append((g, b, t))
    return out


def _aware(prog, f, b, key_operand, depth=0):
    """a dominating is_expired/get_value*(same key) call, or the enclosing closure tests is_expired; for a private helper that
    receives the key as a parameter: every call site of the helper is expiry-aware for the key it passes (the obligation moves to
    the callers - a helper extracted from a handler is judged like the code it was extracted from)"""
    kid = _key_id(f, key_operand) if key_operand is not None else None
    if key_operand is not None and depth < 2 and f.kind in ("fn", "method") and f.short not in INTERNAL and not f.short.startswith("execute"):
        pi = _param_index(f, key_operand)
        if pi is not None:
            cs = _callers(prog, f)
            if cs and all(len(ct["args"]) >= pi and _aware(prog, g, cb, ct["args"][pi - 1], depth + 1) for g, cb, ct in cs):
                return True
    for cb, ct in f.calls():
        if is_callee(ct, r"CommandExecutor::(is_expired|get_value|get_value_mut)$") and len(ct["args"]) > 1:
            if kid is None or _key_id(f, ct["args"][1]) == kid:
                if f.site_dominates((cb, len(f.blocks[cb]["st"])), (b, len(f.blocks[b]["st"]))) and cb != b:
                    return True
    if f.kind == "closure":
        if any(is_callee(ct, r"CommandExecutor::is_expired$") for _, ct in f.calls()):
            return True
    return False


_r12_ord = {}


def _r012(ck, prog, cfg, meths):
    n = 0
    for m, f in _bodies(prog, meths):
        if m.short in INTERNAL:
            continue
        for b, t in f.calls():
            if "debug_assert" in t.get("x", "") or "m:assert" in t.get("x", ""):
                continue
            is_counted_remove = is_callee(t, MAP + r"remove\b") and lib2.dest_used(f, b) and f.short != "execute" \
                and not _purge_or_move(f, b, t)
            if is_callee(t, KEYED_READS) or is_counted_remove:
                st, s = _state(f, t["args"][0])
                if st != "data":
                    continue
                n += 1
                # keyed by the handler (closures folded into it) and the read method, so that moving the read between the handler and a
                # closure/loop of it, or renaming the key expression, keeps the key
                meth = callee(t).rsplit("::", 1)[-1].split("<")[0]
                r12 = _r12_ord.setdefault((id(prog), m.short, meth), [])
                site = (f.id, b)
                if site not in r12:
                    r12.append(site)
                key = "%s:%s#%d%s" % (m.short, meth, r12.index(site), _tag(cfg))
                ck.check(_aware(prog, f, b, t["args"][1]), "R01.2", key,
                         "`data` is read for a key without first consulting its deadline (no dominating is_expired/get_value* on the "
                         "same key): an expired-but-not-yet-evicted key is treated as present", f.where(t["ln"]),
                         detail="read guarded by is_expired/get_value")
            elif is_callee(t, WHOLE_READS):
                st, s = _state(f, t["args"][0])
                if st != "data":
                    continue
                n += 1
                what = callee(t).rsplit("::", 1)[-1].split("<")[0]
                key = "%s:%s()%s" % (f.id.replace("redis::executor::", ""), what, _tag(cfg))
                # accepted: the iterator chain is filtered by a closure that calls is_expired
                good = False
                if what in ("keys", "iter", "values"):
                    for c in prog.children(f):
                        if any(is_callee(ct, r"CommandExecutor::is_expired$") for _, ct in c.calls()):
                            good = True
                ck.check(good, "R01.2", key,
                         "a whole-keyspace read (`data.%s()`) does not filter out expired-but-unevicted keys" % what, f.where(t["ln"]),
                         detail="iteration filtered by is_expired")
    ck.floor("R01.2" + _tag(cfg), n, 20)


# ------------------------------------------------------------------------------------------------
def _r013(ck, prog, cfg, meths):
    n = 0
    for m, f in _bodies(prog, meths):
        if m.short in ("evict_expired_keys", "evict_expired_direct", "verify_invariants"):
            continue
        drs = []
        ers = []
        for b, t in f.calls():
            if is_callee(t, MAP + r"(remove|remove_entry)\b") and _state(f, t["args"][0])[0] == "data":
                drs.append((b, t))
            if is_callee(t, EXP + r"(remove|remove_entry)\b") and _state(f, t["args"][0])[0] == "expirations":
                ers.append((b, t))
        for b, t in drs:
            n += 1
            kid = _key_id(f, t["args"][1])
            key = "%s:data.remove(%s)#%d%s" % (f.id.replace("redis::executor::", ""), kid.split("#")[0], _ordn(f, b, drs), _tag(cfg))
            same = {eb for eb, et in ers if _key_id(f, et["args"][1]) == kid}
            good = any(f.dominates(eb, b) and eb != b for eb in same)
            if not good and same:
                good = all_paths_hit(f, (b, len(f.blocks[b]["st"])), lambda bb, i0: bb in same)[0]
            ck.check(good, "R01.3", key,
                     "data.remove(k) is not paired with expirations.remove(k) on every path: a stale deadline survives and a key "
                     "later re-created under the same name inherits it (and vanishes at the old deadline)", f.where(t["ln"]),
                     detail="paired with expirations.remove")
        # clear pairing
        dc = [(b, t) for b, t in f.calls() if is_callee(t, MAP + r"clear\b") and _state(f, t["args"][0])[0] == "data"]
        ec = [(b, t) for b, t in f.calls() if is_callee(t, EXP + r"clear\b") and _state(f, t["args"][0])[0] == "expirations"]
        for b, t in dc:
            n += 1
            good = any(f.dominates(eb, b) or all_paths_hit(f, (b, len(f.blocks[b]["st"])), lambda bb, i0, eb=eb: bb == eb)[0] for eb, _ in ec)
            ck.check(good, "R01.3", "%s:data.clear%s" % (f.id.replace("redis::executor::", ""), _tag(cfg)),
                     "data.clear() without expirations.clear()", f.where(t["ln"]), detail="paired with expirations.clear")
    ck.floor("R01.3" + _tag(cfg), n, 30)


def _ordn(f, b, sites):
    ss = sorted((t["ln"], bb) for bb, t in sites)
    for i, (ln, bb) in enumerate(ss):
        if bb == b:
            return i
    return -1


# ------------------------------------------------------------------------------------------------
# commands whose write keeps the key's TTL by Redis semantics (reason per line)
KEEP_TTL = {
    "incr_by_impl": "INCR/DECR/INCRBY/DECRBY modify the value in place, TTL untouched",
    "execute_incrbyfloat": "INCRBYFLOAT keeps the TTL",
    "execute_append": "APPEND keeps the TTL",
    "execute_setrange": "SETRANGE keeps the TTL",
    "execute_setbit": "SETBIT keeps the TTL",
    "execute_set": "only the KEEPTTL branch keeps it (the other branches pair explicitly; checked per site)",
}


def _r014(ck, prog, cfg, meths):
    n = 0
    for m, f in _bodies(prog, meths):
        if m.short in INTERNAL:
            continue
        ins = [(b, t) for b, t in f.calls() if is_callee(t, MAP + r"insert\b") and _state(f, t["args"][0])[0] == "data"]
        if not ins:
            continue
        exps = [(b, t) for b, t in f.calls() if is_callee(t, EXP + r"(insert|remove)\b") and _state(f, t["args"][0])[0] == "expirations"]
        for b, t in ins:
            n += 1
            kid = _key_id(f, t["args"][1])
            key = "%s:data.insert(%s)#%d%s" % (f.id.replace("redis::executor::", ""), kid.split("#")[0], _ordn(f, b, ins), _tag(cfg))
            same = {eb for eb, et in exps if _key_id(f, et["args"][1]) == kid}
            paired = any(f.dominates(eb, b) and eb != b for eb in same)
            if not paired and same:
                paired = all_paths_hit(f, (b, len(f.blocks[b]["st"])), lambda bb, i0: bb in same)[0]
            if paired:
                ck.ok("R01.4", key, "paired with an expirations update for the same key")
                continue
            if m.short in KEEP_TTL:
                # the stale-deadline hazard: must be dominated by a purge/lookup of the same key
                good = _aware(prog, f, b, t["args"][1])
                ck.check(good, "R01.4", key, "TTL-keeping overwrite is not preceded by an expiry check of the key: with a stale expired "
                         "deadline the fresh value is invisible immediately", f.where(t["ln"]), detail="TTL kept (%s), purge dominates" % KEEP_TTL[m.short])
                continue
            ck.bad("R01.4", key,
                   "data.insert(k, v) replaces the whole value but leaves k's deadline as it was: Redis clears the TTL here, and with an "
                   "expired-but-unevicted deadline the new value is invisible immediately", f.where(t["ln"]))
    ck.floor("R01.4" + _tag(cfg), n, 12)


# ------------------------------------------------------------------------------------------------
SHRINK = (r"RedisList::(lpop|rpop|trim|remove|lrem|pop_front|pop_back)$", r"RedisSet::(remove|pop|pop_count|srem)$",
          r"RedisHash::(delete|remove|hdel)$", r"RedisSortedSet::(remove|zrem|pop_min|pop_max|remove_range\w*)$")
EMPTY = (r"Redis(List|Set|Hash|SortedSet)::(is_empty|len)$",)


_er_cache = {}


def _is_empty_remover(prog, h):
    """helper summary: h contains an emptiness test on a stored collection from which data.remove(<its key parameter>) is reachable"""
    if h.id in _er_cache:
        return _er_cache[h.id]
    res = False
    if h.kind in ("fn", "method") and not h.short.startswith("execute"):
        empties = [eb for eb, et in h.calls() if is_callee(et, *EMPTY)]
        removes = [rb for rb, rt in h.calls() if is_callee(rt, MAP + r"remove\b") and _state(h, rt["args"][0])[0] == "data" and
                   _param_index(h, rt["args"][1]) is not None]
        res = any(rb in h.reach([eb]) for eb in empties for rb in removes)
    _er_cache[h.id] = res
    return res


def _r015(ck, prog, cfg, meths):
    n = 0
    for m, f in _bodies(prog, meths):
        if f.kind != "method":
            continue
        ws = [w for w in effects.write_sites(prog, f, None) if w["kind"] == "value" and w["t"] is not None and is_callee(w["t"], *SHRINK)]
        for w in ws:
            n += 1
            b = w["b"]
            empties = [eb for eb, et in f.calls() if is_callee(et, *EMPTY)]
            removes = [rb for rb, rt in f.calls() if is_callee(rt, MAP + r"remove\b") and _state(f, rt["args"][0])[0] == "data"]
            good_tests = []
            for eb in empties:
                reach = f.reach([eb])
                if any(rb in reach for rb in removes):
                    good_tests.append(eb)
            # the repo's idiom re-looks the key up first: `matches!(self.data.get(k), Some(X(c)) if c.is_empty())`
            for lb, lt in f.calls():
                if is_callee(lt, MAP + r"(get|get_mut)\b", r"CommandExecutor::(get_value|get_value_mut)$") and lb != b:
                    if any(eb in f.reach([lb]) for eb in list(good_tests)):
                        good_tests.append(lb)
            # a call to a private helper that itself tests a stored collection of the key it is given for emptiness and removes the key
            for hb, ht in f.calls():
                h = prog.local_callee(f, ht)
                if h is not None and h is not f and h.file.startswith("src/redis/executor/") and _is_empty_remover(prog, h):
                    good_tests.append(hb)
            # nothing was removed when the shrinking call returned None: that edge carries no obligation
            exempt = set()
            if "p" not in w["t"]["dest"] and f.locals[w["t"]["dest"]["l"]].startswith("std::option::Option<"):
                vals, refs = lib2.value_aliases(f, w["t"]["dest"]["l"])
                for sb in f.reachable_blocks():
                    si = switch_info(f, sb)
                    if si and si["kind"] == "discr" and "p" not in si["place"] and si["place"]["l"] in vals:
                        from .lib import edge_targets
                        exempt.add((sb, edge_targets(f, sb, 0)))
            path = lib2.path_avoiding(f, b, lambda x: f.term(x)["k"] == "return", lambda x: x in good_tests, exempt)
            okp = path is None
            ck.check(okp, "R01.5", "%s:%s%s" % (f.id.replace("redis::executor::", ""), callee(w["t"]).rsplit("::", 1)[-1], _tag(cfg)),
                     "a stored collection is shrunk and some path returns without testing it for emptiness and removing the key: an "
                     "empty collection keeps existing (EXISTS/TYPE/DBSIZE differ from Redis)", f.where(w["ln"]),
                     detail="emptiness test + data.remove on every path")
    ck.floor("R01.5" + _tag(cfg), n, 7)


ADDERS = (r"RedisList::(lpush|rpush)$", r"RedisSet::add$", r"RedisHash::set$", r"RedisSortedSet::add$")
CREATE = (r"hash_map::Entry::<.*redis::data::value::Value>::(or_insert_with|or_insert|or_default)\b",)


LOOKUPS = (r"Redis(List|Set|Hash|SortedSet)::(get|score|contains|rank|index|get_mut)$",)
# error exits after a create-if-absent that cannot be taken when the key was absent (value reasoning, confirmed by reading)
R016_INFEASIBLE = {
    ("execute_hincrby", "ERR increment or decrement would overflow"):
        "on a freshly created hash the field is absent, current = 0, and 0 + increment cannot overflow i64",
}


def _loop_heads(f):
    """{switch block: (none_target, some_target)} for `match iter.next()` loop heads"""
    out = {}
    for b, t in f.calls():
        if not is_callee(t, r"Iterator>::next$") or "p" in t["dest"]:
            continue
        sb = t.get("target")
        sb = sb if sb is not None else (f.succ(b)[0] if f.succ(b) else None)
        hops = 0
        while sb is not None and f.term(sb)["k"] != "switch" and len(f.succ(sb)) == 1 and hops < 4:
            sb = f.succ(sb)[0]
            hops += 1
        if sb is None or f.term(sb)["k"] != "switch":
            continue
        si = switch_info(f, sb)
        if si and si["kind"] == "discr" and si["ty"].startswith("std::option::Option<") and si["place"]["l"] == t["dest"]["l"]:
            tt = f.term(sb)
            cases = dict((v, tg) for v, tg in tt["cases"])
            if "0" in cases and "1" in cases:
                out[sb] = (cases["0"], cases["1"])
    return out


def _r016(ck, prog, cfg, meths):
    n = 0
    for m, f in _bodies(prog, meths):
        creates = [(b, t) for b, t in f.calls() if is_callee(t, *CREATE)]
        if not creates:
            continue
        heads = _loop_heads(f)
        adders = {b for b, t in f.calls() if is_callee(t, *ADDERS)}
        removers = {b for b, t in f.calls() if is_callee(t, MAP + r"remove\b")}
        for cb, ct in creates:
            n += 1
            created = set()
            for ch in prog.children(f):
                for b, i, st in ch.stmts():
                    if st["lhs"] == {"l": 0} and st["rv"]["k"] == "agg" and st["rv"]["n"].startswith("redis::data::value::Value::"):
                        created.add(st["rv"]["n"].rsplit("::", 1)[-1])
            names = [v["n"] for v in prog.adts["redis::data::value::Value"]["variants"]]
            # edges of the switch on the created value's discriminant that belong to another variant: the key already existed
            exempt = set()
            dl = ct["dest"]["l"] if "p" not in ct["dest"] else None
            for sb in f.reachable_blocks():
                si = switch_info(f, sb)
                if si and si["kind"] == "discr" and si["ty"] == "redis::data::value::Value" and dl is not None and \
                        (si["src"].kind == "call" and si["src"].term is ct or si["place"]["l"] == dl):
                    tt = f.term(sb)
                    listed = {names[int(v)]: tg for v, tg in tt["cases"]}
                    for vn, tg in listed.items():
                        if vn not in created:
                            exempt.add((sb, tg))
                    if not all(vn in listed for vn in created):
                        pass
                    else:
                        exempt.add((sb, tt["else"]))
            # a successful lookup in the collection proves it was not empty, i.e. not freshly created
            for sb in f.reachable_blocks():
                si = switch_info(f, sb)
                if si and si["kind"] == "discr" and si["ty"].startswith("std::option::Option<") and si["src"].kind == "call" and \
                        is_callee(si["src"].term, *LOOKUPS):
                    tt = f.term(sb)
                    for v, tg in tt["cases"]:
                        if v == "1":
                            exempt.add((sb, tg))
            # the not-empty edge of an emptiness test on a stored collection: something is in it
            for sb in f.reachable_blocks():
                si = switch_info(f, sb)
                if si and si["kind"] == "val" and si["src"].kind == "call" and is_callee(si["src"].term, r"Redis(List|Set|Hash|SortedSet)::is_empty$"):
                    for v, tg in f.term(sb)["cases"]:
                        if v == "0":
                            exempt.add((sb, tg))
            infeasible = set()
            for b, ln, txt in effects.error_sites(f):
                for (fn_, text), why in R016_INFEASIBLE.items():
                    if fn_ == f.short and text in txt:
                        infeasible.add(b)
            # search: (block, frozenset of loop heads whose body was entered)
            start = (cb, frozenset())
            seen = {start}
            work = [(start, [cb])]
            bad_path = None
            while work and bad_path is None:
                (b, ent), path = work.pop()
                if b != cb and (b in adders or b in removers or b in infeasible):
                    continue
                t = f.term(b)
                if t["k"] == "return":
                    bad_path = path
                    break
                for sx in f.succ(b):
                    if (b, sx) in exempt:
                        continue
                    e2 = ent
                    if b in heads:
                        none_t, some_t = heads[b]
                        if sx == none_t and b not in ent:
                            continue            # the element loop runs at least once (the parsers reject empty element lists)
                        if sx == some_t:
                            e2 = ent | {b}
                    st = (sx, e2)
                    if st not in seen:
                        seen.add(st)
                        work.append((st, path + [sx]))
            key = "%s:create#%d%s" % (f.short if hasattr(f, "short") else f.id, _ordn(f, cb, creates), _tag(cfg))
            lines = []
            if bad_path:
                for x in bad_path:
                    ln = f.term(x).get("ln")
                    if ln and (not lines or lines[-1] != ln):
                        lines.append(ln)
            ck.check(bad_path is None, "R01.6", key,
                     "the key is created with an empty collection and a path to return adds nothing and does not remove it again "
                     "(an empty collection stays visible: EXISTS/TYPE/DBSIZE see it); path through lines %s" % lines[:14],
                     f.where(ct["ln"]), detail="every path adds an element or removes the key")
    ck.floor("R01.6" + _tag(cfg), n, 6)
    ck.assume("R01.6: loops over a command's element slice run at least once (the parsers reject empty element lists)")


KS_TESTS = (MAP + r"(contains_key|get|get_mut)\b", r"CommandExecutor::(get_value|get_value_mut|is_expired)$")


def _r018(ck, prog, cfg, meths):
    writers = effects.writer_set(prog)
    n = 0
    for m, f in _bodies(prog, meths):
        ws = None
        k = 0
        for b, i, st in f.stmts():
            rv = st["rv"]
            if st["lhs"] != {"l": 0} or rv["k"] != "agg" or not rv.get("ops"):
                continue
            if rv["n"] == "redis::resp::RespValue::Integer" and rv["ops"][0].get("c", "").strip() in ("const 0_i64", "0_i64"):
                kind = "0"
            elif rv["n"] == "redis::resp::RespValue::BulkString" and "None" in str(rv["ops"][0]):
                kind = "nil"
            else:
                continue
            ctl = None
            for sb, _ in lib2.controlling_switches(f, b):
                si = switch_info(f, sb)
                s_ = si["src"] if si else None
                if s_ is not None and s_.kind == "call" and is_callee(s_.term, *KS_TESTS):
                    ctl = callee(s_.term).rsplit("::", 1)[-1].split("<")[0]
            if ctl is None:
                continue
            n += 1
            if ws is None:
                ws = effects.write_sites(prog, f, writers)
            # evicting keys whose deadline has passed is the lazy-expiry purge (invisible by design, like get_value's purge)
            before = [w for w in ws if b in f.reach([w["b"]]) and not str(w["what"]).startswith("evict_expired")]
            key = "%s:refusal(%s)#%d%s" % (f.short, kind, k, _tag(cfg))
            k += 1
            ck.check(not before, "R01.8", key,
                     "the reply `%s` decided by %s can be reached after the command has already written (%s): the command refuses with "
                     "part of its effect applied (Redis applies a conditional multi-key command entirely or not at all)"
                     % (kind, ctl, ", ".join("%s @%s" % (w["what"], w["ln"]) for w in before[:3])), f.where(st["ln"]),
                     detail="refusal precedes every write")
    ck.floor("R01.8" + _tag(cfg), n, 10)


def _purge_or_move(f, b, t):
    """data.remove(k) whose result is only dropped/moved into another map slot (RENAME) or guarded by is_expired"""
    if effects._is_expired_guarded(f, b):
        return True
    # result used only through `expect`/`unwrap` right after an existence check -> handled as read elsewhere
    return False


SIBLINGS = (("execute_expire", "execute_pexpire"), ("execute_expireat", "execute_pexpireat"), ("execute_ttl", "execute_pttl"),
            ("execute_expiretime", "execute_pexpiretime"))
UNIT_ARITH = (r"saturating_", r"as_millis", r"from_millis", r"from_secs", r"Duration", r"checked_", r"wrapping_")


def _r017(ck, prog, cfg):
    n = 0
    for a, b in SIBLINGS:
        fa = [f for f in prog.lib_fns() if f.short == a and f.d.get("impl_self") == EXEC]
        fb = [f for f in prog.lib_fns() if f.short == b and f.d.get("impl_self") == EXEC]
        if len(fa) != 1 or len(fb) != 1:
            ck.anchor_lost("R01.7", "sibling pair %s/%s not found" % (a, b))
            continue
        fa, fb = fa[0], fb[0]

        def start(f):
            st = sorted(bb for bb, t in f.calls() if is_callee(t, EXP + r"get\b"))
            return st[0] if st else 0
        n += 1
        # first choice: decision tables (path condition -> effects, outcome), which survive restructuring of the control flow
        EFFECTS = (r"AHashMap::(insert|remove)$", r"HashMap::(insert|remove)$")
        ta, ca = lib2.decision_table(fa, UNIT_ARITH, EFFECTS, start_block=start(fa))
        tb, cb = lib2.decision_table(fb, UNIT_ARITH, EFFECTS, start_block=start(fb))
        if ca and cb:
            if ta == tb:
                ck.ok("R01.7", "%s~%s%s" % (a, b, _tag(cfg)), "equal decision tables (%d rows)" % len(ta))
            else:
                only_a = sorted(ta - tb, key=str)[:2]
                only_b = sorted(tb - ta, key=str)[:2]

                def show(r):
                    return "when {%s} -> %s %s" % (", ".join("%s=%s" % c for c in sorted(r[0])), list(r[1]) or "", r[2])
                ck.bad("R01.7", "%s~%s%s" % (a, b, _tag(cfg)),
                       "the seconds and milliseconds variants of the same command decide differently: only %s has %s; only %s has %s"
                       % (a, [show(r) for r in only_a], b, [show(r) for r in only_b]), fb.where())
            continue
        sa = lib2.skeleton(fa, start(fa), UNIT_ARITH)
        sb = lib2.skeleton(fb, start(fb), UNIT_ARITH)
        if sa == sb:
            ck.ok("R01.7", "%s~%s%s" % (a, b, _tag(cfg)), "equal decision skeletons (%d chars)" % len(sa))
        else:
            i = 0
            while i < min(len(sa), len(sb)) and sa[i] == sb[i]:
                i += 1
            ck.bad("R01.7", "%s~%s%s" % (a, b, _tag(cfg)),
                   "the seconds and milliseconds variants of the same command decide differently: skeletons diverge at offset %d: "
                   "`%s` vs `%s`" % (i, sa[max(0, i - 40):i + 60], sb[max(0, i - 40):i + 60]), fb.where())
    ck.floor("R01.7" + _tag(cfg), n, 4)


def _clamp_sig(f):
    """set of (min|max, operand descriptors) over the Ord::min/max calls of f, plus the comparisons of a parameter with a constant"""
    def d(o, depth=0):
        if "c" in o:
            return o["c"].replace("const ", "").split("_")[0]
        sx = src_of_operand(f, o, through_calls=TRANSPARENT)
        if sx.kind == "path" and sx.local is not None and 1 <= sx.local <= f.d["argc"]:
            return "self" + "".join("." + x for x in sx.fields) if sx.root == "self" else "p%d" % sx.local
        if sx.kind == "call":
            nm = callee(sx.term).rsplit("::", 1)[-1].split("<")[0]
            if nm in ("len",):
                return "len"
            if nm in ("max", "min") and depth < 3:
                return "%s(%s)" % (nm, ",".join(sorted(d(a, depth + 1) for a in sx.term["args"])))
            return "call(%s)" % nm
        if sx.kind == "rv" and depth < 4:
            rv = sx.rv
            if rv["k"] == "cast":
                return d(rv["a"], depth + 1)
            if rv["k"] == "bin":
                a, b = d(rv["a"], depth + 1), d(rv["b"], depth + 1)
                op = rv["op"].replace("WithOverflow", "")
                return "%s(%s)" % (op, ",".join(sorted([a, b])) if op in ("Add", "Mul") else "%s,%s" % (a, b))
            if rv["k"] == "use":
                return d(rv["a"], depth + 1)
        if sx.kind == "multi":
            return "var"
        return sx.kind
    sig = set()
    for b, t in f.calls():
        if is_callee(t, r"<isize as std::cmp::Ord>::(max|min)$", r"std::cmp::(max|min)::<isize>$"):
            nm = callee(t).rsplit("::", 1)[-1].split("<")[0]
            sig.add((nm,) + tuple(sorted(d(a) for a in t["args"])))
    for b, i, st in f.stmts():
        rv = st["rv"]
        if rv["k"] == "bin" and rv["op"] in ("Lt", "Le", "Gt", "Ge"):
            a, b_ = d(rv["a"]), d(rv["b"])
            if re.match(r"^p\d+$", a) and re.match(r"^-?\d+$", b_):
                sig.add((rv["op"], a, b_))
    return sig


def _r019(ck, prog, cfg):
    L = "redis::data::list::RedisList::"
    fa = [f for f in prog.lib_fns() if f.id == L + "range"]
    fb = [f for f in prog.lib_fns() if f.id == L + "trim"]
    if len(fa) != 1 or len(fb) != 1:
        ck.anchor_lost("R01.9", "RedisList::range / RedisList::trim not found")
        return
    sa, sb = _clamp_sig(fa[0]), _clamp_sig(fb[0])
    ck.floor("R01.9" + _tag(cfg), min(len(sa), len(sb)), 4)
    ck.check(sa == sb, "R01.9", "list:range~trim" + _tag(cfg),
             "LRANGE and LTRIM resolve their index window differently: only range has %s; only trim has %s (an index below -len or beyond the "
             "end is clamped by one command and rejected or mis-placed by the other)" % (sorted(sa - sb), sorted(sb - sa)), fb[0].where(),
             detail="same clamps: %s" % sorted(sa))
    # the rank windows of lists and sorted sets are one convention (start clamps to the head, a stop that resolves before the head
    # selects nothing): wherever two of the four resolvers clamp the same quantity with the same operation, the bound is the same
    Z = "redis::data::sorted_set::RedisSortedSet::"
    sibs = [("list:range", fa[0]), ("list:trim", fb[0])]
    for nm in ("range", "rev_range"):
        fz = [f for f in prog.lib_fns() if f.id == Z + nm]
        if len(fz) == 1:
            sibs.append(("zset:" + nm, fz[0]))
    ck.floor("R01.9:siblings" + _tag(cfg), len(sibs), 4)
    tabs = []
    for nm, f in sibs:
        m = {}
        for e in _clamp_sig(f):
            if e[0] in ("max", "min") and len(e) == 3:
                consts = [x for x in e[1:] if re.match(r"^-?\d+$", x)]
                others = [x for x in e[1:] if not re.match(r"^-?\d+$", x)]
                if len(consts) == 1 and len(others) == 1:
                    m[(e[0], others[0])] = consts[0]
        tabs.append((nm, f, m))
    for i in range(len(tabs)):
        for j in range(i + 1, len(tabs)):
            (na, fa_, ma), (nb, fb_, mb) = tabs[i], tabs[j]
            diff = sorted((k, ma[k], mb[k]) for k in ma if k in mb and ma[k] != mb[k])
            ck.check(not diff, "R01.9", "window-bounds:%s~%s%s" % (na, nb, _tag(cfg)),
                     "rank windows disagree on a clamp bound: %s (%s uses the first, %s the second): with the stop bound 0 instead of -1 a stop "
                     "that resolves before the head selects the first element instead of nothing (LRANGE l 0 -100 on a 3-element list)"
                     % (["%s(%s, %s|%s)" % (k[0], k[1], a, b) for k, a, b in diff], na, nb), fa_.where(),
                     detail="shared clamps agree: %s" % sorted(k for k in ma if k in mb))


def _r0110(ck, prog, cfg, meths):
    n = 0
    class _M:
        short = "execute"
    disp = [(_M, f) for f in prog.with_children(prog.one("redis::executor::CommandExecutor::execute"))]
    for m, f in disp + list(_bodies(prog, meths)):
        for b, t in f.calls():
            if is_callee(t, r"<impl i(64|size)>::(checked|saturating|wrapping|unchecked|overflowing|strict)_neg$"):
                a = src_of_operand(f, t["args"][0], through_calls=TRANSPARENT)
                from_cmd = (a.kind == "path" and (a.root == "cmd" or (a.local is not None and 1 < a.local <= f.d["argc"]))) or a.kind in ("path",)
                if not from_cmd:
                    continue
                n += 1
                meth = callee(t).rsplit("::", 1)[-1]
                ck.check(meth == "checked_neg", "R01.10", "%s:%s%s" % (m.short, meth, _tag(cfg)),
                         "a client-supplied integer is negated with %s: i64::MIN has no negation, so the command silently computes with a "
                         "different number instead of answering an out-of-range error" % meth, f.where(t["ln"]), detail="checked_neg")
            if is_callee(t, r"Option::<i(64|size)>::(unwrap_or|unwrap_or_default)$") and t["args"]:
                a = src_of_operand(f, t["args"][0], through_calls=TRANSPARENT)
                if a.kind == "call" and is_callee(a.term, r"::checked_neg$"):
                    ck.bad("R01.10", "%s:checked_neg-defaulted%s" % (m.short, _tag(cfg)),
                           "the failure of checked_neg is replaced by a default number instead of an out-of-range error", f.where(t["ln"]))
        for b, i, st in f.stmts():
            rv = st["rv"]
            if rv["k"] == "un" and rv["op"] == "Neg":
                a = src_of_operand(f, rv["a"], through_calls=TRANSPARENT)
                ty = f.locals[op_place(rv["a"])["l"]] if op_place(rv["a"]) is not None and "p" not in op_place(rv["a"]) else ""
                if ty in ("i64", "isize") and a.kind == "path" and (a.root == "cmd" or (a.local is not None and 1 < a.local <= f.d["argc"])):
                    n += 1
                    ck.bad("R01.10", "%s:neg%s" % (m.short, _tag(cfg)), "a client-supplied integer is negated with a bare `-x` (overflow on i64::MIN)", f.where(st["ln"]))
    ck.floor("R01.10" + _tag(cfg), n, 1)


QUERIES = (r"Redis(List|Set|Hash|SortedSet)::(is_empty|len|contains|score|get|rank|exists|card)$",)
MUTATORS = ADDERS + SHRINK + (r"RedisSortedSet::(add|incr_by|increment)$", r"RedisHash::(set|incr_by|set_nx)$", r"RedisSet::(add|insert)$",
                              r"RedisList::(insert|set|push_\w+)$")


def _r0111(ck, prog, cfg, meths):
    n = 0
    for m, f in _bodies(prog, meths):
        heads = _loop_heads(f)
        if not heads:
            continue
        for hb, (none_t, some_t) in sorted(heads.items()):
            body = {some_t} | f.reach([some_t], avoid=[hb])
            muts = [(b, t) for b, t in f.calls() if b in body and is_callee(t, *MUTATORS) and t["args"]]
            if not muts:
                continue
            n += 1
            mut_recv = set()
            for b, t in muts:
                r = src_of_operand(f, t["args"][0], through_calls=THROUGH)
                mut_recv.add((r.kind, r.root, r.fields, r.local if r.kind != "path" else None))
            # queries answered before the loop (their block is not in the body and dominates the head)
            stale = {}
            for b, t in f.calls():
                if b in body or not is_callee(t, *QUERIES) or not t["args"] or not f.dominates(b, hb) or "p" in t["dest"]:
                    continue
                r = src_of_operand(f, t["args"][0], through_calls=THROUGH)
                if (r.kind, r.root, r.fields, r.local if r.kind != "path" else None) in mut_recv:
                    stale[t["dest"]["l"]] = t
            if not stale:
                continue
            for sb in sorted(body):
                if f.term(sb)["k"] != "switch":
                    continue
                si = switch_info(f, sb)
                if si is None or si["src"] is None:
                    continue
                srcs = [si["src"]]
                if si["src"].kind == "rv" and si["src"].rv["k"] in ("bin", "un"):
                    srcs = [src_of_operand(f, si["src"].rv[x], through_calls=TRANSPARENT) for x in ("a", "b") if x in si["src"].rv]
                for sx in srcs:
                    if sx.kind == "call" and sx.term["dest"]["l"] in stale and sx.term is stale[sx.term["dest"]["l"]]:
                        q = callee(sx.term).rsplit("::", 1)[-1]
                        ck.bad("R01.11", "%s:stale-%s-in-loop%s" % (m.short, q, _tag(cfg)),
                               "inside the element loop a branch is decided by %s() asked before the loop, while the loop itself changes that "
                               "collection: a later element of the same command does not see what an earlier one did (repeated members, "
                               "NX/GT/LT filters)" % q, f.where(f.term(sb)["ln"]))
    ck.ok("R01.11", "scan" + _tag(cfg), "%d mutating element loops examined" % n)
    ck.floor("R01.11" + _tag(cfg), n, 5)


def _r0112(ck, prog, cfg):
    gs = [f for f in prog.lib_fns() if f.id == "redis::executor::CommandExecutor::glob_match"]
    if len(gs) != 1:
        ck.anchor_lost("R01.12", "CommandExecutor::glob_match not found")
        return
    g = gs[0]
    # the star arm: true edge of `p_char == b'*'`
    arms = []
    for b in sorted(g.reachable_blocks()):
        si = switch_info(g, b)
        if si and si["kind"] == "val" and si["src"] is not None and si["src"].kind == "rv" and si["src"].rv["k"] == "bin" and si["src"].rv["op"] == "Eq":
            ops = (si["src"].rv["a"], si["src"].rv["b"])
            if any("c" in o and o["c"].replace("const ", "") == "42_u8" for o in ops):
                # only the dispatching test of the *current* pattern byte, pattern[p_idx] with p_idx the parameter itself (a look-ahead
                # at pattern[p_idx + 1..] - collapsing runs of stars - is not a star arm)
                cur = False
                for o in ops:
                    l = op_local(o)
                    if l is None:
                        continue
                    for hop in range(4):
                        d = g.defs().get(l, [])
                        if len(d) != 1 or d[0][2] != "assign" or d[0][3]["k"] != "use":
                            break
                        pl = op_place(d[0][3]["a"])
                        if pl is None:
                            break
                        ix = [e["ix"] for e in pl.get("p", []) if isinstance(e, dict) and "ix" in e]
                        if ix:
                            s_ix = src_of_operand(g, {"cp": {"l": ix[0]}})
                            cur = s_ix.kind == "path" and s_ix.local is not None and 1 <= s_ix.local <= g.d["argc"] and not s_ix.fields
                            break
                        if pl.get("p"):
                            break
                        l = pl["l"]
                tt, ft = lib2.bool_edges(g, b)
                if tt is not None and cur:
                    arms.append((b, tt, ft))
    if not arms:
        ck.anchor_lost("R01.12", "glob_match no longer tests a pattern byte against b'*'")
        return
    for k, (sb, tt, ft) in enumerate(arms):
        region = {x for x in g.reachable_blocks() if g.dominates(tt, x)}
        recs = [(b, t) for b, t in g.calls() if b in region and callee(t) == g.id]
        # (a) no recursion result is the answer
        direct = []
        for b, t in recs:
            if t.get("dest") == {"l": 0}:
                direct.append(t["ln"])
        for b, i, st in g.stmts():
            if b in region and st["lhs"] == {"l": 0} and st["rv"]["k"] == "use":
                v = src_of_operand(g, st["rv"]["a"], through_calls=TRANSPARENT)
                if v.kind == "call" and callee(v.term) == g.id:
                    direct.append(st["ln"])
        # (b) a loop over every remaining offset: RangeInclusive(k_idx, key.len()) (or ..key.len()+1) feeding the recursion
        loop_ok = False
        for b, t in g.calls():
            if b in region and is_callee(t, r"RangeInclusive::<usize>::new$"):
                lo = src_of_operand(g, t["args"][0])
                hi = src_of_operand(g, t["args"][1])
                if lo.kind == "path" and lo.local is not None and 1 <= lo.local <= g.d["argc"] and hi.kind == "call" and is_callee(hi.term, r"<impl \[.*\]>::len$"):
                    loop_ok = True
        # iterator form of the same loop: (k_idx..=key.len()).any(|i| self.glob_match(key, pattern, i, ..)) - `any` tests every attempt
        for b, t in g.calls():
            if b in region and is_callee(t, r"RangeInclusive<usize> as std::iter::Iterator>::any(::<.*>)?$") and len(t["args"]) >= 2:
                rng = src_of_operand(g, t["args"][0], through_calls=TRANSPARENT)
                clo = [c for c in prog.children(g) if any(callee(ct) == g.id for _, ct in c.calls())]
                if rng.kind == "call" and is_callee(rng.term, r"RangeInclusive::<usize>::new$") and clo:
                    lo = src_of_operand(g, rng.term["args"][0])
                    hi = src_of_operand(g, rng.term["args"][1])
                    if lo.kind == "path" and lo.local is not None and 1 <= lo.local <= g.d["argc"] and hi.kind == "call" and is_callee(hi.term, r"<impl \[.*\]>::len$"):
                        loop_ok = True
                        recs = recs + [(cb, ct) for c in clo for cb, ct in c.calls() if callee(ct) == g.id]
        tested = bool(recs) and not direct
        ck.check(tested and loop_ok, "R01.12", "glob_match:star-arm#%d%s" % (k, _tag(cfg)),
                 "the `*` arm of glob_match %s: a star must be tried against every remaining offset of the key and only the *test* of each attempt "
                 "decides - KEYS/SCAN MATCH would drop entries Redis returns"
                 % ("returns the result of one recursive attempt as its answer (line %s)" % direct[:2] if direct else
                    ("has no loop from the current offset to key.len() inclusive" if not loop_ok else "makes no recursive attempt")),
                 g.where(g.term(sb)["ln"]), detail="loop over k_idx..=key.len(), each attempt tested")


# ------------------------------------------------------------------------------------------------
VALUE_TY = "redis::data::value::Value"
WT_OK_NIL = {"execute_mget": "MGET answers nil for a key that holds a non-string (Redis semantics)",
             "execute_batch_get": "internal batched MGET: nil for a non-string, as MGET"}


def _type_switches(f):
    """[(block, switch-info, key id)] for switches on the variant of a stored Value reached through a keyed lookup"""
    out = []
    for b in sorted(f.reachable_blocks()):
        t = f.term(b)
        if t["k"] != "switch" or "assert" in str(t.get("x", "")):
            continue
        si = switch_info(f, b)
        if not si or si["kind"] != "discr" or si.get("ty") != VALUE_TY:
            continue
        src = si["src"]
        kid = None
        if src is not None and src.kind == "call" and is_callee(src.term, r"Entry::<.*>::or_insert(_with)?$|Entry::<.*>::or_default$"):
            src = src_of_operand(f, src.term["args"][0], through_calls=TRANSPARENT)
        if src is not None and src.kind == "call" and src.term.get("args") and len(src.term["args"]) >= 2:
            kid = _key_id(f, src.term["args"][1])
        out.append((b, si, kid))
    return out


def _wt_verdict(f, start):
    """may-analysis from block `start`: the set of tags the returned value can carry. 'WT' = the WRONGTYPE error."""
    def tag_of_call(t):
        if is_callee(t, r"RespValue::err(::<.*>)?$|RespValue::error(::<.*>)?$") and t["args"]:
            txt = str(t["args"][0].get("c", "")) + str(t["args"][0].get("pv", ""))
            return "WT" if "WRONGTYPE" in txt else "err:" + txt[:40]
        return "call:" + callee(t).rsplit("::", 1)[-1] + "@%s" % t["ln"]
    envs = {start: {}}
    work = [start]
    result = set()
    it = 0
    while work and it < 20000:
        it += 1
        b = work.pop()
        env = {k: set(v) for k, v in envs[b].items()}
        for st in f.blocks[b]["st"]:
            lhs = st["lhs"]
            if lhs.get("p"):
                continue
            rv = st["rv"]
            if rv["k"] == "use":
                l = op_local(rv["a"])
                pl = op_place(rv["a"])
                if l is not None and pl is not None and not pl.get("p"):
                    env[lhs["l"]] = set(env.get(l, {"?"}))
                    if (l, "payload") in env:
                        env[(lhs["l"], "payload")] = set(env[(l, "payload")])
                elif pl is not None and len(pl.get("p", ())) == 2 and isinstance(pl["p"][0], dict) and "dc" in pl["p"][0] and \
                        isinstance(pl["p"][1], dict) and pl["p"][1].get("f") == "0" and (pl["l"], "payload") in env:
                    env[lhs["l"]] = set(env[(pl["l"], "payload")])
                elif pl is not None and len(pl.get("p", ())) == 1 and isinstance(pl["p"][0], dict) and "f" in pl["p"][0]:
                    env[lhs["l"]] = set(env.get((pl["l"], pl["p"][0]["f"]), {"other@%s" % st["ln"]}))
                elif "c" in rv["a"]:
                    c_ = str(rv["a"]["c"]).replace("const ", "")
                    env[lhs["l"]] = {"bool:" + c_} if c_ in ("true", "false") else {"const"}
                else:
                    env[lhs["l"]] = {"other@%s" % st["ln"]}
            elif rv["k"] == "agg":
                env[lhs["l"]] = {"%s@%s" % ((rv.get("n") or "agg").rsplit("::", 1)[-1], st["ln"])}
                # a reply wrapped for an early exit: `Some(reply)` / `Err(reply)` built by a helper and unwrapped by its caller
                if str(rv.get("n", "")).rsplit("::", 1)[-1] in ("Some", "Err", "Ok", "Break") and len(rv.get("ops") or []) == 1:
                    ol_ = op_local(rv["ops"][0])
                    pl0 = op_place(rv["ops"][0]) if "c" not in rv["ops"][0] else None
                    if ol_ is not None and pl0 is not None and not pl0.get("p"):
                        env[(lhs["l"], "payload")] = set(env.get(ol_, {"?"}))
                for i_, o_ in enumerate(rv.get("ops") or []):      # constant components of a tuple: `(need_create, is_wrong_type)`
                    c_ = str(o_.get("c", "")).replace("const ", "")
                    if c_ in ("true", "false"):
                        env[(lhs["l"], str(i_))] = {"bool:" + c_}
            else:
                env[lhs["l"]] = {"other@%s" % st["ln"]}
        t = f.term(b)
        if t["k"] == "call" and t.get("dest") is not None and not t["dest"].get("p"):
            env[t["dest"]["l"]] = {tag_of_call(t)}
        if t["k"] == "return":
            result |= env.get(0, {"?"})
            continue
        succs = f.succ(b)
        if t["k"] == "switch" and t.get("dt") == "bool":
            v = env.get(op_local(t["d"]))
            if v in ({"bool:true"}, {"bool:false"}):          # a flag set on this path decides the branch
                want = "1" if v == {"bool:true"} else "0"
                succs = [lib_edge(f, b, want)]
        for s2 in succs:
            old = envs.get(s2)
            if old is None:
                envs[s2] = {k: set(v) for k, v in env.items()}
                work.append(s2)
            else:
                ch = False
                for k in set(old) | set(env):
                    a = old.get(k, {"?"})
                    n = a | env.get(k, {"?"})
                    if n != a or k not in old:
                        old[k] = n
                        ch = True
                if ch:
                    work.append(s2)
    return result


def _r0113(ck, prog, cfg, meths):
    n = 0
    nvar = len((prog.adts.get(VALUE_TY) or {"variants": []})["variants"])
    for m, f in _bodies(prog, meths):
        sws = _type_switches(f)
        if not sws:
            continue
        verdicts = {}
        lookups = {}
        k = 0
        for b, si, kid in sws:
            t = f.term(b)
            lookups[b] = si["src"].site[0] if si["src"] is not None and si["src"].kind == "call" and si["src"].site else b
            if nvar and len(t["cases"]) >= nvar:
                continue                      # total match (TYPE, OBJECT ENCODING): no `other type` edge
            res = _wt_verdict(f, t["else"])
            verdicts[b] = (kid, res)
        for b, si, kid in sws:
            if b not in verdicts:
                continue
            res = verdicts[b][1]
            # a re-lookup behind a deciding test of the same key: the type is already known to match when control gets here
            decided = any(b2 != b and f.dominates(lookups[b2], b) and lookups[b2] != lookups.get(b) and verdicts[b2][0] == kid and kid is not None
                          and verdicts[b2][1] == {"WT"} for b2 in verdicts)
            key = "%s:other-type#%d%s" % (f.short if f.kind != "closure" else f.parent.rsplit("::", 1)[-1] + "::{closure}", k, _tag(cfg))
            k += 1
            if decided:
                continue
            n += 1
            base = f.short if f.kind != "closure" else f.parent.rsplit("::", 1)[-1]
            if base in WT_OK_NIL and not any(x == "WT" for x in res):
                ck.ok("R01.13", key, detail="frozen: " + WT_OK_NIL[base])
                continue
            ck.check(res == {"WT"}, "R01.13", key,
                     "the key holds a value of another type than this command works on, and the reply on that edge can be %s instead of the "
                     "WRONGTYPE error: the command answers as if the key were absent/empty (or proceeds) where Redis refuses"
                     % sorted(x for x in res if x != "WT")[:4], f.where(t_ln(f, b)), detail="other-type edge answers WRONGTYPE on every path")
    ck.floor("R01.13" + _tag(cfg), n, 40)


def lib_edge(f, b, value):
    from .lib import edge_targets
    return edge_targets(f, b, value)


def t_ln(f, b):
    return f.term(b)["ln"]


# ------------------------------------------------------------------------------------------------
ZSET = "redis::data::sorted_set::RedisSortedSet"
SKIP = "redis::data::skiplist::SkipList"
SCORE_STORE = r"hash_map::(OccupiedEntry|VacantEntry)::<'_, std::string::String, f64>::insert$|HashMap::<std::string::String, f64.*>::insert$"


def _param_src(f, operand):
    s_ = src_of_operand(f, operand, through_calls=TRANSPARENT)
    return s_.local if s_.kind == "path" and s_.local is not None and 1 <= s_.local <= f.d["argc"] and not s_.fields else None


def _r0114(ck, prog, cfg):
    n = 0
    for f in prog.lib_fns():
        if f.impl_self != ZSET or f.kind != "method" or "test" in f.id:
            continue
        fparams = [i for i in range(1, f.d["argc"] + 1) if f.locals[i] == "f64"]
        stores = [(b, t) for b, t in f.calls() if is_callee(t, SCORE_STORE) and len(t["args"]) >= 2 and _param_src(f, t["args"][-1]) in fparams]
        if not fparams or not stores:
            continue
        # the `member exists` region: blocks dominated by a read of the stored score (OccupiedEntry::get / members.get)
        reads = [(b, t) for b, t in f.calls() if is_callee(t, r"OccupiedEntry::<'_, std::string::String, f64>::get$|HashMap::<std::string::String, f64.*>::get$")]
        for rb, rt in reads:
            region = {x for x in f.reachable_blocks() if f.dominates(rb, x)}
            store_blocks = {b for b, _ in stores}
            # exits of the region reachable without storing
            skip_exit = [x for x in f.reach([rb], avoid=store_blocks) if x in region and f.term(x)["k"] in ("return",) or
                         (x in region and any(y not in region for y in f.succ(x)) and x not in store_blocks and x in f.reach([rb], avoid=store_blocks))]
            if not skip_exit:
                continue
            k = 0
            seen = set()
            for x in skip_exit:
                for sb, _ in lib2.controlling_switches(f, x):
                    if sb not in region or sb in seen or sb == rb:
                        continue
                    seen.add(sb)
                    si = switch_info(f, sb)
                    if si is None or si["kind"] == "discr":
                        continue
                    n += 1
                    src = si["src"]
                    exact = False
                    if src is not None and src.kind == "rv" and src.rv["k"] == "bin" and src.rv["op"] in ("Eq", "Ne"):
                        pa, pb = _param_src(f, src.rv["a"]), _param_src(f, src.rv["b"])
                        sa = src_of_operand(f, src.rv["a"], through_calls=TRANSPARENT)
                        sb_ = src_of_operand(f, src.rv["b"], through_calls=TRANSPARENT)
                        stored = [z for z in (sa, sb_) if z.kind == "call" and z.term is rt]
                        exact = (pa in fparams or pb in fparams) and bool(stored)
                    ck.check(exact, "R01.14", "%s:keeps-stored-score#%d%s" % (f.short, k, _tag(cfg)),
                             "RedisSortedSet::%s can leave an existing member's stored score in place on a branch that is not an exact equality test "
                             "between the stored and the incoming score (a tolerance or any other condition drops a real score update: the reply "
                             "says changed/ok while ZSCORE, ZRANGEBYSCORE and the order keep the old score)" % f.short,
                             f.where(f.term(sb)["ln"]), detail="skip decided by Eq(stored score, incoming score)")
                    k += 1
    ck.floor("R01.14" + _tag(cfg), n, 1)


def _r0115(ck, prog, cfg):
    n = 0
    fns = [f for f in prog.lib_fns() if f.file in ("src/redis/data/skiplist.rs", "src/redis/data/sorted_set.rs") and "test" not in f.id]
    cmps = [f for f in fns if f.kind == "method" and f.locals and f.locals[0] == "std::cmp::Ordering"
            and [f.locals[i] for i in range(1, f.d["argc"] + 1)].count("f64") >= 2]
    if not cmps:
        ck.anchor_lost("R01.15", "no comparator (two f64 scores -> Ordering) found in the skiplist / sorted-set modules")
        return
    for f in cmps:
        fl = [i for i in range(1, f.d["argc"] + 1) if f.locals[i] == "f64"]
        ml = [i for i in range(1, f.d["argc"] + 1) if f.locals[i] != "f64"]
        bodies = prog.with_children(f)
        pc = [(g, t) for g in bodies for _, t in g.calls() if is_callee(t, r"<f64 as std::cmp::PartialOrd>::(partial_cmp|lt|le|gt|ge)$")]
        ok_score = False
        for g, t in pc:
            a, b = _param_src(g, t["args"][0]), _param_src(g, t["args"][1])
            if g is f and a == fl[0] and b == fl[1]:
                ok_score = True
        n += 1
        ck.check(ok_score, "R01.15", "%s:scores-by-partial-order%s" % (f.short, _tag(cfg)),
                 "the sorted-set comparator does not order its two scores with f64's partial order in argument order (first score against second): "
                 "total_cmp / bit patterns separate -0.0 from 0.0 and order NaN payloads; swapped arguments reverse ZRANGE", f.where(),
                 detail="partial_cmp(score1, score2)")
        tie = False
        for g in bodies:
            for _, t in g.calls():
                if is_callee(t, r"<(str|std::string::String|\[u8\]) as std::cmp::Ord>::cmp$"):
                    # closure captures are fields 0,1 of the closure env in capture order = member1, member2
                    s0 = src_of_operand(g, t["args"][0], through_calls=TRANSPARENT)
                    s1 = src_of_operand(g, t["args"][1], through_calls=TRANSPARENT)
                    nm = lambda z: (z.root or "") + "." + ".".join(z.fields)
                    names_ = [x["n"] for x in f.names if x["pl"].get("l") in ml and not x["pl"].get("p")]
                    if len(names_) >= 2 and names_[0] in nm(s0) and names_[1] in nm(s1):
                        tie = True
        n += 1
        ck.check(tie, "R01.15", "%s:ties-by-member-bytes%s" % (f.short, _tag(cfg)),
                 "the sorted-set comparator does not break a score tie with the byte order of the two members in argument order (Redis orders "
                 "equal scores lexicographically by member)", f.where(), detail="then member1.cmp(member2)")
    bad = []
    for g in fns:
        for _, t in g.calls():
            if is_callee(t, r"f64::total_cmp$|f64::to_bits$|f64::to_ne_bytes$|f64::to_le_bytes$|f64::to_be_bytes$") and not t.get("x"):
                bad.append((g, t))
    n += 1
    ck.check(not bad, "R01.15", "no-bitwise-score-order%s" % _tag(cfg),
             "the sorted-set modules order or identify scores by bit pattern (%s): -0.0 and 0.0 are the same score in Redis and tie by member"
             % ", ".join("%s in %s" % (callee(t).rsplit("::", 1)[-1], g.short) for g, t in bad[:3]),
             bad[0][0].where(bad[0][1]["ln"]) if bad else None, detail="no total_cmp/to_bits in skiplist.rs / sorted_set.rs")
    ck.floor("R01.15" + _tag(cfg), n, 3)


# ------------------------------------------------------------------------------------------------
def _tainted_locals(f, seeds):
    """locals whose value derives from the seed locals (flow-insensitive forward closure over assignments and call results)"""
    t = set(seeds)

    def mentions(node):
        if isinstance(node, dict):
            if "l" in node and isinstance(node["l"], int) and node["l"] in t:
                return True
            return any(mentions(v) for v in node.values())
        if isinstance(node, list):
            return any(mentions(v) for v in node)
        return False
    ch = True
    while ch:
        ch = False
        for b, i, st in f.stmts():
            l = st["lhs"].get("l")
            if l not in t and mentions(st["rv"]):
                t.add(l)
                ch = True
        for b, tm in f.calls():
            d = tm.get("dest")
            if d is not None and d.get("l") not in t and mentions(tm.get("args")):
                t.add(d["l"])
                ch = True
    return t


def _r0116(ck, prog, cfg):
    hs = [f for f in prog.lib_fns() if f.impl_self == EXEC and f.kind == "method"
          and {"wherefrom", "whereto"} <= {x["n"] for x in f.names if not x["pl"].get("p") and x["pl"]["l"] <= f.d["argc"]}]
    if not hs:
        ck.anchor_lost("R01.16", "no executor method with `wherefrom`/`whereto` parameters (the LMOVE handler) found")
        return
    n = 0
    for f in hs:
        pl_ = {x["n"]: x["pl"]["l"] for x in f.names if not x["pl"].get("p") and x["pl"]["l"] <= f.d["argc"]}
        dep = {"wherefrom": _tainted_locals(f, {pl_["wherefrom"]}), "whereto": _tainted_locals(f, {pl_["whereto"]})}
        k = 0
        for b, t in f.calls():
            c = callee(t) or ""
            if not c.startswith("redis::data::list::RedisList::"):
                continue
            g = prog.fns.get(c)
            if g is None or not g.locals[1:2] or not g.locals[1].startswith("&mut "):
                continue
            # what the mutator does to the element sequence, read from its body
            inner = [callee(t2) or "" for g2 in prog.with_children(g) for _, t2 in g2.calls()]
            adds = any(re.search(r"VecDeque::<.*>::(push_front|push_back|insert|extend|append|rotate_left|rotate_right|swap|resize)\b|RedisList::(lpush|rpush|insert)$", x) for x in inner)
            removes = any(re.search(r"VecDeque::<.*>::(pop_front|pop_back|remove|truncate|drain|clear|split_off|retain|rotate_left|rotate_right|swap)\b|RedisList::(lpop|rpop|remove|trim)$", x) for x in inner)
            if not adds and not removes:
                continue
            need = [x for x, on in (("wherefrom", removes), ("whereto", adds)) if on]
            n += 1
            missing = []
            for par in need:
                ctl = False
                for sb, _ in lib2.controlling_switches(f, b):
                    d = op_local(f.term(sb)["d"])
                    if d in dep[par]:
                        ctl = True
                data = any(op_local(a) in dep[par] for a in t["args"][1:] if op_local(a) is not None)
                if not (ctl or data):
                    missing.append(par)
            ck.check(not missing, "R01.16", "%s:%s#%d%s" % (f.short, c.rsplit("::", 1)[-1], k, _tag(cfg)),
                     "the list mutator %s in the LMOVE handler does not depend on %s: the end it works on is fixed or chosen by the other argument, "
                     "so some (wherefrom, whereto) combination moves the element to/from the wrong end" % (c.rsplit("::", 1)[-1], " and ".join(missing)),
                     f.where(t["ln"]), detail="depends on " + "+".join(need))
            k += 1
    ck.floor("R01.16" + _tag(cfg), n, 4)


# ------------------------------------------------------------------------------------------------
def _r0117(ck, prog, cfg, meths):
    n = 0
    for m, f in _bodies(prog, meths):
        parsed = [t["dest"]["l"] for b, t in f.calls() if is_callee(t, r"<impl str>::parse::<i64>$") and "p" not in t["dest"]]
        if not parsed:
            continue
        stored = _tainted_locals(f, set(parsed))
        params = {i for i in range(2, f.d["argc"] + 1) if f.locals[i] == "i64"}
        if f.kind == "closure":
            continue
        client = _tainted_locals(f, params) if params else set()
        k = 0
        sites = []
        for b, t in f.calls():
            if is_callee(t, r"<impl i64>::(checked|wrapping|saturating|overflowing|unchecked)_(add|sub)$") and len(t["args"]) == 2:
                sites.append((b, t["ln"], callee(t).rsplit("::", 1)[-1], t["args"], t))
        for b, i, st in f.stmts():
            rv = st["rv"]
            if rv["k"] == "bin" and re.match(r"(Add|Sub)", rv["op"]) and st["lhs"].get("l") is not None and f.locals[st["lhs"]["l"]] in ("i64", "(i64, bool)"):
                sites.append((b, st["ln"], rv["op"], [rv["a"], rv["b"]], None))
        for b, ln, op, args, t in sites:
            ls = [op_local(a) for a in args]
            if not (any(l in stored for l in ls if l is not None) and (any(l in client for l in ls if l is not None) or any("c" in a for a in args))):
                continue
            n += 1
            good = op in ("checked_add", "checked_sub")
            why = "uses `%s`" % op
            if good:
                # the None edge answers an error
                good = False
                why = "does not answer an error when checked arithmetic reports overflow"
                for sb in sorted(f.reachable_blocks()):
                    si = switch_info(f, sb)
                    if si and si["kind"] == "discr" and "p" not in si["place"] and si["place"]["l"] == t["dest"]["l"]:
                        from .lib import edge_targets
                        nt = edge_targets(f, sb, 0)
                        st_ = edge_targets(f, sb, 1)
                        reg = ({nt} | f.reach([nt], avoid=[sb])) - ({st_} | f.reach([st_], avoid=[sb]))
                        if any(f.term(x)["k"] == "call" and is_callee(f.term(x), r"RespValue::err(::<.*>)?$") for x in reg):
                            good = True
            ck.check(good, "R01.17", "%s:counter-arith#%d%s" % (f.short, k, _tag(cfg)),
                     "%s combines a stored integer with the client's operand and %s: an increment past i64::MAX/MIN must be refused with the value "
                     "untouched" % (f.short, why), f.where(ln), detail="checked_add/sub + error on None")
            k += 1
    ck.floor("R01.17" + _tag(cfg), n, 2)


def _r0118(ck, prog, cfg):
    n = 0
    MEM_INS = r"hash_map::(OccupiedEntry|VacantEntry)::<'_, std::string::String, f64>::insert$|HashMap::<std::string::String, f64.*>::insert$"
    MEM_REM = r"HashMap::<std::string::String, f64.*>::remove(::<.*>)?$|hash_map::OccupiedEntry::<'_, std::string::String, f64>::remove(_entry)?$"
    for f in prog.lib_fns():
        if f.impl_self != ZSET or f.kind != "method" or "test" in f.id:
            continue
        ins = [(b, t) for b, t in f.calls() if is_callee(t, MEM_INS)]
        rem = [(b, t) for b, t in f.calls() if is_callee(t, MEM_REM)]
        sk_ins = {b for b, t in f.calls() if is_callee(t, r"SkipList::insert$")}
        sk_rem = {b for b, t in f.calls() if is_callee(t, r"SkipList::(remove_with_score|remove|delete)$")}
        for k, (b, t) in enumerate(ins):
            n += 1
            miss = lib2.path_avoiding(f, b, lambda x: f.term(x)["k"] == "return", lambda x: x in sk_ins, (), from_succ=True)
            ck.check(miss is None and bool(sk_ins), "R01.18", "%s:members-insert#%d%s" % (f.short, k, _tag(cfg)),
                     "RedisSortedSet::%s stores a score into `members` and can return without inserting the member into the skiplist (path %s)"
                     % (f.short, (miss or [])[:6]), f.where(t["ln"]), detail="skiplist.insert on every path after members insert")
        for k, (b, t) in enumerate(rem):
            n += 1
            # removal happened = the Some edge of the remove result (or is_some() true edge); accept any path on which skiplist removal follows,
            # except paths leaving through a `nothing was removed` edge
            miss = lib2.path_avoiding(f, b, lambda x: f.term(x)["k"] == "return", lambda x: x in sk_rem, (), from_succ=True)
            feasible = miss
            if miss is not None:
                # a path that avoids the skiplist removal must pass a branch on the removal's own result (removed == false / None)
                res = _tainted_locals(f, {t["dest"]["l"]}) if "p" not in t["dest"] else set()
                if any(f.term(x)["k"] == "switch" and op_local(f.term(x)["d"]) in res for x in miss):
                    feasible = None
            ck.check(feasible is None and bool(sk_rem), "R01.18", "%s:members-remove#%d%s" % (f.short, k, _tag(cfg)),
                     "RedisSortedSet::%s removes a member from `members` and can return without removing it from the skiplist" % f.short,
                     f.where(t["ln"]), detail="skiplist removal follows unless nothing was removed")
    ck.floor("R01.18" + _tag(cfg), n, 3)


# ------------------------------------------------------------------------------------------------
def _reply_kinds(f, start):
    out = set()
    for r in _wt_verdict(f, start):
        if r == "WT" or r.startswith("err:"):
            continue
        if r.startswith("call:"):
            out.add("call:" + r[5:].split("@")[0])
        else:
            out.add(r.split("@")[0])
    return out


def _r0119(ck, prog, cfg, meths):
    from .lib import edge_targets
    n = 0
    for m, f in _bodies(prog, meths):
        if f.kind != "method":
            continue
        sws = _type_switches(f)
        if not sws:
            continue
        b, si, kid = sws[0]
        t = f.term(b)
        present = set()
        for v, tg in t["cases"]:
            present |= _reply_kinds(f, tg)
        absent = None
        for sb in sorted(f.reachable_blocks()):
            s2 = switch_info(f, sb)
            if s2 and s2["kind"] == "discr" and str(s2.get("ty", "")).startswith("std::option::Option<") and "value::Value" in s2["ty"]:
                st_ = edge_targets(f, sb, 1)
                if st_ == b or b in f.succ(st_):
                    absent = _reply_kinds(f, edge_targets(f, sb, 0))
                    break
        if absent is None or "?" in absent or "?" in present or not present:
            continue
        n += 1
        extra = sorted(absent - present)
        ck.check(not extra, "R01.19", "%s:absent-key-reply-kind%s" % (f.short, _tag(cfg)),
                 "for an absent key %s can answer with %s, a kind of reply it never gives for a present key of the right type (%s): Redis answers "
                 "the empty/zero/nil value of the command's own reply type" % (f.short, extra, sorted(present)), f.where(t["ln"]),
                 detail="absent-edge reply kinds %s within present-edge kinds %s" % (sorted(absent), sorted(present)))
    ck.floor("R01.19" + _tag(cfg), n, 35)
