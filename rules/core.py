"""Check plumbing: obligations, floors, violations, known findings, evidence, reports."""
import json
import os
import re
import sys
import time

VERIF = os.path.dirname(os.path.dirname(os.path.abspath(__file__)))
KF_FILE = os.path.join(VERIF, "known_findings.jsonl")


def load_known():
    out = []
    if os.path.exists(KF_FILE):
        for line in open(KF_FILE):
            line = line.strip()
            if line and not line.startswith("#"):
                out.append(json.loads(line))
    return out


class Check:
    def __init__(self, prop, tier="quick"):
        self.prop = prop
        self.tier = tier
        self.t0 = time.time()
        self.rules = {}          # rule id -> text
        self.obl = []            # (rule, key, ok, detail)
        self.viol = {}           # key -> report dict
        self.floors = []         # (rule, measured, minimum)
        self.samples = []
        self.not_decided = []
        self.assumptions = []
        self.extra = {}
        self.fn_count = 0
        self.configs = []
        self.mutants = None

    # -- declaration --
    def rule(self, rid, text):
        self.rules[rid] = text

    def nd(self, text):
        self.not_decided.append(text)

    def assume(self, text):
        self.assumptions.append(text)

    # -- results --
    @staticmethod
    def _norm(key):
        # closure ordinals shift when an unrelated closure is added to the function: keep keys stable
        return re.sub(r"\{closure#\d+\}", "{closure}", key)

    def ok(self, rule, key, detail=None):
        key = self._norm(key)
        self.obl.append((rule, key, True))
        if detail is not None and len(self.samples) < 400:
            self.samples.append({"rule": rule, "instance": key, "verdict": "holds", "detail": detail})

    def bad(self, rule, key, what, where=None, **detail):
        """A violated obligation.  `key` must not contain line numbers."""
        key = self._norm(key)
        full = "%s:%s" % (rule, key)
        self.obl.append((rule, key, False))
        if full not in self.viol:
            self.viol[full] = {"property": self.prop, "rule": rule, "rule_text": self.rules.get(rule, ""),
                               "key": full, "what": what, "where": where, "detail": detail}

    def check(self, cond, rule, key, what, where=None, detail=None, **kw):
        if cond:
            self.ok(rule, key, detail)
        else:
            self.bad(rule, key, what, where, **kw)
        return cond

    def floor(self, rule, measured, minimum):
        """Fail closed when a rule matched fewer instances than were confirmed by hand."""
        self.floors.append((rule, measured, minimum))
        if measured < minimum:
            self.bad(rule, "anchor-lost", "rule %s matched %d instances, fewer than the %d confirmed on the reference tree "
                     "(an anchor was renamed/removed: the check can no longer vouch for this clause)" % (rule, measured, minimum))

    def anchor_lost(self, rule, msg):
        self.bad(rule, "anchor-lost", "anchor lost: %s" % msg)

    def viol_new_possible(self):
        open_keys = {k["key"] for k in load_known() if k["property"] == self.prop and k.get("status") == "open"}
        return any(k not in open_keys and re.sub(r"@(nodefault|optall|security)$", "", k) not in open_keys for k in self.viol)

    # -- finish --
    def finish(self):
        known = [k for k in load_known() if k["property"] == self.prop]
        open_keys = {k["key"]: k for k in known if k.get("status") == "open"}
        matched = []
        new = []
        for key, rep in sorted(self.viol.items()):
            base = re.sub(r"@(nodefault|optall|security)$", "", key)   # the same finding seen in another feature configuration
            if key in open_keys or base in open_keys:
                if base not in matched:
                    matched.append(base)
            else:
                new.append(rep)
        for key in matched:
            print("KNOWN-FINDING: property=%s %s [%s]" % (self.prop, open_keys[key]["what"], key))
        seen_bases = {re.sub(r"@(nodefault|optall|security)$", "", k) for k in self.viol}
        stale = [k for k in open_keys if k not in seen_bases]
        for k in stale:
            print("note: known finding %s no longer reproduced by the check (fixed? update known_findings.jsonl)" % k)
        rdir = os.path.join(os.environ.get("VERIF_REPORT_DIR") or os.path.join(VERIF, "reports"), self.prop)
        os.makedirs(rdir, exist_ok=True)
        for rep in new:
            fname = re.sub(r"[^A-Za-z0-9_.-]+", "_", rep["key"])[:150] + ".json"
            path = os.path.join(rdir, fname)
            with open(path, "w") as f:
                json.dump(rep, f, indent=1)
            print("  %s: %s%s" % (rep["key"], rep["what"], (" @ " + rep["where"]) if rep.get("where") else ""))
            print("VIOLATION property=%s replay=%s" % (self.prop, path))
        self._evidence(matched, new, stale)
        n_ob = len(self.obl)
        print("%s %s: %d obligations over %d rules, %d hold, %d known findings, %d new violations (%.1fs)" % (
            self.prop, self.tier, n_ob, len(self.rules), sum(1 for o in self.obl if o[2]), len(matched), len(new),
            time.time() - self.t0))
        return 1 if new else 0

    def _evidence(self, matched, new, stale):
        per_rule = {}
        for r, k, ok in self.obl:
            d = per_rule.setdefault(r, {"instances": 0, "hold": 0})
            d["instances"] += 1
            d["hold"] += 1 if ok else 0
        distinct = len({(r, k) for r, k, ok in self.obl})
        samples = self.samples[:40]
        if not samples:
            samples = [{"rule": r, "instance": k, "verdict": "holds" if ok else "violated"} for r, k, ok in self.obl[:20]]
        cov = {
            "explanation": "Static analysis of the current /repo working tree (pre-borrowck MIR facts from a rustc_private "
                           "driver, resolved callees, CFG dominance/reachability, call graph; syn AST where stated). "
                           "Each rule below is a necessary structural clause of the property; it decides that clause on "
                           "every path of every function in scope, not the runtime behaviour. Rules: " +
                           " | ".join("%s: %s" % kv for kv in sorted(self.rules.items())),
            "obligations": len(self.obl),
            "discharged": sum(1 for o in self.obl if o[2]),
            "evaluations": len(self.obl),
            "distinct_nontrivial": distinct,
            "rule": "one obligation per (rule, matched code site); distinct = distinct (rule, site-key) pairs; a site is "
                    "non-trivial because it is only counted when the rule's pattern matched a concrete construct",
            "samples": samples,
            "per_rule": per_rule,
            "instances": sorted({"%s:%s%s" % (r, k, "" if ok else " [violated]") for r, k, ok in self.obl}),
            "floors": [{"rule": r, "matched": m, "minimum": mn} for r, m, mn in self.floors],
            "functions_analysed": self.fn_count,
            "configs": self.configs,
            "known_findings_matched": matched,
            "known_findings_not_reproduced": stale,
            "new_violations": [v["key"] for v in new],
            "not_decided": self.not_decided,
            "trusted_base": ["rustc nightly MIR construction and callee resolution", "engine/mirfacts driver",
                             "rules/*.py rule code", "frozen instance tables in the rule modules"],
            "exhaustive": True,
        }
        if self.mutants is not None:
            cov["mutants"] = self.mutants
        cov.update(self.extra)
        ev = {
            "property_id": self.prop,
            "tier": self.tier,
            "seed": int(os.environ.get("VERIF_SEED", "0") or 0),
            "level": "other",
            "coverage": cov,
            "assumptions": self.assumptions,
            "wall_s": round(time.time() - self.t0, 2),
            "violations": len(new),
        }
        edir = os.environ.get("VERIF_EVIDENCE_DIR") or os.path.join(VERIF, "evidence")
        os.makedirs(edir, exist_ok=True)
        with open(os.path.join(edir, self.prop + ".json"), "w") as f:
            json.dump(ev, f, indent=1)


class Alias:
    """report another module's rule instances under this property's own rule id (shared clauses)"""

    def __init__(self, ck, src, dst, skip=()):
        self.ck, self.src, self.dst, self.skip = ck, src, dst, tuple(skip)

    def __getattr__(self, name):
        f = getattr(self.ck, name)
        if name in ("ok", "bad", "check", "floor", "anchor_lost"):
            def g(*a, **kw):
                a = list(a)
                idx = 1 if name == "check" else 0
                if len(a) > idx and isinstance(a[idx], str):
                    if any(a[idx].startswith(x) for x in self.skip):
                        return True      # a clause whose (known) findings belong to the owning property only
                    if a[idx].startswith(self.src):
                        a[idx] = a[idx].replace(self.src, self.dst, 1)
                return f(*a, **kw)
            return g
        return f


class Only:
    """run another property's rule function but keep only selected rules, reported under this property's ids (shared clauses): `mapping`
    = {source rule id: own rule id}; instances of every other rule are dropped, and so are the keys in `skip_keys` (clauses whose open
    findings belong to the owning property only)."""

    def __init__(self, ck, mapping, skip_keys=()):
        self.ck, self.mapping, self.skip_keys = ck, dict(mapping), tuple(skip_keys)

    def _map(self, rule):
        base = rule.split("@")[0].split("-")[0] if rule not in self.mapping else rule
        for src, dst in self.mapping.items():
            if rule == src or rule.startswith(src + "@") or rule.startswith(src + "-") or rule.startswith(src + ":") or base == src:
                return dst + rule[len(src):]
        return None

    def __getattr__(self, name):
        f = getattr(self.ck, name)
        if name in ("ok", "bad", "check", "floor", "anchor_lost"):
            def g(*a, **kw):
                a = list(a)
                idx = 1 if name == "check" else 0
                rule = a[idx]
                new = self._map(rule)
                if new is None:
                    return True
                key = a[idx + 1] if name in ("ok", "bad", "check") and len(a) > idx + 1 else ""
                if any(("%s:%s" % (rule, key)).startswith(s) for s in self.skip_keys):
                    return True
                a[idx] = new
                return f(*a, **kw)
            return g
        if name == "rule":
            return lambda *a, **kw: None
        return f
