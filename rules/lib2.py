"""More reusable analyses: Result edges, value flow to return, error propagation."""
import re
from .facts import callee, op_local, op_place
from .lib import src_of_operand, src_of_place, is_callee, switch_info


def value_aliases(fn, local, through=()):
    """locals that hold (a move/copy of) the value in `local`, and locals that reference it.
    through: callee regexes whose result is treated as the same value as their first argument."""
    vals = {local}
    refs = set()
    changed = True
    while changed:
        changed = False
        for b in fn.blocks:
            for st in b["st"]:
                lhs = st["lhs"]
                if "p" in lhs:
                    continue
                rv = st["rv"]
                if rv["k"] == "use":
                    p = op_place(rv["a"])
                    if p is not None and "p" not in p:
                        if p["l"] in vals and lhs["l"] not in vals:
                            vals.add(lhs["l"]); changed = True
                        if p["l"] in refs and lhs["l"] not in refs:
                            refs.add(lhs["l"]); changed = True
                elif rv["k"] == "ref":
                    p = rv["pl"]
                    if "p" not in p and p["l"] in vals and lhs["l"] not in refs:
                        refs.add(lhs["l"]); changed = True
                    if p.get("p") == ["*"] and p["l"] in refs and lhs["l"] not in refs:
                        refs.add(lhs["l"]); changed = True
            t = b["t"]
            if t["k"] == "call" and through and "p" not in t["dest"] and t["args"]:
                if is_callee(t, *through):
                    a = op_place(t["args"][0])
                    if a is not None and "p" not in a and a["l"] in vals and t["dest"]["l"] not in vals:
                        vals.add(t["dest"]["l"]); changed = True
    return vals, refs


def ok_edges(fn, local):
    """For a Result held in `local`: list of (switch_block, ok_target, err_target) over every test of it:
    match / if let (discriminant), `?` (Try::branch + ControlFlow discriminant), is_ok()/is_err()."""
    vals, refs = value_aliases(fn, local)
    cf = set()      # ControlFlow locals from Try::branch(result)
    opt_vals, opt_refs = set(), set()   # Option locals produced by result.ok()
    bool_ok = set()  # bool locals true iff Ok
    bool_err = set()
    for b in fn.blocks:
        t = b["t"]
        if t["k"] != "call" or "p" in t["dest"] or not t["args"]:
            continue
        a = op_place(t["args"][0])
        if a is None or "p" in a:
            continue
        if is_callee(t, r"Result<.*> as std::ops::Try>::branch$") and a["l"] in vals:
            cf.add(t["dest"]["l"])
        if is_callee(t, r"Result::<.*>::ok$") and a["l"] in vals:
            # `.ok()`: Some <=> Ok.  Tests of that Option count as tests of the Result
            ov, orf = value_aliases(fn, t["dest"]["l"])
            opt_vals |= ov
            opt_refs |= orf
        if is_callee(t, r"Result::<.*>::is_ok$") and a["l"] in refs:
            bool_ok.add(t["dest"]["l"])
        if is_callee(t, r"Result::<.*>::is_err$") and a["l"] in refs:
            bool_err.add(t["dest"]["l"])
    if opt_vals:
        for b in fn.blocks:
            t = b["t"]
            if t["k"] != "call" or "p" in t["dest"] or not t["args"]:
                continue
            a = op_place(t["args"][0])
            if a is None or "p" in a:
                continue
            if is_callee(t, r"Option<.*> as std::ops::Try>::branch$") and a["l"] in opt_vals:
                cf.add(t["dest"]["l"])
            if is_callee(t, r"Option::<.*>::is_some$") and a["l"] in opt_refs:
                bool_ok.add(t["dest"]["l"])
            if is_callee(t, r"Option::<.*>::is_none$") and a["l"] in opt_refs:
                bool_err.add(t["dest"]["l"])
    # propagate bools / cf through moves and `!`
    for _ in range(3):
        for b in fn.blocks:
            for st in b["st"]:
                if "p" in st["lhs"]:
                    continue
                rv = st["rv"]
                l = st["lhs"]["l"]
                if rv["k"] == "use":
                    p = op_place(rv["a"])
                    if p is not None and "p" not in p:
                        if p["l"] in cf:
                            cf.add(l)
                        if p["l"] in bool_ok:
                            bool_ok.add(l)
                        if p["l"] in bool_err:
                            bool_err.add(l)
                elif rv["k"] == "un" and rv["op"] == "Not":
                    p = op_place(rv["a"])
                    if p is not None and "p" not in p:
                        if p["l"] in bool_ok:
                            bool_err.add(l)
                        if p["l"] in bool_err:
                            bool_ok.add(l)
    out = []
    for b in sorted(fn.reachable_blocks()):
        t = fn.term(b)
        if t["k"] != "switch":
            continue
        si = switch_info(fn, b)
        if si["kind"] == "discr":
            pl = si["place"]
            base = pl["l"]
            proj = pl.get("p", [])
            is_val = (base in vals and not proj) or (base in refs and proj == ["*"]) or (base in cf and not proj)
            is_opt = (base in opt_vals and not proj) or (base in opt_refs and proj == ["*"])
            if is_opt and not is_val:
                some_t = none_t = None
                for v, tgt in t["cases"]:
                    if v == "1":
                        some_t = tgt
                    elif v == "0":
                        none_t = tgt
                out.append((b, some_t if some_t is not None else t["else"], none_t if none_t is not None else t["else"]))
                continue
            if not is_val:
                continue
            okt = errt = None
            for v, tgt in t["cases"]:
                if v == "0":
                    okt = tgt
                elif v == "1":
                    errt = tgt
            if okt is None:
                okt = t["else"]
            if errt is None:
                errt = t["else"]
            out.append((b, okt, errt))
        elif si["kind"] == "val":
            l = si["local"]
            if l in bool_ok or l in bool_err:
                f_t = None
                for v, tgt in t["cases"]:
                    if v == "0":
                        f_t = tgt
                t_t = t["else"]
                if f_t is None:
                    continue
                if l in bool_ok:
                    out.append((b, t_t, f_t))
                else:
                    out.append((b, f_t, t_t))
    return out


def local_from_call(fn, operand, pat, through=(r"Try>::branch$",)):
    s = src_of_operand(fn, operand, through_calls=through)
    return s.kind == "call" and is_callee(s.term, pat)


def flows_to_return(fn, place, through=()):
    """value stored in `place` (a whole local) reaches _0 via moves / listed pass-through calls."""
    if place == {"l": 0}:
        return True
    if "p" in place:
        return False
    vals, _ = value_aliases(fn, place["l"], through=through)
    return 0 in vals


def exclusive_region(fn, a, b):
    """blocks reachable from a (incl.) but not from b (incl.)"""
    ra = {a} | fn.reach([a])
    rb = {b} | fn.reach([b])
    return ra - rb


def returns_in(fn, region):
    """classify assignments to _0 inside region: list of ('ok'|'err'|'other', line)"""
    out = []
    for rb in sorted(region):
        for st in fn.blocks[rb]["st"]:
            if st["lhs"] == {"l": 0}:
                rv = st["rv"]
                if rv["k"] == "agg" and rv["n"] == "std::result::Result::Err":
                    out.append(("err", st["ln"]))
                elif rv["k"] == "agg" and rv["n"] == "std::result::Result::Ok":
                    out.append(("ok", st["ln"]))
                else:
                    out.append(("other", st["ln"]))
        t = fn.term(rb)
        if t["k"] == "call" and t["dest"] == {"l": 0}:
            if is_callee(t, r"FromResidual.*from_residual$"):
                out.append(("err", t["ln"]))
            else:
                out.append(("other", t["ln"]))
    return out


def error_propagates(fn, call_term):
    """the Err outcome of this call's Result leads (exclusively) to `return Err(..)`; also true when the
    call's result *is* the function's return value."""
    dest = call_term["dest"]
    if "p" in dest:
        return False
    if flows_to_return(fn, dest):
        return True
    return result_error_propagates(fn, dest["l"])


def dest_used(fn, call_block):
    """is the destination local of the call at call_block read anywhere (other than drop)?"""
    t = fn.term(call_block)
    d = t["dest"]
    if "p" in d:
        return True
    l = d["l"]
    for b in fn.blocks:
        for st in b["st"]:
            if _mentions(st["rv"], l):
                return True
        tt = b["t"]
        if tt["k"] == "call":
            for a in tt["args"]:
                p = op_place(a)
                if p is not None and p["l"] == l:
                    return True
            if "fnop" in tt:
                p = op_place(tt["fnop"])
                if p is not None and p["l"] == l:
                    return True
        elif tt["k"] == "switch":
            p = op_place(tt["d"])
            if p is not None and p["l"] == l:
                return True
        elif tt["k"] == "yield":
            p = op_place(tt["v"])
            if p is not None and p["l"] == l:
                return True
    return False


def _mentions(rv, l):
    k = rv["k"]
    if k in ("use", "cast", "un", "repeat"):
        p = op_place(rv["a"])
        return p is not None and p["l"] == l
    if k in ("ref", "rawptr", "discr"):
        return rv["pl"]["l"] == l
    if k == "bin":
        for x in (rv["a"], rv["b"]):
            p = op_place(x)
            if p is not None and p["l"] == l:
                return True
        return False
    if k == "agg":
        for x in rv["ops"]:
            p = op_place(x)
            if p is not None and p["l"] == l:
                return True
    return False


def await_result(fn, call_block):
    """For `call(..).await`: the local receiving the future's output (payload of Poll::Ready) -> (local, block) or None."""
    t = fn.term(call_block)
    d = t["dest"]
    if "p" in d:
        return None
    vals, refs = value_aliases(fn, d["l"], through=(r"IntoFuture>::into_future$",))
    pins = set()
    for b in fn.blocks:
        tt = b["t"]
        if tt["k"] == "call" and is_callee(tt, r"Pin::<.*>::new_unchecked$", r"Pin::<.*>::new$") and tt["args"]:
            a = op_place(tt["args"][0])
            if a is not None and "p" not in a and a["l"] in refs and "p" not in tt["dest"]:
                pins.add(tt["dest"]["l"])
    polls = set()
    for b in fn.blocks:
        tt = b["t"]
        if tt["k"] == "call" and is_callee(tt, r"Future>::poll$") and tt["args"]:
            a = op_place(tt["args"][0])
            if a is not None and "p" not in a and a["l"] in pins and "p" not in tt["dest"]:
                polls.add(tt["dest"]["l"])
    for bi, b in enumerate(fn.blocks):
        for st in b["st"]:
            rv = st["rv"]
            if rv["k"] == "use" and "p" not in st["lhs"]:
                p = op_place(rv["a"])
                if p is not None and p["l"] in polls and any(isinstance(e, dict) and e.get("dc") == "Ready" for e in p.get("p", [])):
                    return st["lhs"]["l"], bi
    return None


def awaited_ok_edges(fn, call_block):
    r = await_result(fn, call_block)
    if r is None:
        return []
    return ok_edges(fn, r[0])


def dominated_by_ok(fn, call_block, site_block, awaited=True):
    """site_block is dominated by the Ok edge of the (awaited) Result produced by the call at call_block"""
    edges = awaited_ok_edges(fn, call_block) if awaited else ok_edges(fn, fn.term(call_block)["dest"]["l"])
    for (swb, okt, errt) in edges:
        if fn.pred(okt) == [swb] and fn.dominates(okt, site_block):
            return True
    return False


def awaited_error_propagates(fn, call_block):
    r = await_result(fn, call_block)
    if r is None:
        return False
    return result_error_propagates(fn, r[0])


def _err_assign_block(fn, b):
    for st in fn.blocks[b]["st"]:
        if st["lhs"] == {"l": 0}:
            rv = st["rv"]
            if rv["k"] == "agg" and rv["n"] == "std::result::Result::Err":
                return True
    t = fn.term(b)
    if t["k"] == "call" and t["dest"] == {"l": 0} and is_callee(t, r"FromResidual.*from_residual$"):
        return True
    return False


def err_edge_propagates(fn, swb, okt, errt):
    """every path from the Err edge reaches an assignment `_0 = Err(..)`/from_residual before it can rejoin the
    Ok continuation or return."""
    cont = {okt} | fn.reach([okt], avoid=[swb])
    seen = set()
    work = [errt]
    found_err = False
    while work:
        b = work.pop()
        if b in seen:
            continue
        seen.add(b)
        if _err_assign_block(fn, b):
            found_err = True
            continue
        if b in cont:
            return False
        if fn.term(b)["k"] == "return":
            return False
        for s2 in fn.succ(b):
            if s2 not in seen:
                work.append(s2)
    return found_err


def result_error_propagates(fn, local):
    if flows_to_return(fn, {"l": local}, through=(r"Result::<.*>::map_err", )):
        return True
    edges = ok_edges(fn, local)
    if not edges:
        return False
    return all(err_edge_propagates(fn, swb, okt, errt) for (swb, okt, errt) in edges)


def guards(fn, block):
    """Conditions known at `block`: every switch edge whose target has the switch as its only predecessor and
    dominates `block`.  Returns dicts: {sw: switch block, value: case value string or 'else', si: switch_info,
    src: Src of the tested value, neg_values: values excluded when on the else edge}."""
    out = []
    for sb in sorted(fn.reachable_blocks()):
        t = fn.term(sb)
        if t["k"] != "switch":
            continue
        targets = [(v, tg) for v, tg in t["cases"]] + [("else", t["else"])]
        for v, tg in targets:
            if tg == sb:
                continue
            if fn.pred(tg) == [sb] and fn.dominates(tg, block) and sum(1 for _, x in targets if x == tg) == 1:
                si = switch_info(fn, sb)
                out.append({"sw": sb, "value": v, "si": si, "src": si["src"] if si else None,
                            "neg_values": [c[0] for c in t["cases"]] if v == "else" else []})
    return out


def guard_is_true(g):
    """for a bool switch: is this the 'true' edge?"""
    return g["value"] == "else" and g["neg_values"] == ["0"] or g["value"] == "1"


def guard_is_false(g):
    return g["value"] == "0"


def controlling_switches(fn, block):
    """switch blocks from which `block` is entered through straight-line (non-branching) blocks only."""
    out = []
    seen = set()
    work = [block]
    while work:
        b = work.pop()
        for p in fn.pred(b):
            if p in seen:
                continue
            seen.add(p)
            if fn.term(p)["k"] == "switch":
                out.append((p, b))
            else:
                work.append(p)
    return out


def path_avoiding(fn, start_block, is_stop, is_hit, exempt_edges=(), from_succ=True):
    """Search a path from start_block to a block with is_stop(b) that never enters a block with is_hit(b) and never
    takes an edge in exempt_edges.  Returns the list of blocks or None."""
    exempt = set(exempt_edges)
    seen = set()
    work = []
    if from_succ:
        for s in fn.succ(start_block):
            if (start_block, s) not in exempt:
                work.append((s, [start_block, s]))
    else:
        work.append((start_block, [start_block]))
    while work:
        b, path = work.pop()
        if b in seen:
            continue
        seen.add(b)
        if is_hit(b):
            continue
        if is_stop(b):
            return path
        for s in fn.succ(b):
            if (b, s) in exempt or s in seen:
                continue
            work.append((s, path + [s]))
    return None


def bool_edges(fn, sw):
    """(true_target, false_target) of a bool switch block"""
    t = fn.term(sw)
    f_t = None
    for v, tg in t["cases"]:
        if v == "0":
            f_t = tg
    return t["else"], f_t


def skeleton(fn, start_block, ignore_calls=(), max_nodes=400):
    """Canonical decision skeleton of the CFG region reachable from start_block: calls (short callee names), switch
    kinds with ordered successors, returns.  Numeric/string constants and local numbering are ignored, straight-line
    blocks without calls are compressed.  Two sibling functions with the same decision structure give equal strings."""
    ids = {}
    out = []

    def short(t):
        n = t.get("fn") or ""
        n = re.sub(r"<[^<>]*>", "", n)
        n = re.sub(r"<[^<>]*>", "", n)
        return n.rsplit("::", 2)[-2] + "::" + n.rsplit("::", 1)[-1] if "::" in n else n

    def sw_kind(b):
        si = switch_info(fn, b)
        if si is None:
            return "?"
        if si["kind"] == "discr":
            return "discr(" + si["ty"].split("<")[0].rsplit("::", 1)[-1] + ")"
        s = si["src"]
        if s is not None and s.kind == "rv" and s.rv["k"] == "bin":
            return "cmp(" + s.rv["op"] + ")"
        if s is not None and s.kind == "call":
            return "call(" + short(s.term) + ")"
        if s is not None and s.kind == "path":
            return "flag(" + (s.root if (s.local or 99) <= fn.d["argc"] else "var") + ")"
        if s is not None and s.kind == "rv" and s.rv["k"] == "un":
            return "not"
        return "val"

    memo = {}
    onstack = set()

    def visit(b, depth=0):
        # skip pure pass-through blocks
        calls = []
        hops = 0
        while hops < 10000:
            hops += 1
            t = fn.term(b)
            for st in fn.blocks[b]["st"]:
                if st["lhs"] == {"l": 0}:
                    rv = st["rv"]
                    if rv["k"] == "agg":
                        calls.append("=%s(%s)" % (rv["n"].rsplit("::", 1)[-1], ",".join(o.get("c", "_") for o in rv["ops"])))
                    elif rv["k"] == "use" and "c" in rv["a"]:
                        calls.append("=" + rv["a"]["c"])
            if t["k"] == "call":
                nm = short(t)
                if not any(re.search(p, nm) for p in ignore_calls):
                    calls.append(nm)
            succ = fn.succ(b)
            if t["k"] in ("goto", "falseedge", "falseunwind", "drop", "call", "assert") and len(succ) == 1 and succ[0] not in onstack \
                    and (not calls or len(fn.pred(succ[0])) == 1):
                b = succ[0]
                continue
            break
        head = "".join("[%s]" % c for c in calls)
        if b in onstack:
            return head + "^L"
        if b in memo:
            return head + memo[b]
        if depth > 120:
            return head + "..."
        onstack.add(b)
        t = fn.term(b)
        if t["k"] == "return":
            r = "ret"
        elif t["k"] == "switch":
            kids = [visit(tg, depth + 1) for tg in fn.succ(b)]
            r = "%s{%s}" % (sw_kind(b), "|".join(kids))
        else:
            succ = fn.succ(b)
            r = "end" if not succ else visit(succ[0], depth + 1)
        onstack.discard(b)
        memo[b] = r
        return head + r

    return visit(start_block)


def vec_macro_elems(fn, operand):
    """element operands of a `vec![a, b, ..]` literal that `operand` evaluates to (Box::new_uninit + array store +
    box_assume_init_into_vec / into_vec lowering), or None."""
    s = src_of_operand(fn, operand)
    if s.kind != "call" or not is_callee(s.term, r"box_assume_init_into_vec", r"slice::<impl \[.*\]>::into_vec"):
        return None
    b = src_of_operand(fn, s.term["args"][0])
    boxl = None
    if b.kind == "call" and is_callee(b.term, r"Box::<.*>::new_uninit$", r"Box::<.*>::new$") and "p" not in b.term["dest"]:
        boxl = b.term["dest"]["l"]
        if is_callee(b.term, r"Box::<.*>::new$"):
            a = src_of_operand(fn, b.term["args"][0])
            if a.kind == "agg" and a.rv.get("ak") == "array":
                return list(a.rv.get("ops", []))
    if boxl is None:
        return None
    vals, refs = value_aliases(fn, boxl)
    for bb in fn.blocks:
        for st in bb["st"]:
            if "p" in st["lhs"] and st["lhs"]["l"] in (vals | refs | {boxl}) and st["rv"]["k"] == "agg" and st["rv"].get("ak") == "array":
                return list(st["rv"].get("ops", []))
    return None


def loop_heads(f):
    """{switch block: (none_target, some_target, next_call_block)} for `match iter.next()` loop heads (for loops)"""
    from .lib import switch_info as _si
    out = {}
    for b, t in f.calls():
        if not is_callee(t, r"Iterator>::next$") or "p" in t["dest"]:
            continue
        sb = f.succ(b)[0] if f.succ(b) else None
        hops = 0
        while sb is not None and f.term(sb)["k"] != "switch" and len(f.succ(sb)) == 1 and hops < 4:
            sb = f.succ(sb)[0]
            hops += 1
        if sb is None or f.term(sb)["k"] != "switch":
            continue
        si = _si(f, sb)
        if si and si["kind"] == "discr" and si["ty"].startswith("std::option::Option<") and si["place"]["l"] == t["dest"]["l"]:
            cases = dict((v, tg) for v, tg in f.term(sb)["cases"])
            if "0" in cases and "1" in cases:
                out[sb] = (cases["0"], cases["1"], b)
    return out


def iteration_skips(f, head, sinks):
    """a path through one iteration of the loop at `head` (from the Some edge back to the next() call, or out by return)
    that touches no block of `sinks`; None if every iteration passes a sink.  Leaving through an error return that
    propagates is the caller's business (pass those blocks as sinks if accepted)."""
    none_t, some_t, nb = loop_heads(f)[head]
    return path_avoiding(f, some_t, lambda x: x == nb or f.term(x)["k"] == "return", lambda x: x in sinks, (), from_succ=False)


def decision_table(fn, ignore_calls=(), effect_calls=(), max_paths=40000, start_block=0):
    """Semantic abstraction of a small loop-free function that survives control-flow restructuring: the set of rows
    (path condition, effects, outcome).  Every acyclic path entry->return is walked with constant propagation for locals that
    hold bool/int constants (so a hoisted `let missing = a || b; if missing {..}` contributes the atoms a, b and no atom of its
    own); the path condition is the set of (atom, edge) of the switches whose outcome was not already decided by propagated
    constants, atoms being described by where the tested value comes from (call name, compared quantities, parameter flag,
    discriminant of a lookup).  Returns (rows, complete) - complete is False when the path bound was hit."""
    from .lib import switch_info as _si

    def short(t):
        n = t.get("fn") or ""
        n = re.sub(r"<[^<>]*>", "", n)
        n = re.sub(r"<[^<>]*>", "", n)
        return (n.rsplit("::", 2)[-2] + "::" + n.rsplit("::", 1)[-1]) if "::" in n else n

    def desc_src(s, depth=0):
        if s is None:
            return "?"
        if s.kind == "call":
            nm = short(s.term)
            if any(re.search(p, nm) for p in ignore_calls) and s.term["args"] and depth < 4:
                return desc_src(src_of_operand(fn, s.term["args"][0]), depth + 1)
            return "call(%s)" % nm + "".join("." + f for f in s.fields if not f.startswith("<") and f != "*")
        if s.kind == "path":
            root = ("self" if s.root == "self" else "p%d" % s.local) if (s.local is not None and s.local <= fn.d["argc"]) else "var"
            return root + "".join("." + f for f in s.fields if not f.startswith("<") and f != "*")
        if s.kind == "const":
            return "const"
        if s.kind == "rv":
            rv = s.rv
            if rv["k"] == "bin":
                return "%s(%s,%s)" % (rv["op"], desc_src(src_of_operand(fn, rv["a"]), depth + 1) if depth < 3 else "_",
                                      desc_src(src_of_operand(fn, rv["b"]), depth + 1) if depth < 3 else "_")
            if rv["k"] == "un":
                return "%s(%s)" % (rv["op"], desc_src(src_of_operand(fn, rv["a"]), depth + 1) if depth < 3 else "_")
            if rv["k"] == "cast" and depth < 4:
                return desc_src(src_of_operand(fn, rv["a"]), depth + 1)
            if rv["k"] == "discr":
                return "discr"
        return s.kind

    atom_cache = {}

    def atom(b):
        if b in atom_cache:
            return atom_cache[b]
        si = _si(fn, b)
        a = "?"
        if si is not None:
            if si["kind"] == "discr":
                a = "discr[%s](%s)" % (si["ty"].split("<")[0].rsplit("::", 1)[-1], desc_src(si["src"]))
            else:
                a = desc_src(si["src"])
        atom_cache[b] = a
        return a

    rows = set()
    count = [0]
    complete = [True]

    def const_of(o, env):
        if "c" in o:
            return o["c"].strip()
        p = op_place(o)
        if p is not None and "p" not in p and p["l"] in env:
            return env[p["l"]]
        return None

    def walk(b, env, conds, effects, seen):
        if count[0] > max_paths:
            complete[0] = False
            return
        while True:
            if b in seen:
                return          # back edge: loops are not abstracted
            seen = seen | {b}
            blk = fn.blocks[b]
            for st in blk["st"]:
                lhs = st["lhs"]
                if "p" in lhs:
                    continue
                rv = st["rv"]
                c = None
                if rv["k"] == "use":
                    c = const_of(rv["a"], env)
                elif rv["k"] == "un" and rv["op"] == "Not":
                    v = const_of(rv["a"], env)
                    if v in ("const true", "true"):
                        c = "const false"
                    elif v in ("const false", "false"):
                        c = "const true"
                if lhs["l"] == 0 and rv["k"] == "agg":
                    c = "%s(%s)" % (rv["n"].rsplit("::", 1)[-1], ",".join((const_of(o, env) or "_") for o in rv.get("ops", [])))
                if c is not None:
                    env = dict(env)
                    env[lhs["l"]] = c
                elif lhs["l"] in env:
                    env = dict(env)
                    del env[lhs["l"]]
            t = blk["t"]
            k = t["k"]
            if k == "return":
                count[0] += 1
                rows.add((frozenset(conds), tuple(effects), env.get(0, "var")))
                return
            if k == "call":
                nm = short(t)
                if "p" not in t["dest"] and t["dest"]["l"] in env:
                    env = dict(env)
                    del env[t["dest"]["l"]]
                if any(re.search(p, nm) for p in effect_calls):
                    effects = effects + [nm]
                if "to" not in t:
                    return
                b = t["to"]
                continue
            if k == "switch":
                v = const_of(t["d"], env)
                if v is None:
                    # discriminant of a local whose value is a known aggregate is not tracked: treat as undecided
                    pass
                if v is not None:
                    val = {"const true": "1", "true": "1", "const false": "0", "false": "0"}.get(v)
                    if val is None:
                        m = re.match(r"(?:const )?(-?\d+)", v)
                        val = m.group(1) if m else None
                    if val is not None:
                        tg = None
                        for cv, ct in t["cases"]:
                            if cv == val:
                                tg = ct
                        b = tg if tg is not None else t["else"]
                        continue
                a = atom(b)
                # name the `else` edge after the one value it stands for when the domain is known (bool, Option, Result)
                dom = None
                si_ = _si(fn, b)
                if t.get("dt") == "bool":
                    dom = {"0", "1"}
                elif si_ is not None and si_["kind"] == "discr" and si_["ty"].startswith(("std::option::Option<", "std::result::Result<")):
                    dom = {"0", "1"}
                else_label = "else"
                if dom is not None:
                    missing = dom - {cv for cv, _ in t["cases"]}
                    if len(missing) == 1:
                        else_label = list(missing)[0]
                targets = [(cv, ct) for cv, ct in t["cases"]] + [(else_label, t["else"])]
                done = set()
                for cv, ct in targets:
                    if fn.term(ct)["k"] == "unreachable" and not fn.blocks[ct]["st"]:
                        continue
                    if (cv, ct) in done:
                        continue
                    done.add((cv, ct))
                    walk(ct, env, conds + [(a, cv)], effects, seen)
                return
            if k in ("goto", "drop", "assert", "falseedge", "falseunwind", "yield"):
                b = t["to"]
                continue
            return

    walk(start_block, {}, [], [], frozenset())
    return rows, complete[0]


ITER_SOURCES = (r"IntoIterator>::into_iter$", r"<impl \[.*\]>::iter(_mut)?$", r"Vec::<.*>::(iter|iter_mut|drain)$", r"HashMap::<.*>::(iter|iter_mut|keys|values|drain|into_keys|into_values)$",
                r"BTreeMap::<.*>::(iter|keys|values|range)$", r"HashSet::<.*>::(iter|drain)$", r"VecDeque::<.*>::(iter|drain)$")


def iter_chain(fn, operand, max_hops=16):
    """[(method name, call term)] from the consumer side back to the iterator's source: follows argument 0 through
    Iterator/IntoIterator method calls (`a.iter().filter(f).take(n)` seen from the take result gives [take, filter, iter]).
    `into_iter` on something that already is an iterator (the for-loop's identity call) is walked through.  The last
    element is the source: a collection's iter()/into_iter()/drain(), or the first call that is not an iterator method."""
    out = []
    cur = src_of_operand(fn, operand)
    while cur.kind == "call" and len(out) < max_hops:
        c = callee(cur.term)
        name = c.rsplit("::", 1)[-1].split("<")[0]
        out.append((name, cur.term))
        if not cur.term["args"]:
            break
        if is_callee(cur.term, r"IntoIterator>::into_iter$"):
            # `impl<I: Iterator> IntoIterator for I` is the identity; any other impl is a collection = the source
            if not (cur.term.get("res") or "").startswith("<I as "):
                break
        elif is_callee(cur.term, *ITER_SOURCES) or not is_callee(cur.term, r"Iterator>?::\w+(::<.*>)?$"):
            break
        cur = src_of_operand(fn, cur.term["args"][0])
    return out


CUTS = ("take", "skip", "step_by", "take_while", "skip_while", "nth", "last", "rev_take")


def loop_cut(f, head):
    """adaptors between the collection and the `for` loop at `head` that drop elements by position (take/skip/step_by/..):
    with one of them the loop no longer visits every element of the batch.  [] when the loop walks the whole source."""
    none_t, some_t, nb = loop_heads(f)[head]
    t = f.term(nb)
    if not t["args"]:
        return []
    return [n for n, _ in iter_chain(f, t["args"][0]) if n in CUTS]


def whole_batch(ck, f, head, rid, key, what):
    cut = loop_cut(f, head)
    ck.check(not cut, rid, key, "%s is cut by %s before the loop sees it: the elements beyond the cut are never processed" % (what, cut),
             f.where(f.term(loop_heads(f)[head][2])["ln"]), detail="loop over the whole batch")
    return not cut
